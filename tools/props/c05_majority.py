"""C05, majority-gate part (qclib/gates/majority.py).  Called from props/c05.py.

Tie: (a) SOURCE TIE: the statements of `operate` that compute `n_min` and `n_controls` are re-translated
on every run (tools/py2lean.py, `translate_block`) into lean/QclibModel/Gen/Majority.lean, and
`Qclib.C05_majority_src` proves the generated definition equal to the hand model (`majMin`, `majSizes`) for
every n; the emission loop that follows keeps an AST fingerprint; (a') double tie: the generated definition is
also executed by the driver and diffed against the Python original for every n <= N (a translator bug shows
as a disagreement, not as a wrong theorem); (b) the list `n_controls` observed on the real code for
every n <= N versus `majSizes n`; (c) the full emitted MCX list versus `majority` for small n.
Oracle: the MCX list emitted by the REAL `operate` (recorded through a duck-typed circuit, so that
n around 19..23 -- where the historical defect lives -- stays cheap) is evaluated classically:
target flipped iff weight >= ceil(n/2), for all inputs (small n) / per-weight samples (large n);
plus qiskit Operator of the real circuit for n <= 7.
"""
import ast
import hashlib
import itertools
import os

import numpy as np

import framework

DRIVER = "Drivers/C05Majority.lean"
THEOREMS = ["Qclib.C05_majority", "Qclib.C05_majority_sizes", "Qclib.C05_majority_src"]
REL = "qclib/gates/majority.py"
GEN_FILE = os.path.join(framework.LEAN, "QclibModel", "Gen", "Majority.lean")
LOOP_START = r"^for k in n_controls"


def generate(ctx):
    """Re-translate the size computation of `operate` from the current source (called by props/c05.py's `generate`;
    a refusal raises and becomes the broken obligation `translator`)."""
    import py2lean
    py2lean.ensure_prelude(framework.LEAN)
    blk = py2lean.translate_block(os.path.join(framework.REPO, REL), "operate", "operate_sizes", "Qclib.Gen.Majority",
                                  result=["n_min", "n_controls"], stop=LOOP_START,
                                  views={"len(controls)": "len_controls"}, relpath=REL)
    text = py2lean.write_module(GEN_FILE, [blk], [REL + " :: operate (the statements before the emission loop: n_min, n_controls)"])
    import srctie
    srctie.verify(ctx, "QclibModel.Props.C05Majority", ["Qclib.C05_majority_src"])
    return {"file": os.path.relpath(GEN_FILE, framework.VERIF), "translated": ["majority.operate: n_min, n_controls"],
            "bytes": len(text)}


class Recorder:
    """Duck-typed stand-in for QuantumCircuit: records the mcx calls of `operate`."""

    def __init__(self):
        self.gates = []

    def mcx(self, controls, target, *a, **k):
        self.gates.append((tuple(int(c) for c in controls), int(target)))


def emitted(n):
    from qclib.gates import majority
    rec = Recorder()
    majority.operate(rec, list(range(n)), n)
    return rec.gates


def source_fingerprint():
    """sha1 of the AST of the emission loop of `operate` (everything from `for k in n_controls:` on) and of its signature;
    the statements before the loop are not fingerprinted but translated (`generate`)."""
    import re
    path = os.path.join(framework.REPO, REL)
    tree = ast.parse(open(path).read())
    for node in tree.body:
        if isinstance(node, ast.FunctionDef) and node.name == "operate":
            body = [st for st in node.body
                    if not (isinstance(st, ast.Expr) and isinstance(st.value, ast.Constant))]
            idx = [i for i, st in enumerate(body) if re.search(LOOP_START, ast.unparse(st).split("\n")[0])]
            if not idx:
                return None
            dump = ast.dump(node.args) + "".join(ast.dump(st) for st in body[idx[0]:])
            return hashlib.sha1(dump.encode()).hexdigest()
    return None


# sha1 of the emission loop the model `majority` (Model/Majority.lean) was written against
EXPECTED_FINGERPRINT = "5df1bd49f1e4ca9bbaf1bd811d5839f3e1c4df2f"


def sizes_of(gates):
    return sorted({len(c) for c, _ in gates})


def eval_parity(gates, n, xs):
    """xs: array of input bit masks; returns bool array: target flipped."""
    masks = np.array([sum(1 << c for c in cs) for cs, _ in gates], dtype=np.int64)
    out = np.zeros(len(xs), dtype=np.int64)
    for i in range(0, len(masks), 4096):
        blk = masks[i:i + 4096]
        out += ((xs[:, None] & blk[None, :]) == blk[None, :]).sum(axis=1)
    return (out % 2) == 1


def check_n(ctx, n, exhaustive):
    key = f"majority:n={n}"
    try:
        gates = emitted(n)
    except Exception as e:  # n >= 1 controls and a target are a valid input: the construction must not fail
        ctx.fail(key + ":raises", f"majority.operate raised {type(e).__name__}: {str(e)[:200]} for {n} controls",
                 {"call": "qclib.gates.majority.operate", "n": n})
        return None
    if any(t != n for _, t in gates):
        ctx.fail(key + ":target", "an mcx does not act on the target", {"call": "majority.operate", "n": n})
        return gates
    m = (n + 1) // 2
    if exhaustive:
        xs = np.arange(2 ** n, dtype=np.int64)
    else:
        rows = []
        for w in range(n + 1):
            for _ in range(3):
                ones = ctx.rng.sample(range(n), w)
                rows.append(sum(1 << c for c in ones))
        xs = np.array(rows, dtype=np.int64)
    flipped = eval_parity(gates, n, xs)
    weights = np.array([bin(int(x)).count("1") for x in xs])
    want = weights >= m
    bad = np.nonzero(flipped != want)[0]
    if len(bad):
        x = int(xs[bad[0]])
        ctx.fail(key, f"input with {bin(x).count('1')} ones of {n}: target "
                      f"{'flipped' if flipped[bad[0]] else 'not flipped'}; sizes {sizes_of(gates)}",
                 {"call": "qclib.gates.majority.operate", "n": n, "input_bits": format(x, f"0{n}b")[::-1],
                  "sizes": sizes_of(gates), "n_bad": int(len(bad))})
    else:
        ctx.ok(key, nontrivial=n >= 3, sample={"majority_n": n, "sizes": sizes_of(gates), "inputs": int(len(xs))})
    ctx.count("majority")
    return gates


def operator_check(ctx, n):
    from qiskit import QuantumCircuit
    from qiskit.quantum_info import Operator
    from qclib.gates import majority
    qc = QuantumCircuit(n + 1)
    try:
        majority.operate(qc, list(range(n)), n)
    except Exception as e:
        ctx.fail(f"majority:operator:n={n}:raises", f"majority.operate raised {type(e).__name__}: {str(e)[:200]}",
                 {"call": "majority.operate on QuantumCircuit", "n": n})
        return
    op = Operator(qc).data
    dim = 2 ** (n + 1)
    ref = np.zeros((dim, dim))
    for x in range(dim):
        w = bin(x & (2 ** n - 1)).count("1")
        y = x ^ (1 << n) if w >= (n + 1) // 2 else x
        ref[y, x] = 1
    err = float(np.abs(op - ref).max())
    key = f"majority:operator:n={n}"
    if err > 1e-9:
        ctx.fail(key, f"|Operator - majority permutation| = {err:.2e}", {"call": "majority.operate on QuantumCircuit", "n": n})
    else:
        ctx.ok(key)


def sizes_only(n):
    """`n_controls` of the REAL `operate` for n controls without enumerating the subsets: `combinations` (a module global of
    majority.py) is stubbed to record the requested size and yield nothing."""
    from qclib.gates import majority
    seen = []

    def stub(controls, k):
        seen.append(int(k))
        return iter(())

    orig = majority.combinations
    majority.combinations = stub
    try:
        majority.operate(Recorder(), list(range(n)), n)
    finally:
        majority.combinations = orig
    return seen


def observed_n_min(n):
    """`n_min` of the REAL `operate` for n controls, read off the second argument of its `binomial` calls (a module global of
    majority.py, wrapped for the duration of the call); None if the code no longer calls it."""
    from qclib.gates import majority
    lows = []
    orig_b = getattr(majority, "binomial", None)
    orig_c = majority.combinations
    if orig_b is None:
        return None

    def wrapped(a, b):
        lows.append(int(b) + 1)
        return orig_b(a, b)

    majority.binomial = wrapped
    majority.combinations = lambda controls, k: iter(())
    try:
        majority.operate(Recorder(), list(range(n)), n)
    finally:
        majority.binomial = orig_b
        majority.combinations = orig_c
    return lows[0] if lows and len(set(lows)) == 1 else None


def binom_parity(w, k):
    """C(w, k) mod 2 by Lucas: odd iff k is a bit-subset of w."""
    return 1 if (k & ~w) == 0 and k <= w else 0


def boundary_sizes(ctx, ns):
    """Boundary pass: the size rule around the powers of two (n = 2^j - 1, 2^j, 2^j + 1, where the Lucas parity pattern of
    binomial(k-1, n_min-1) changes) and odd / even n beyond the enumerable range.  The gate is symmetric in the controls: an
    input of weight w flips the target sum_k C(w, k) times over the emitted sizes k, so the size list of the real code decides
    the property for every input; evaluated for every weight, in particular ceil(n/2) - 1, ceil(n/2), ceil(n/2) + 1."""
    lines = []
    for n in ns:
        try:
            ks = sizes_only(n)
        except Exception as e:
            ctx.fail(f"majority:sizes:n={n}:raises", f"majority.operate raised {type(e).__name__}: {str(e)[:200]} for {n} controls",
                     {"call": "qclib.gates.majority.operate", "n": n, "sizes_only": True})
            continue
        ctx.count("boundary:majority sizes around 2^j")
        lines.append((n, f"{n} : " + " ".join(str(k) for k in sorted(set(ks)))))
        m = (n + 1) // 2
        key = f"majority:sizes:n={n}"
        bad = [w for w in range(n + 1) if (sum(binom_parity(w, k) for k in ks) % 2 == 1) != (w >= m)]
        if len(ks) != len(set(ks)) or bad:
            w = bad[0] if bad else -1
            ctx.fail(key, f"size list {sorted(ks)} of operate for {n} controls: an input with {w} ones has its target "
                          f"{'flipped' if w < m else 'not flipped'} (threshold {m})",
                     {"call": "qclib.gates.majority.operate", "n": n, "sizes": sorted(ks), "weight": w, "sizes_only": True})
        else:
            ctx.ok(key, nontrivial=True, sample={"majority_n": n, "sizes": sorted(ks), "weights": n + 1})
    for n, line in lines:
        ctx.tie({"op": "majority_sizes", "lo": n, "hi": n}, [line], label=f"majority sizes n={n} (stubbed enumeration)",
                driver=DRIVER, compare=lambda op, impl, model: None if impl == model else f"impl={impl!r} model={model!r}")


# ------------------------------------------------------------------------------------------------
# input-diversity pass: the FORM of `controls` / `target` / the host circuit
# ------------------------------------------------------------------------------------------------
#   form                                                     -> where generated (all in the quick tier)
#   controls = list(range(n)), target = n (ascending, exact fit)   run(): check_n / operator_check / ties   (before this pass)
#   controls a permuted, NON-ascending, non-contiguous subset of a larger host, target below / between / above them,
#     as list / tuple / numpy int64 array / list of numpy ints / reversed range     diversity(): recorder cases, n = 1..10,
#                                                                                   all 2^n control inputs, tied to `majority`
#   real QuantumCircuit hosts with idle qubits: ints, Qubit objects (list / tuple), a whole QuantumRegister, a reversed
#     register slice, hosts declared as (controls, target, idle), (target, idle, controls), (idle, controls, target)
#                                                                                   diversity(): circuit cases, n = 1..5,
#                                                                                   full Operator of the host (<= 8 qubits)
#   operate called twice on the same host (= identity), the host's inverse, the host turned into a gate (`to_gate`) and
#     appended to a permuted qubit list of a second host                           diversity(): composition cases
#   sizes: n = 1 and n = 2 explicitly, odd / even n, n_controls of length 1, 2, 3+  (n = 1..10 above)
# The observable is the property's: the target of the call is flipped iff at least ceil(n/2) of the LISTED controls are 1;
# every other host qubit (idle ones included, whatever their value) is left alone.  The Lean model `majority controls target`
# takes an arbitrary control list, so every recorder case is also tied (gate list in emission order).

DIV_SEQ_FORMS = ("list", "tuple", "np-int64-array", "np-int-list", "reversed-range")
DIV_CIRCUIT_FORMS = ("ints", "ints-tuple", "qubits", "qubits-tuple", "register", "register-reversed-slice")
DIV_LAYOUTS = ("c-t-i", "t-i-c", "i-c-t")


def _seq_form(form, idx):
    if form == "list":
        return list(idx)
    if form == "tuple":
        return tuple(idx)
    if form == "np-int64-array":
        return np.array(idx, dtype=np.int64)
    if form == "np-int-list":
        return [np.int64(i) for i in idx]
    if form == "reversed-range":                      # only generated for idx = hi-1 .. lo
        return range(idx[0], idx[-1] - 1, -1)
    raise ValueError(form)


def _want_perm(host, controls, target):
    """dest[x] for every basis index x of the host (qiskit little-endian)."""
    m = (len(controls) + 1) // 2
    xs = np.arange(2 ** host, dtype=np.int64)
    w = np.zeros_like(xs)
    for c in controls:
        w += (xs >> c) & 1
    return np.where(w >= m, xs ^ (1 << target), xs)


def diversity_recorder_case(ctx, case):
    """`operate` on a duck-typed circuit with the controls in the given sequence form; exhaustive classical evaluation."""
    from qclib.gates import majority
    n, host, controls, target, form = case["n"], case["host"], case["controls"], case["target"], case["form"]
    key = f"majority:diversity:recorder:{form}:n={n}:controls={'-'.join(map(str, controls))}:target={target}"
    rep = dict(case, call="qclib.gates.majority.operate", diversity="recorder")
    rec = Recorder()
    try:
        majority.operate(rec, _seq_form(form, controls), target if form != "np-int-list" else np.int64(target))
    except Exception as e:
        ctx.fail(key + ":raises", f"majority.operate(circuit, controls={form} {controls}, target={target}) raised "
                                  f"{type(e).__name__}: {str(e)[:160]}", rep)
        return
    ctx.count("diversity:majority:controls " + form)
    gates = rec.gates
    ctx.tie({"op": "majority", "controls": list(controls), "target": target},
            ["mcx " + " ".join(str(q) for q in cs + (t,)) + " ;" for cs, t in gates],
            label=f"majority gate list ({form}) controls={controls} target={target}", driver=DRIVER)
    stray = [g for g in gates if g[1] != target or not set(g[0]) <= set(controls) or len(set(g[0])) != len(g[0])]
    if stray:
        ctx.fail(key + ":wires", f"an emitted mcx {stray[0]} touches a qubit outside the listed controls {controls} / target "
                                 f"{target}", dict(rep, gate=[list(stray[0][0]), stray[0][1]]))
        return
    # exhaustive over the 2^n values of the listed controls, other host qubits 0 and 1
    xs = np.arange(2 ** n, dtype=np.int64)
    placed = np.zeros_like(xs)
    for j, c in enumerate(controls):
        placed |= ((xs >> j) & 1) << c
    flipped = eval_parity(gates, host, placed)
    want = np.array([bin(int(x)).count("1") for x in xs]) >= (n + 1) // 2
    bad = np.nonzero(flipped != want)[0]
    if len(bad):
        x = int(xs[bad[0]])
        ctx.fail(key, f"controls {controls} ({form}) with values {format(x, f'0{n}b')[::-1]} (listed order): target "
                      f"{'flipped' if flipped[bad[0]] else 'not flipped'}", dict(rep, input_bits=format(x, f"0{n}b")[::-1]))
    else:
        ctx.ok(key, nontrivial=n >= 3, sample={"majority_n": n, "form": form, "controls": list(controls), "target": target})


def _build_host(case):
    """(circuit, controls argument, target argument, control host indices, target host index) of a circuit case."""
    from qiskit import QuantumCircuit, QuantumRegister
    n, form = case["n"], case["form"]
    if form.startswith("register"):
        regs = {"c": QuantumRegister(n, "c"), "t": QuantumRegister(1, "t"), "i": QuantumRegister(case["idle"], "i")}
        qc = QuantumCircuit(*[regs[r] for r in case["layout"].split("-")])
        cidx = [qc.find_bit(q).index for q in regs["c"]]
        tidx = qc.find_bit(regs["t"][0]).index
        if form == "register":
            return qc, regs["c"], regs["t"][0], cidx, tidx
        return qc, regs["c"][::-1], regs["t"][0], cidx[::-1], tidx
    qc = QuantumCircuit(case["host"])
    cidx, tidx = list(case["controls"]), case["target"]
    if form == "ints":
        return qc, list(cidx), tidx, cidx, tidx
    if form == "ints-tuple":
        return qc, tuple(cidx), tidx, cidx, tidx
    if form == "qubits":
        return qc, [qc.qubits[i] for i in cidx], qc.qubits[tidx], cidx, tidx
    if form == "qubits-tuple":
        return qc, tuple(qc.qubits[i] for i in cidx), qc.qubits[tidx], cidx, tidx
    raise ValueError(form)


def diversity_circuit_case(ctx, case):
    """`operate` on a real QuantumCircuit host; the whole host operator against the permutation."""
    from qiskit import QuantumCircuit
    from qiskit.quantum_info import Operator
    from qclib.gates import majority
    n, form, mode = case["n"], case["form"], case.get("mode", "once")
    rep = dict(case, call="qclib.gates.majority.operate on QuantumCircuit", diversity="circuit")
    tag = f"{form}:{case.get('layout') or 'flat'}:{mode}:n={n}"
    try:
        qc, cargs, targ, cidx, tidx = _build_host(case)
        majority.operate(qc, cargs, targ)
        if mode == "twice":
            majority.operate(qc, cargs, targ)
        elif mode == "inverse":
            qc = qc.inverse()
        elif mode == "to-gate":                                     # the host as a gate on a permuted list of a second host
            perm = case["perm"]
            outer = QuantumCircuit(len(perm) + 1)
            outer.append(qc.to_gate(), perm)
            cidx, tidx, qc = [perm[c] for c in cidx], perm[tidx], outer
        op = Operator(qc).data
    except Exception as e:
        ctx.fail(f"majority:diversity:circuit:{tag}:raises", f"majority.operate on a {form} host ({mode}) raised "
                                                            f"{type(e).__name__}: {str(e)[:160]}", rep)
        return
    ctx.count("diversity:majority:host " + form + ("" if mode == "once" else ":" + mode))
    host = qc.num_qubits
    dest = np.arange(2 ** host) if mode == "twice" else _want_perm(host, cidx, tidx)
    ref = np.zeros((2 ** host, 2 ** host))
    ref[dest, np.arange(2 ** host)] = 1
    err = float(np.abs(op - ref).max())
    key = f"majority:diversity:circuit:{tag}:controls={'-'.join(map(str, cidx))}:target={tidx}"
    if err > 1e-9:
        ctx.fail(key, f"|Operator(host) - (majority of controls {cidx} flips {tidx}, identity elsewhere)| = {err:.2e}",
                 dict(rep, observed_err=err))
    else:
        ctx.ok(key, nontrivial=n >= 2, sample={"majority_n": n, "form": form, "mode": mode, "host": host})


def diversity_gen(ctx):
    r = ctx.rng
    rec, circ = [], []
    for n in (1, 2, 3, 4, 5, 6, 7, 9, 10):
        host = n + 4
        for form in DIV_SEQ_FORMS:
            if form == "reversed-range":
                lo = r.randrange(1, 4)
                controls = list(range(lo + n - 1, lo - 1, -1))
                target = r.choice([0, host - 1])
            else:
                while True:
                    pick = r.sample(range(host), n + 1)
                    controls, target = pick[:n], pick[n]
                    if n < 2 or controls != sorted(controls):          # non-ascending whenever there is an order
                        break
            rec.append({"n": n, "host": host, "controls": controls, "target": target, "form": form})
    # target below all / between / above all controls, controls descending (n = 3, 4)
    for n, controls, target in ((3, [5, 3, 1], 0), (3, [6, 0, 4], 2), (4, [1, 5, 2, 0], 7), (2, [3, 1], 2), (1, [4], 1)):
        rec.append({"n": n, "host": 8, "controls": controls, "target": target, "form": "list"})
    for n in (1, 2, 3, 4, 5):
        idle = 2 if n <= 4 else 1
        host = n + 1 + idle
        for form in DIV_CIRCUIT_FORMS:
            if form.startswith("register"):
                for layout in (DIV_LAYOUTS if n in (2, 3) else [r.choice(DIV_LAYOUTS)]):
                    circ.append({"n": n, "idle": idle, "layout": layout, "form": form})
            else:
                while True:
                    pick = r.sample(range(host), n + 1)
                    if n < 2 or pick[:n] != sorted(pick[:n]):
                        break
                circ.append({"n": n, "host": host, "controls": pick[:n], "target": pick[n], "form": form})
    for mode in ("twice", "inverse", "to-gate"):
        for n, form in ((3, "qubits"), (4, "ints"), (2, "register-reversed-slice")):
            c = {"n": n, "form": form, "mode": mode}
            if form.startswith("register"):
                c.update(idle=2, layout="t-i-c")
                host = n + 3
            else:
                host = n + 3
                pick = r.sample(range(host), n + 1)
                c.update(host=host, controls=pick[:n], target=pick[n])
            if mode == "to-gate":
                perm = list(range(host + 1))
                r.shuffle(perm)
                c["perm"] = perm[:host]
            circ.append(c)
    return rec, circ


def diversity(ctx):
    rec, circ = diversity_gen(ctx)
    for c in rec:
        diversity_recorder_case(ctx, c)
    for c in circ:
        diversity_circuit_case(ctx, c)


def run(ctx, nmax=None):
    fp = source_fingerprint()
    if fp != EXPECTED_FINGERPRINT:
        ctx.obligation_broken("source-fingerprint majority.operate (emission loop)",
                              f"the emission loop / signature of qclib/gates/majority.py::operate changed (ast sha1 {fp}, "
                              f"model written against {EXPECTED_FINGERPRINT}); the Lean model `majority` of "
                              f"Model/Majority.lean may no longer describe it")
    nmax = nmax or (23 if ctx.quick else 27)
    lines = []
    for n in range(1, nmax + 1):
        exhaustive = n <= (14 if ctx.quick else 16)
        gates = check_n(ctx, n, exhaustive)
        if gates is None:
            lines.append(f"{n} : raised")
            continue
        lines.append(f"{n} : " + " ".join(str(k) for k in sizes_of(gates)))
        if n <= (8 if ctx.quick else 10):
            ctx.tie({"op": "majority", "controls": list(range(n)), "target": n},
                    ["mcx " + " ".join(str(q) for q in cs + (t,)) + " ;" for cs, t in gates],
                    label=f"majority gate list n={n}", driver=DRIVER)
    # double tie of the translation: the definition generated from the source, run by the driver, against the Python original
    gen_hi = 40 if ctx.quick else 130
    gen_lines = []
    for n in range(1, gen_hi + 1):
        try:
            gen_lines.append(f"{n} : min {observed_n_min(n)} : " + " ".join(str(k) for k in sizes_only(n)))
        except Exception as e:
            gen_lines.append(f"{n} : raised {type(e).__name__}")
    ctx.tie({"op": "gen_sizes", "lo": 1, "hi": gen_hi}, gen_lines, label=f"translated operate_sizes 1..{gen_hi} vs Python",
            driver=DRIVER, compare=lambda op, impl, model: None if impl == model else
            next((f"impl={a!r} generated={b!r}" for a, b in itertools.zip_longest(impl, model) if a != b), "length"))
    ctx.tie({"op": "majority_sizes", "lo": 1, "hi": nmax}, lines, label=f"majority sizes 1..{nmax}",
            driver=DRIVER, compare=lambda op, impl, model: None if impl == model else
            next((f"impl={a!r} model={b!r}" for a, b in itertools.zip_longest(impl, model) if a != b), "length"))
    for n in range(1, 7 if ctx.quick else 9):
        operator_check(ctx, n)
    boundary_sizes(ctx, [24, 25, 31, 32, 33, 34, 47, 48, 63, 64, 65, 66] if ctx.quick else list(range(24, 131)))
    diversity(ctx)


def search(ctx, hints):
    run(ctx, nmax=27)


def replay(ctx, r):
    if "replay" in r and "n" not in r:
        r = r["replay"]
    if r.get("diversity") == "recorder":
        return diversity_recorder_case(ctx, r)
    if r.get("diversity") == "circuit":
        return diversity_circuit_case(ctx, r)
    n = int(r["n"])
    if r.get("sizes_only"):
        boundary_sizes(ctx, [n])
        return
    check_n(ctx, n, n <= 16)
