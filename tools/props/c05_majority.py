"""C05, majority-gate part (qclib/gates/majority.py).  Called from props/c05.py.

Tie: (a) source fingerprint of `operate` (AST dump of the function the Lean model
`Model/Majority.lean` was written against); (b) the list `n_controls` observed on the real code for
every n <= N versus `majSizes n`; (c) the full emitted MCX list versus `majority` for small n.
Oracle: the MCX list emitted by the REAL `operate` (recorded through a duck-typed circuit, so that
n around 19..23 -- where the historical defect lives -- stays cheap) is evaluated classically:
target flipped iff weight >= ceil(n/2), for all inputs (small n) / per-weight samples (large n);
plus qiskit Operator of the real circuit for n <= 7.
"""
import ast
import hashlib
import itertools
import os

import numpy as np

import framework

DRIVER = "Drivers/C05Majority.lean"
THEOREMS = ["Qclib.C05_majority", "Qclib.C05_majority_sizes"]
# sha1 of ast.dump(operate) the model was written against (update together with Model/Majority.lean)


class Recorder:
    """Duck-typed stand-in for QuantumCircuit: records the mcx calls of `operate`."""

    def __init__(self):
        self.gates = []

    def mcx(self, controls, target, *a, **k):
        self.gates.append((tuple(int(c) for c in controls), int(target)))


def emitted(n):
    from qclib.gates import majority
    rec = Recorder()
    majority.operate(rec, list(range(n)), n)
    return rec.gates


def source_fingerprint():
    path = os.path.join(framework.REPO, "qclib", "gates", "majority.py")
    tree = ast.parse(open(path).read())
    for node in tree.body:
        if isinstance(node, ast.FunctionDef) and node.name == "operate":
            return hashlib.sha1(ast.dump(node).encode()).hexdigest()
    return None


EXPECTED_FINGERPRINT = "cd64ebd4df5b3b8dd805c9b7f2c43d78a4d6bc25"


def sizes_of(gates):
    return sorted({len(c) for c, _ in gates})


def eval_parity(gates, n, xs):
    """xs: array of input bit masks; returns bool array: target flipped."""
    masks = np.array([sum(1 << c for c in cs) for cs, _ in gates], dtype=np.int64)
    out = np.zeros(len(xs), dtype=np.int64)
    for i in range(0, len(masks), 4096):
        blk = masks[i:i + 4096]
        out += ((xs[:, None] & blk[None, :]) == blk[None, :]).sum(axis=1)
    return (out % 2) == 1


def check_n(ctx, n, exhaustive):
    gates = emitted(n)
    key = f"majority:n={n}"
    if any(t != n for _, t in gates):
        ctx.fail(key + ":target", "an mcx does not act on the target", {"call": "majority.operate", "n": n})
        return gates
    m = (n + 1) // 2
    if exhaustive:
        xs = np.arange(2 ** n, dtype=np.int64)
    else:
        rows = []
        for w in range(n + 1):
            for _ in range(3):
                ones = ctx.rng.sample(range(n), w)
                rows.append(sum(1 << c for c in ones))
        xs = np.array(rows, dtype=np.int64)
    flipped = eval_parity(gates, n, xs)
    weights = np.array([bin(int(x)).count("1") for x in xs])
    want = weights >= m
    bad = np.nonzero(flipped != want)[0]
    if len(bad):
        x = int(xs[bad[0]])
        ctx.fail(key, f"input with {bin(x).count('1')} ones of {n}: target "
                      f"{'flipped' if flipped[bad[0]] else 'not flipped'}; sizes {sizes_of(gates)}",
                 {"call": "qclib.gates.majority.operate", "n": n, "input_bits": format(x, f"0{n}b")[::-1],
                  "sizes": sizes_of(gates), "n_bad": int(len(bad))})
    else:
        ctx.ok(key, nontrivial=n >= 3, sample={"majority_n": n, "sizes": sizes_of(gates), "inputs": int(len(xs))})
    ctx.count("majority")
    return gates


def operator_check(ctx, n):
    from qiskit import QuantumCircuit
    from qiskit.quantum_info import Operator
    from qclib.gates import majority
    qc = QuantumCircuit(n + 1)
    majority.operate(qc, list(range(n)), n)
    op = Operator(qc).data
    dim = 2 ** (n + 1)
    ref = np.zeros((dim, dim))
    for x in range(dim):
        w = bin(x & (2 ** n - 1)).count("1")
        y = x ^ (1 << n) if w >= (n + 1) // 2 else x
        ref[y, x] = 1
    err = float(np.abs(op - ref).max())
    key = f"majority:operator:n={n}"
    if err > 1e-9:
        ctx.fail(key, f"|Operator - majority permutation| = {err:.2e}", {"call": "majority.operate on QuantumCircuit", "n": n})
    else:
        ctx.ok(key)


def sizes_only(n):
    """`n_controls` of the REAL `operate` for n controls without enumerating the subsets: `combinations` (a module global of
    majority.py) is stubbed to record the requested size and yield nothing."""
    from qclib.gates import majority
    seen = []

    def stub(controls, k):
        seen.append(int(k))
        return iter(())

    orig = majority.combinations
    majority.combinations = stub
    try:
        majority.operate(Recorder(), list(range(n)), n)
    finally:
        majority.combinations = orig
    return seen


def binom_parity(w, k):
    """C(w, k) mod 2 by Lucas: odd iff k is a bit-subset of w."""
    return 1 if (k & ~w) == 0 and k <= w else 0


def boundary_sizes(ctx, ns):
    """Boundary pass: the size rule around the powers of two (n = 2^j - 1, 2^j, 2^j + 1, where the Lucas parity pattern of
    binomial(k-1, n_min-1) changes) and odd / even n beyond the enumerable range.  The gate is symmetric in the controls: an
    input of weight w flips the target sum_k C(w, k) times over the emitted sizes k, so the size list of the real code decides
    the property for every input; evaluated for every weight, in particular ceil(n/2) - 1, ceil(n/2), ceil(n/2) + 1."""
    lines = []
    for n in ns:
        ks = sizes_only(n)
        ctx.count("boundary:majority sizes around 2^j")
        lines.append((n, f"{n} : " + " ".join(str(k) for k in sorted(set(ks)))))
        m = (n + 1) // 2
        key = f"majority:sizes:n={n}"
        bad = [w for w in range(n + 1) if (sum(binom_parity(w, k) for k in ks) % 2 == 1) != (w >= m)]
        if len(ks) != len(set(ks)) or bad:
            w = bad[0] if bad else -1
            ctx.fail(key, f"size list {sorted(ks)} of operate for {n} controls: an input with {w} ones has its target "
                          f"{'flipped' if w < m else 'not flipped'} (threshold {m})",
                     {"call": "qclib.gates.majority.operate", "n": n, "sizes": sorted(ks), "weight": w, "sizes_only": True})
        else:
            ctx.ok(key, nontrivial=True, sample={"majority_n": n, "sizes": sorted(ks), "weights": n + 1})
    for n, line in lines:
        ctx.tie({"op": "majority_sizes", "lo": n, "hi": n}, [line], label=f"majority sizes n={n} (stubbed enumeration)",
                driver=DRIVER, compare=lambda op, impl, model: None if impl == model else f"impl={impl!r} model={model!r}")


def run(ctx, nmax=None):
    fp = source_fingerprint()
    if fp != EXPECTED_FINGERPRINT:
        ctx.obligation_broken("source-fingerprint majority.operate",
                              f"qclib/gates/majority.py::operate changed (ast sha1 {fp}, model written against "
                              f"{EXPECTED_FINGERPRINT}); the Lean model Model/Majority.lean may no longer describe it")
    nmax = nmax or (23 if ctx.quick else 27)
    lines = []
    for n in range(1, nmax + 1):
        exhaustive = n <= (14 if ctx.quick else 16)
        gates = check_n(ctx, n, exhaustive)
        lines.append(f"{n} : " + " ".join(str(k) for k in sizes_of(gates)))
        if n <= (8 if ctx.quick else 10):
            ctx.tie({"op": "majority", "controls": list(range(n)), "target": n},
                    ["mcx " + " ".join(str(q) for q in cs + (t,)) + " ;" for cs, t in gates],
                    label=f"majority gate list n={n}", driver=DRIVER)
    ctx.tie({"op": "majority_sizes", "lo": 1, "hi": nmax}, lines, label=f"majority sizes 1..{nmax}",
            driver=DRIVER, compare=lambda op, impl, model: None if impl == model else
            next((f"impl={a!r} model={b!r}" for a, b in itertools.zip_longest(impl, model) if a != b), "length"))
    for n in range(1, 7 if ctx.quick else 9):
        operator_check(ctx, n)
    boundary_sizes(ctx, [24, 25, 31, 32, 33, 34, 47, 48, 63, 64, 65, 66] if ctx.quick else list(range(24, 131)))


def search(ctx, hints):
    run(ctx, nmax=27)


def replay(ctx, r):
    n = int(r["n"])
    if r.get("sizes_only"):
        boundary_sizes(ctx, [n])
        return
    check_n(ctx, n, n <= 16)
