"""C03 — isometry decomposition (qclib/isometry.py): column-by-column, cosine-sine, Knill."""
import contextlib
import math
import os
import sys

CLAIMED = True
TECHNIQUE = ("Lean 4 proofs of the index logic of the column-by-column sweep (support invariant by induction over the bit steps, "
             "for all n, m, k) and of the algebra around the numerical kernels (Lemma 2, Knill's product of rank-one phase "
             "factors under an explicit orthonormality hypothesis, conjugated null-space extension) over any commutative "
             "*-ring; schedule model tied exactly to _g_k/_mc_gate/_uc_unitaries of the real code; Operator oracle over "
             "structured isometry families with the kernels' specifications re-checked per call")
LEVEL_TEXT = ("PARTIAL. Proved for all sizes: (C03_lemma2) _unitary([[a],[b]], basis) is unitary, maps (a,b)/norm to e_basis and "
              "zeroes the other component (identity on the zero pair); (C03_ccd_index, C03_ccd_preserves, C03_ccd_schedule) for "
              "every n, k<2^n: the index arithmetic of _a/_b/_k_s/start/idx pairs, the scheduled gates of G_k leave every column "
              "vanishing on rows >= k unchanged for ANY 2x2 matrices, and reduce column k (zero above the pivot) to row k given "
              "only that each chosen 2x2 zeroes its pair (support invariant r >= k, r = k mod 2^s, by induction over the bit "
              "steps); (C03_ccd_sweep) over C with the exact Lemma-2 matrices the whole sweep maps orthonormal columns to "
              "phase.e_c; (C03_knill) for an ORTHONORMAL complete eigen-system the ordered product of the retained factors "
              "(I + (l_i-1)|w_i><w_i|), in any order, skipping l_i = 1, equals sum l_i |w_i><w_i|; (C03_knill_factor) "
              "prep.diag(z at 0).prep^dagger is one such factor and X..X MCP X..X is that diagonal for all n; (C03_extend) "
              "[V | conj(null(V^T))] has orthonormal columns and is unitary when the dimensions add up; WHOLE CIRCUITS "
              "(C03_ccd_full) for every n, m<=n, over any commutative ring with conjugation: with the run described by its data "
              "(every MCG / UCG 2x2 matrix, the unknown unimodular diagonal each UCGate(up_to_diagonal=True) leaves behind, the "
              "closing DiagonalGate), IF the columns are orthonormal, every 2x2 meets Lemma 2 on the column it was computed from "
              "and is unitary, THEN after all G_k column c is phi_c.e_c with |phi_c|=1, with the closing diagonal conj(phi) the "
              "circuit maps column c exactly to e_c (m>0), preserves all inner products, and every left inverse "
              "(circuit.inverse()) maps e_c to column c of the isometry; (C03_ccd_code) over C, for EVERY isometry, with the exact "
              "Lemma-2 matrices chosen from the current working isometry as the code does and ANY unimodular UCGate diagonals, the "
              "loop ends with phi_c.e_c and the closing diagonal conj(phi) gives e_c (no hypothesis on the matrices left); "
              "(C03_knill_full) in the amplitude semantics, every state, "
              "n>=1: IF prep_i denotes a unitary with column |0..0> = w_i and prep_i.inverse() its adjoint, the w_i orthonormal "
              "and complete, dropped eigenvalues = 1, THEN the emitted circuit (prep_i^-1; X^n; MCP; X^n; prep_i per retained i, "
              "loop order) denotes sum l_i |w_i><w_i| on wires 0..n-1 and maps |j0> x phi to (its column j0) x phi; (C03_csd_full) "
              "scheme csd = C02_qsd_full in isometry mode: the whole buildUnitary-qsd gate list maps |j0> x phi (top n-m wires 0) "
              "to (column j0 of the extended unitary) x phi, given the kernel specifications at every node. Tied exactly: "
              "_a/_b/_k_s for k<64,i<8; the (k,i) schedule (MCG condition, control lists after reverse_bits, start, basis, "
              "index pairs, closing diagonal) for all n<=5, m<=n; Lemma-2 blocks numerically; Knill's retained eigenvalues and "
              "gate skeleton. Tested only: Operator(decompose(V, scheme))[:, :2^m] vs V, n<=5 (6 thorough), all m, three "
              "schemes, Haar and degenerate families; Schur orthonormality, null-space and cossin specifications per call.")
LEVEL_NOTE = ("Trusted: Lean kernel; scipy schur/null_space/cossin, numpy eig, qiskit UCGate(up_to_diagonal)/DiagonalGate/"
              "UnitaryGate/MCPhase, Operator, LowRankInitialize (C01), qclib.unitary (C02): specified and validated numerically "
              "each run, not verified; IEEE floats vs exact algebra (1e-7); that UCGate(up_to_diagonal=True) leaves a diagonal "
              "which the working copy absorbs (the code simulates the gate it actually appended).")
LEAN_TARGETS = ["QclibModel.Props.C03"]
THEOREMS = ["Qclib.C03_lemma2", "Qclib.C03_ccd_index", "Qclib.C03_ccd_preserves", "Qclib.C03_ccd_schedule",
            "Qclib.C03_ccd_sweep", "Qclib.C03_knill", "Qclib.C03_knill_factor", "Qclib.C03_extend",
            "Qclib.C03_ccd_full", "Qclib.C03_ccd_code", "Qclib.C03_knill_full", "Qclib.C03_csd_full"]
TRUSTED = [
    "scipy.linalg.schur(U, output='complex') of a unitary: T diagonal (to 1e-8), Z unitary, U = Z T Z^dagger (re-checked per call)",
    "scipy.linalg.null_space(V^T): orthonormal columns N with V^T N = 0 and 2^n - 2^m columns (re-checked per call)",
    "qiskit UCGate(up_to_diagonal=True), DiagonalGate, UnitaryGate, mcp, Operator; circuit.inverse(), reverse_bits()",
    "LowRankInitialize(state) prepares state from |0..0> (property C01) and its inverse() is the adjoint",
    "qclib.unitary.unitary in isometry mode (property C02)",
]
ASSUMPTIONS = ["exact complex arithmetic in the theorems; implementation compared at 1e-7",
               "isometries are orthonormal to 1e-12 (generated by QR / slicing unitaries)"]
RULE = ("tie: (n, m) schedules, (k, i) index triples, Lemma-2 input pairs, Knill argument lists; oracle: distinct "
        "(n, m, family, seed, scheme, 1-D flag) on which Operator[:, :2^m] was compared with V; input-diversity jobs: distinct "
        "(data family, n, m, element type, memory layout, call form, scheme); non-trivial = n>=2")
DRIVER = "Drivers/C03.lean"

import framework  # noqa: E402
from props import c02  # noqa: E402  (unitary families, qclib.unitary instrumentation)

TOL = 1e-7


def defer_fail(ctx, key, detail, replay):
    """Precision-only findings are reported after every other failure of the run."""
    if not hasattr(ctx, "_deferred"):
        ctx._deferred = []
    ctx._deferred.append((key, detail, replay))


def flush_deferred(ctx):
    for key, detail, replay in getattr(ctx, "_deferred", []):
        ctx.fail(key, detail, replay)
    ctx._deferred = []

FAMILIES = ["haar", "identity", "minus_identity", "i_identity", "diag_phases", "permutation", "real_orthogonal", "tensor",
            "block_equal", "block_diff", "hadamard", "qft", "diag_pm1", "cnot_chain", "tensor_id", "identity_columns",
            "real_signed"]


def make_isometry(family, n, m, seed):
    import numpy as np
    rng = np.random.default_rng(seed ^ 0x5a5a)
    if family == "identity_columns":
        cols = rng.permutation(2 ** n)[: 2 ** m]
        phases = rng.choice([1, -1, 1j, -1j], 2 ** m)
        return (np.eye(2 ** n, dtype=complex)[:, cols]) * phases
    if family == "real_signed":
        return c02.haar_real(rng, 2 ** n)[:, : 2 ** m].astype(float)
    if family.startswith("eigphase@"):
        # unitary W diag(exp(i phi_j)) W^dagger with phi_0 = phi, phi_1 = -phi next to Knill's `abs(arg) > 1e-7` test
        # (isometry.py:122) and generic other phases; meaningful for m = n (for m < n the code extends V by its own null space)
        phi = float(family.split("@")[1])
        dim = 2 ** n
        w = c02.haar(rng, dim)
        ph = rng.uniform(0.5, 2.5, dim) * rng.choice([-1.0, 1.0], dim)
        ph[0] = phi
        if dim > 2:
            ph[1] = -phi
        return ((w * np.exp(1j * ph)) @ w.conj().T)[:, : 2 ** m]
    if family.startswith("tiny_rows@"):
        # Haar isometry whose sibling rows 2j, 2j+1 (and, n >= 2, an aligned block of four) are scaled by e: the pairs handed to
        # Lemma 2 (`iso_norm != 0.0`, isometry.py:301) are tiny but not zero
        e = float(family.split("@")[1])
        dim = 2 ** n
        a = c02.haar(rng, dim)[:, : 2 ** m]
        j = int(rng.integers(dim // 2))
        a[2 * j: 2 * j + 2, :] *= e
        if n >= 3:
            q = int(rng.integers(dim // 4))
            a[4 * q: 4 * q + 4, :] *= e
        qq, rr = np.linalg.qr(a)
        return qq * (np.diagonal(rr) / np.abs(np.diagonal(rr)))
    if family == "subnormal_pair":
        # fixed literals: a sibling pair whose squares are subnormal, so that Lemma 2 (isometry.py:298) takes its norm from a few
        # subnormal quanta (m = 0 only)
        v = {1: [1.0, 4e-162], 2: [1.0, 0.0, 4e-162, 2e-162], 3: [0.6, 0, 0, 0.8j, 0, 0, 3e-162j, -4e-162]}[min(n, 3)]
        v = np.array(v, dtype=complex)
        for _ in range(n - 3):
            v = np.kron(v, np.array([1.0, 0.0]))
        return v.reshape(-1, 1)
    if family.startswith("allclose@"):
        # state vector (first column; further columns completed to an isometry) whose two sibling multiplexer blocks are a
        # relative delta apart: next to the np.allclose merge of qiskit's UCGate._simplify (rtol 1e-5)
        delta = float(family.split("@")[1])
        f0 = np.array([0.6, 0.8])
        f1 = np.array([0.6, 0.8 * (1 + delta)])
        f1 = f1 / np.linalg.norm(f1)
        v = np.concatenate([0.6 * f0, 0.8 * f1]).astype(complex)
        for _ in range(n - 2):
            v = np.kron(v, np.array([1, 1j]) / math.sqrt(2))
        v = v / np.linalg.norm(v)
        if n < 2:
            v = np.array([0.6, 0.8], dtype=complex)
        a = np.concatenate([v.reshape(-1, 1), c02.haar(rng, 2 ** n)[:, : 2 ** m - 1]], axis=1) if m > 0 else v.reshape(-1, 1)
        qq, rr = np.linalg.qr(a)
        return qq * (np.diagonal(rr) / np.abs(np.diagonal(rr)))
    return c02.make_unitary(family, n, seed)[:, : 2 ** m]


# ---------------------------------------------------------------------------------------------------
# add-only instrumentation of qclib.isometry
# ---------------------------------------------------------------------------------------------------

@contextlib.contextmanager
def instrumented(rec):
    import numpy as np
    import qclib.isometry as qi
    names = ("_g_k", "_mc_gate", "_uc_gate", "_unitary", "_orthonormal_eig", "_extend_to_unitary", "_mc_unitary",
             "_uc_unitaries")
    saved = {k: getattr(qi, k) for k in names}

    def g_k(iso, n, k):
        rec.append(("g_k-begin", k, n))
        c = saved["_g_k"](iso, n, k)
        rec.append(("g_k-end", k, n, c))
        return c

    def mc_gate(unitary, n_qubits, control, target, k_bin):
        rec.append(("mc_gate", list(control), target, k_bin))
        return saved["_mc_gate"](unitary, n_qubits, control, target, k_bin)

    def uc_gate(unitaries, n_qubits, control, target):
        rec.append(("uc_gate", list(control), target, len(unitaries)))
        return saved["_uc_gate"](unitaries, n_qubits, control, target)

    def mc_unitary(iso, k, i):
        rec.append(("mc_unitary", k, i))
        return saved["_mc_unitary"](iso, k, i)

    def uc_unitaries(iso, n, k, i):
        rec.append(("uc_unitaries", k, i))
        return saved["_uc_unitaries"](iso, n, k, i)

    def unitary_(iso, basis=0):
        out = saved["_unitary"](iso, basis)
        a, b = (complex(np.asarray(iso[r][0]).reshape(-1)[0]) for r in (0, 1))      # (a np.matrix entry is 1 x 1, not a scalar)
        rec.append(("lemma2", a, b, int(basis), np.array(out, dtype=complex)))
        return out

    def orth_eig(u):
        val, vec = saved["_orthonormal_eig"](u)
        rec.append(("eig", np.array(u), np.array(val), np.array(vec)))
        return val, vec

    def extend(iso, ll, lc):
        u = saved["_extend_to_unitary"](iso, ll, lc)
        rec.append(("extend", np.array(iso), np.array(u)))
        return u

    qi._g_k, qi._mc_gate, qi._uc_gate, qi._unitary = g_k, mc_gate, uc_gate, unitary_
    qi._orthonormal_eig, qi._extend_to_unitary = orth_eig, extend
    qi._mc_unitary, qi._uc_unitaries = mc_unitary, uc_unitaries
    try:
        yield qi
    finally:
        for k, v in saved.items():
            setattr(qi, k, v)


def probe_indices(n, m, k, i):
    """Run the REAL _mc_unitary / _uc_unitaries on a probe matrix whose entry in row r is r+1, with Lemma 2 replaced by a
    recorder: returns (mc idx pair or None, start, [(j, idx1, idx2, basis)], nblocks)."""
    import numpy as np
    import qclib.isometry as qi
    probe = np.array([[r + 1.0 + 0j for _ in range(2 ** m)] for r in range(2 ** n)])
    calls = []
    saved = qi._unitary
    sentinel = np.zeros((2, 2))

    def fake(iso, basis=0):
        calls.append((int(round(iso[0][0].real)) - 1, int(round(iso[1][0].real)) - 1, int(basis)))
        return sentinel
    qi._unitary = fake
    try:
        mc = None
        if qi._k_s(k, i) == 0 and qi._b(k, i + 1) != 0:
            qi._mc_unitary(probe, k, i)
            mc = calls.pop()
        gates = qi._uc_unitaries(probe, n, k, i)
    finally:
        qi._unitary = saved
    start = 0
    while start < len(gates) and gates[start] is not sentinel:
        start += 1
    return mc, start, [(start + d, c[0], c[1], c[2]) for d, c in enumerate(calls)], len(gates)


def ccd_impl_lines(n, m, seed, arg=None):
    """Schedule of the real `_ccd` run on a Haar isometry (or on the given input `arg`, any accepted form), in the driver's
    dump format."""
    import qclib.isometry as qi
    rec = []
    v = make_isometry("haar", n, m, seed) if arg is None else arg
    with instrumented(rec) as q:
        circ = q.decompose(v, "ccd")
    lines = []
    lemma2 = [r for r in rec if r[0] == "lemma2"]
    cur = None
    events = []
    for r in rec:
        if r[0] == "g_k-begin":
            cur, events = r[1], []
        elif r[0] in ("mc_unitary", "mc_gate", "uc_unitaries", "uc_gate"):
            events.append(r)
        elif r[0] == "g_k-end":
            k, gk = r[1], r[3]
            insts = [[gk.find_bit(qb).index for qb in inst.qubits] for inst in gk.data]
            gates = [e for e in events if e[0] in ("mc_gate", "uc_gate")]
            if len(insts) != len(gates):
                lines.append(f"MISMATCH g_k {k}: {len(insts)} instructions for {len(gates)} gate calls ;")
                continue
            i = -1
            for e, ws in zip(gates, insts):
                w = " ".join(str(x) for x in ws)
                if e[0] == "mc_gate":
                    i_mc = n - 1 - e[2]
                    mc, _, _, _ = probe_indices(n, m, k, i_mc)
                    lines.append(f"mcg {k} {i_mc} {mc[0]} {mc[1]} {w} ;" if mc else f"mcg-unscheduled {k} {i_mc} {w} ;")
                else:
                    i = n - 1 - e[2]
                    _, start, pairs, nblocks = probe_indices(n, m, k, i)
                    basis = qi._k_s(k, i)
                    if any(p[3] != basis for p in pairs):
                        lines.append(f"BASIS-MISMATCH {k} {i} ;")
                    lines.append(f"ucg {k} {i} {start} {basis} {nblocks} {w} ;")
                    for (j, i1, i2, _) in pairs:
                        lines.append(f"pair {k} {i} {j} {i1} {i2} ;")
    for inst in circ.data:
        if inst.operation.name.startswith("diagonal"):
            lines.append("diag " + " ".join(str(circ.find_bit(qb).index) for qb in inst.qubits) + " ;")
    return lines, lemma2


def compare(op, impl, model):
    return framework.diff_lines(impl, model, tol=1e-9)


def knill_skeleton(circ, rec, n):
    """(eigenphases handed to the loop, gate skeleton of the returned Knill circuit) in the driver's dump format."""
    import numpy as np
    eig = [r for r in rec if r[0] == "eig"][-1]
    args = [float(x) for x in np.angle(eig[2])]
    lines, group_open = [], False
    for inst in circ.data:
        nm = inst.operation.name
        ws = " ".join(str(circ.find_bit(qb).index) for qb in inst.qubits)
        if nm == "x":
            lines.append(f"x {ws} ;")
        elif nm in ("mcphase", "mcp", "cp", "p"):
            lines.append(f"mcp {ws} ; {float(inst.operation.params[0])!r}")
        else:
            st = np.asarray(inst.operation.params, dtype=complex)
            idx = [i for i in range(2 ** n) if st.shape == eig[3][:, i].shape and np.array_equal(st, eig[3][:, i])]
            tag = idx[0] if idx else "?"
            lines.append(f"prep {tag} ;" if group_open else f"prep_dg {tag} ;")
            group_open = not group_open
    return args, lines


def run_tie(ctx):
    import numpy as np
    import qclib.isometry as qi
    # _a, _b, _k_s exhaustive
    ctx.tie({"op": "abk", "kmax": 64, "imax": 8},
            [f"abk {k} {i} {qi._a(k, i)} {qi._b(k, i)} {qi._k_s(k, i)} ;" for k in range(64) for i in range(8)],
            label="_a/_b/_k_s k<64 i<8")
    nmax = 5
    l2 = []
    for n in range(1, nmax + 1):
        for m in range(0, n + 1):
            seed = ctx.rng.getrandbits(32)
            try:
                lines, lemma2 = ccd_impl_lines(n, m, seed)
            except Exception as e:  # noqa: BLE001  qclib raised on a valid (Haar) isometry
                ctx.fail(f"decompose-raises:ccd:n={n}:m={m}:haar", f"qclib raised on a valid isometry: {type(e).__name__}: {e}",
                         replay_dict(("iso", n, m, "haar", seed, "ccd", False)))
                continue
            ctx.tie({"op": "ccd", "n": n, "m": m}, lines, label=f"ccd schedule n={n} m={m}")
            ctx.count(f"ccd-schedule:n{n}")
            l2.extend(lemma2)
    # Lemma 2 blocks: sampled real calls + edge cases through the real function
    ctx.rng.shuffle(l2)
    sample = l2[:60 if ctx.quick else 300]
    edge = [(0j, 0j, 0), (0j, 0j, 1), (1 + 0j, 0j, 0), (0j, 1 + 0j, 0), (0j, 1j, 1), (3 + 0j, 4j, 1), (-0.6 + 0j, 0.8 + 0j, 0),
            (1e-9 + 0j, 1e-9j, 1)]
    for a, b, basis in edge:
        out = np.array(qi._unitary(np.array([[a], [b]]), basis=basis), dtype=complex)
        sample.append(("lemma2", a, b, basis, out))
    # basis = 0 (valid and falsy) and 1 in every integer form (Python int / bool, numpy.int64 / int32 / bool_), by keyword and
    # positionally; the op carries the canonical int.  decompose / cnot_count themselves have no boolean or falsy-valued option
    # (the falsy shapes m = 0 and n - m = 0 are the 'vector' and 'full unitary' cases of every sweep).
    for fi, (fname, conv) in enumerate((("int", int), ("bool", bool), ("np.int64", np.int64), ("np.int32", np.int32), ("np.bool_", np.bool_))):
        for basis in (0, 1):
            a = complex(ctx.rng.uniform(-1, 1), ctx.rng.uniform(-1, 1))
            b = complex(ctx.rng.uniform(-1, 1), ctx.rng.uniform(-1, 1))
            try:
                arg = np.array([[a], [b]])
                raw = qi._unitary(arg, basis=conv(basis)) if (fi + basis) % 2 else qi._unitary(arg, conv(basis))
                out = np.array(raw, dtype=complex)
            except Exception as e:  # noqa: BLE001  private helper, form not claimed by anything: counted
                ctx.count(f"flagforms:basis:{fname}:unsupported-{type(e).__name__}")
                continue
            sample.append(("lemma2", a, b, basis, out))
            ctx.count(f"flagforms:basis:{fname}")
            ctx.count(f"flagforms:basis:{fname}:{basis}:via {'keyword' if (fi + basis) % 2 else 'positional'}")
    for _, a, b, basis, out in sample:
        flat = [v for z in out.ravel() for v in (float(z.real), float(z.imag))]
        ctx.tie({"op": "lemma2", "are": a.real, "aim": a.imag, "bre": b.real, "bim": b.imag, "basis": basis},
                ["lemma2 ; " + " ".join(repr(x) for x in flat)], label=f"lemma2 a={a} b={b} basis={basis}")
        ctx.count("lemma2-blocks")
    # Knill: retained eigenvalues + gate skeleton
    for n, m, fam in [(2, 1, "haar"), (2, 2, "hadamard"), (3, 1, "haar"), (3, 3, "identity"), (3, 2, "block_equal"),
                      (3, 0, "haar"), (2, 0, "identity"), (3, 3, "diag_pm1"), (4, 2, "tensor_id")]:
        rec = []
        seed = ctx.rng.getrandbits(32)
        v = make_isometry(fam, n, m, seed)
        try:
            with instrumented(rec) as q:
                circ = q.decompose(v, "knill")
        except Exception as e:  # noqa: BLE001
            ctx.fail(f"decompose-raises:knill:n={n}:m={m}:{fam}", f"qclib raised on a valid isometry: {type(e).__name__}: {e}",
                     replay_dict(("iso", n, m, fam, seed, "knill", False)))
            continue
        args, lines = knill_skeleton(circ, rec, n)
        ctx.tie({"op": "knill", "n": n, "args": args}, lines, label=f"knill n={n} m={m} {fam}")
        ctx.count(f"knill-skeleton:kept{sum(1 for x in args if abs(x) > 1e-7)}of{len(args)}")


# ---------------------------------------------------------------------------------------------------
# oracle
# ---------------------------------------------------------------------------------------------------

def job_key(job):
    _, n, m, fam, seed, scheme, as1d = job
    return f"isometry:{scheme}:n={n}:m={m}:{fam}{':1d' if as1d else ''}:{seed & 0xffff:x}"


def default_post(n, m, v):
    """The property's observable: Operator(circuit)[:, :2^m] versus V (inf when the width is not n)."""
    def post(circ):
        import numpy as np
        from qiskit.quantum_info import Operator
        if circ.num_qubits != n:
            return float("inf")
        return float(np.abs(Operator(circ).data[:, : 2 ** m] - v).max())
    return post


def measure(n, m, v, runner, disable_a2=False, post=None):
    """Run `runner(qi)` (a call of the REAL decompose) under the add-only instrumentation of qclib.isometry / qclib.unitary,
    classify an exception (qiskit UCGate kernel or not), evaluate the observable `post(circuit)` and re-check the kernels'
    specifications on the recorded calls.  Shared by the family jobs (run_job) and the input-diversity jobs (run_div)."""
    import numpy as np
    rec, rec2 = [], []
    res = {}
    try:
        with instrumented(rec) as qi, c02.instrumented(rec2, disable_a2):
            circ = runner(qi)
    except Exception as e:  # noqa: BLE001
        import traceback
        res["raised"] = f"{type(e).__name__}: {e}"
        res["raised_type"] = type(e).__name__
        tb = traceback.format_exc()
        res["tb"] = tb[-800:]
        # did qiskit's UCGate synthesis fail on exactly-unitary 2x2 inputs?  (kernel defect, classified narrowly)
        blocks = [r[4] for r in rec if r[0] == "lemma2"]
        in_unit = max([float(np.abs(b @ b.conj().T - np.eye(2)).max()) for b in blocks] or [0.0])
        # ... either inside _dec_ucg, or later when circuit.inverse() re-validates a factor that UCGate's synthesis produced
        # (UnitaryGate.transpose -> "Input matrix is not unitary"): every 2x2 matrix qclib itself hands to qiskit is a
        # Lemma-2 output (recorded, unitary to in_unit), so a rejected matrix can only be one of qiskit's own factors
        in_dec = "generalized_gates/uc.py" in tb and "_dec_ucg" in tb
        in_inv = ("Input matrix is not unitary" in res["raised"] and "generalized_gates/unitary.py" in tb
                  and ("inverse" in tb or "adjoint" in tb))
        res["ucg_kernel_raise"] = bool((in_dec or in_inv) and in_unit <= 1e-12)
        res["raise_site"] = "_dec_ucg" if in_dec else ("inverse" if in_inv else "other")
        res["lemma2_unitarity"] = in_unit
        return res, rec, None
    res["width"] = circ.num_qubits
    res["err"] = (post or default_post(n, m, v))(circ)
    schur = ext = l2 = 0.0
    for r in rec:
        if r[0] == "eig":
            _, u, val, vec = r
            k = len(val)
            schur = max(schur, float(np.abs(vec.conj().T @ vec - np.eye(k)).max()),
                        float(np.abs(u @ vec - vec * val).max()), float(np.abs(np.abs(val) - 1).max()))
        elif r[0] == "extend":
            _, iso, u = r
            k = u.shape[0]
            ext = max(ext, float(np.abs(u.conj().T @ u - np.eye(k)).max()),
                      float(np.abs(u[:, : iso.shape[1]] - iso).max()))
        elif r[0] == "lemma2":
            _, a, b, basis, out = r
            nrm = math.hypot(abs(a), abs(b))      # no underflow of the squares (amplitudes ~1e-162 are generated)
            l2 = max(l2, float(np.abs(out @ out.conj().T - np.eye(2)).max()))
            if nrm > 0:
                e = np.zeros(2)
                e[basis] = 1
                l2 = max(l2, float(np.abs(out @ np.array([a, b]) / nrm - e).max()))
    res["schur_err"], res["ext_err"], res["lemma2_err"] = schur, ext, l2
    res["cs_err"], res["eig_err"] = c02.kernel_spec_errors(rec2)
    res["a2_raised"] = any(r[0] == "a2-raised" for r in rec2)
    res["n_kernel"] = sum(1 for r in rec if r[0] in ("eig", "extend", "lemma2")) + len(rec2)
    res["gk_count"] = sum(1 for r in rec if r[0] == "g_k-begin")
    return res, rec, circ


def run_job(job, disable_a2=False):
    sys.setrecursionlimit(10000)
    try:
        _, n, m, fam, seed, scheme, as1d = job
        v = make_isometry(fam, n, m, seed)
        arg = v[:, 0].copy() if as1d else v.copy()
        res, _, _ = measure(n, m, v, lambda qi: qi.decompose(arg, scheme), disable_a2)
        res["job"] = list(job)
        return res
    except Exception:  # noqa: BLE001
        import traceback
        return {"harness_exc": traceback.format_exc()[-1500:], "job": list(job)}


def job_weight(job):
    if job[0] == "div":
        return 4 ** job[1]["n"] * {"ccd": 6, "knill": 3, "csd": 1}[job[1]["scheme"]]
    return 4 ** job[1] * {"ccd": 6, "knill": 3, "csd": 1}[job[5]]


def run_any(job):
    return run_div(job) if job[0] == "div" else run_job(job)


def run_jobs(jobs):
    if not jobs:
        return []
    import multiprocessing as mp
    from concurrent.futures import ProcessPoolExecutor
    workers = max(1, min(14, (os.cpu_count() or 2) - 1, len(jobs)))
    if workers == 1 or len(jobs) < 4:
        return [run_any(j) for j in jobs]
    for k in ("OMP_NUM_THREADS", "OPENBLAS_NUM_THREADS", "RAYON_NUM_THREADS", "MKL_NUM_THREADS"):
        os.environ[k] = "1"
    order = sorted(range(len(jobs)), key=lambda i: -job_weight(jobs[i]))
    with ProcessPoolExecutor(max_workers=workers, mp_context=mp.get_context("spawn")) as ex:
        res = list(ex.map(run_any, [jobs[i] for i in order], chunksize=1))
    out = [None] * len(jobs)
    for i, r in zip(order, res):
        out[i] = r
    return out


def replay_dict(job, extra=None):
    _, n, m, fam, seed, scheme, as1d = job
    d = {"call": "qclib.isometry.decompose(V, scheme)", "n": n, "m": m, "family": fam, "seed": seed, "scheme": scheme,
         "as_1d_vector": as1d,
         "how": "V = tools/props/c03.py::make_isometry(family, n, m, seed); compare Operator(circuit)[:, :2^m] with V"}
    if n <= 2:
        d["V"] = [[[float(z.real), float(z.imag)] for z in row] for row in make_isometry(fam, n, m, seed)]
    d.update(extra or {})
    return d


def judge(ctx, job, res):
    _, n, m, fam, seed, scheme, as1d = job
    if res is None or "harness_exc" in res:
        raise RuntimeError("harness exception in oracle job %r: %s" % (job, (res or {}).get("harness_exc")))
    judge_core(ctx, n, m, fam, scheme, as1d, job_key(job), res, lambda: run_job(job, disable_a2=True),
               lambda extra=None: replay_dict(job, extra))


def judge_core(ctx, n, m, fam, scheme, as1d, key, res, rerun_no_a2, rep, tol=TOL, rerun_no_merge=None, sample=None,
               spec_tol=1e-8):
    """Classification of one evaluated decompose() call - the same for the family jobs and the input-diversity jobs:
    qiskit-UCGate kernel raise / other raise / kernel specifications / width / A.2 precision (re-run with the pass disabled) /
    np.allclose merge of UCGate._simplify (probe family, or - diversity jobs - re-run with the merge disabled) / plain error.
    `rep(extra)` builds the replay payload, `tol` is the operator tolerance (1e-7; 1e-5 for inexact float32 / complex64 inputs, whose kernel
    specifications are re-checked at `spec_tol` = 1e-5 too: the value handed in is orthonormal to ~1e-7 only)."""
    ctx.count(f"oracle:{scheme}")
    if "raised" in res and res.get("ucg_kernel_raise"):
        site = ("(_dec_ucg) raised" if res.get("raise_site") != "inverse" else
                "produced a factor that qiskit's own UnitaryGate rejects when the circuit is inverted,")
        ctx.fail(f"decompose-ucgate-kernel-raises:{scheme}:n={n}:m={m}:{fam}{':1d' if as1d else ''}",
                 f"qiskit's UCGate synthesis {site} on 2x2 blocks that are unitary to "
                 f"{res['lemma2_unitarity']:.1e}: " + res["raised"], rep({"traceback": res.get("tb")}))
        return
    if "raised" in res and fam == "subnormal_pair":
        ctx.fail(f"decompose-subnormal-pair:{scheme}:n={n}:m={m}", "qclib raised on a valid state vector with a pair of amplitudes "
                 "(4e-162, 2e-162) whose squares are subnormal (Lemma 2 normalises by a norm that is off by several percent): "
                 + res["raised"], rep({"traceback": res.get("tb")}))
        return
    if "raised" in res:
        ctx.fail(f"decompose-raises:{scheme}:n={n}:m={m}:{fam}{':1d' if as1d else ''}",
                 "qclib raised on a valid isometry: " + res["raised"], rep({"traceback": res.get("tb")}))
        return
    ctx.assumption_checks += res["n_kernel"]
    if res["schur_err"] > spec_tol:
        ctx.fail(f"assumption:schur-orthonormal:n={n}:m={m}:{fam}",
                 f"_orthonormal_eig: eigenvectors not orthonormal / not eigenvectors / |lambda| != 1 by {res['schur_err']:.2e} "
                 "(the hypothesis of C03_knill)", rep(), kind="assumption")
    if res["ext_err"] > spec_tol:
        ctx.fail(f"assumption:extend-unitary:n={n}:m={m}:{fam}",
                 f"_extend_to_unitary: [V | conj(null(V^T))] not unitary or does not start with V, by {res['ext_err']:.2e}",
                 rep(), kind="assumption")
    if res["lemma2_err"] > spec_tol:
        ctx.fail(f"assumption:lemma2:n={n}:m={m}:{fam}", f"_unitary not unitary / does not map to e_basis by {res['lemma2_err']:.2e}",
                 rep(), kind="assumption")
    if res["cs_err"] > spec_tol or res["eig_err"] > max(1e-6, spec_tol):
        ctx.fail(f"assumption:unitary-kernels:n={n}:m={m}:{fam}", f"cossin {res['cs_err']:.2e} demux {res['eig_err']:.2e}",
                 rep(), kind="assumption")
    if res["a2_raised"]:
        ctx.count("a2-fallback-taken")
    if res["width"] != n:
        ctx.fail(f"isometry-width:{scheme}:n={n}:m={m}", f"circuit has {res['width']} qubits", rep())
    elif res["err"] > tol and res["err"] <= 1e-4 and rerun_no_a2().get("err", 1.0) <= tol:
        defer_fail(ctx, f"isometry-a2-precision:{scheme}:n={n}:m={m}:{fam}",
                 f"precision loss caused by qiskit's A.2 two-qubit re-synthesis inside qclib.unitary.unitary(apply_a2=True): "
                 f"max |Operator[:, :2^m] - V| = {res['err']:.3e}; <= {tol:g} with the pass disabled",
                 rep({"observed_err": res["err"]}))
    elif res["err"] > tol and fam == ALLCLOSE_PROBE_FAMILY and scheme == "ccd" and res["err"] <= 1e-5:
        ctx.count("allclose-merge")
        ctx.fail(f"isometry-allclose-merge:{scheme}:n={n}:m={m}:delta=3e-6",
                 f"max |Operator(circuit)[:, :2^m] - V| = {res['err']:.3e}: two sibling multiplexer blocks 3e-6 apart are merged by "
                 "np.allclose (rtol 1e-5) in qiskit's UCGate._simplify; 3e-5 apart (family allclose@3e-05) the result is exact",
                 rep({"observed_err": res["err"]}))
    elif (res["err"] > tol and res["err"] <= 1e-4 and scheme == "ccd" and rerun_no_merge is not None
          and rerun_no_merge().get("err", 1.0) <= tol):
        ctx.count("allclose-merge")
        defer_fail(ctx, f"isometry-allclose-merge:{scheme}:n={n}:m={m}:{fam}",
                   f"max |Operator(circuit)[:, :2^m] - V| = {res['err']:.3e}: sibling multiplexer blocks within np.allclose (rtol 1e-5) "
                   f"of each other are merged by qiskit's UCGate._simplify; <= {tol:g} with the merge disabled",
                   rep({"observed_err": res["err"]}))
    elif res["err"] > tol:
        ctx.fail(key, f"max |Operator(circuit)[:, :2^m] - V| = {res['err']:.3e}", rep({"observed_err": res["err"]}))
    else:
        ctx.ok(key, nontrivial=n >= 2, sample=sample or {"n": n, "m": m, "family": fam, "scheme": scheme, "err": res["err"]})


def oracle_jobs(ctx, nmax, reps):
    jobs = []
    for n in range(1, nmax + 1):
        for m in range(0, n + 1):
            for fam in FAMILIES:
                rr = reps if fam in ("haar", "real_orthogonal", "tensor", "block_equal", "block_diff", "permutation",
                                     "identity_columns", "real_signed", "tensor_id") and n <= 4 else 1
                if n >= 6 and fam not in ("haar", "hadamard", "identity", "block_equal", "permutation", "tensor_id", "qft"):
                    continue
                for _ in range(rr):
                    seed = ctx.rng.getrandbits(32)
                    for scheme in ("ccd", "csd", "knill"):
                        if scheme == "knill" and n < 2:
                            continue
                        jobs.append(("iso", n, m, fam, seed, scheme, False))
                        if m == 0 and fam in ("haar", "real_signed", "identity"):
                            jobs.append(("iso", n, m, fam, seed, scheme, True))
    return jobs


ALLCLOSE_PROBE_FAMILY = "allclose@3e-06"


def boundary_jobs(ctx):
    """Inputs next to the float thresholds of isometry.py / unitary.py / ucr.py and of the qiskit kernels they call (the size
    and index boundaries - every (n, m) with m = 0, 1, n-1, n, n = 1 without controls, Knill from n = 2, 1-D vectors - are AT and
    one off in oracle_jobs already; _k_s/_b conditions are tied for every (k, i))."""
    jobs = []

    def seed():
        return ctx.rng.getrandbits(32)

    # Knill: `abs(arg[i]) > 1e-7` - an eigenphase a factor 3 below (term skipped: error 3e-8), 3 above, and at 1e-6
    for n in (2, 3):
        for phi in (3e-8, 3e-7, 1e-6):
            sd = seed()
            for scheme in ("knill", "csd", "ccd"):
                jobs.append(("iso", n, n, f"eigphase@{phi:g}", sd, scheme, False))
            ctx.count(f"boundary:knill-eigenphase-vs-1e-7:{phi:g}")
    # Lemma 2: `iso_norm != 0.0` - sibling rows tiny but not zero
    for n in (2, 3):
        for e in (1e-12, 3e-9):
            for m in range(0, n + 1):
                sd = seed()
                for scheme in ("ccd", "csd", "knill"):
                    jobs.append(("iso", n, m, f"tiny_rows@{e:g}", sd, scheme, False))
            ctx.count(f"boundary:lemma2-pair-tiny-nonzero:{e:g}")
    # fixed input on which qiskit's UCGate synthesis yields a factor it rejects itself (rows of magnitude 1e-17)
    jobs.append(("iso", 3, 2, "tiny_rows@3e-09", 7, "ccd", False))
    # a pair with subnormal squares (fixed literals; the key is decompose-subnormal-pair:* when the code raises)
    for n in (2, 3):
        for scheme in ("ccd", "csd", "knill"):
            jobs.append(("iso", n, 0, "subnormal_pair", 0, scheme, False))
        ctx.count("boundary:lemma2-pair-with-subnormal-squares")
    # sibling multiplexer blocks next to the np.allclose merge of UCGate._simplify (ccd): negligible / probe / outside
    for n in (2, 3):
        for delta in (3e-9, 3e-5):
            for m in (0, 1):
                jobs.append(("iso", n, m, f"allclose@{delta:g}", seed(), "ccd", False))
            ctx.count(f"boundary:allclose-rtol:{delta:g}")
        jobs.append(("iso", n, 0, ALLCLOSE_PROBE_FAMILY, seed(), "ccd", False))
        ctx.count("boundary:allclose-rtol:3e-06(finding-probe)")
    # csd scheme = unitary 'qsd' in isometry mode: eigenvalue cluster of the demultiplexing step, ucr angle cut
    for fam in ("block_near_equal@1e-09", "block_near_equal@1e-07", "block_near_equal@1e-05", "cs_tiny@3e-09", "cs_tiny@3e-08",
                "cs_tiny@1e-06"):
        sd = seed()
        for m in (2, 3):
            jobs.append(("iso", 3, m, fam, sd, "csd", False))
        ctx.count("boundary:csd:" + fam)
    return jobs


def probe_fixed(ctx):
    """The inputs of the fixed findings F-C03-1 / F-C03-2 and of the known findings (A.2 precision:
    decompose(H^{(x)4}[:, :8], 'knill'); qiskit UCGate synthesis raising: decompose(H^{(x)6}, 'ccd')), on every run."""
    jobs = [("iso", 2, 2, "hadamard", 0, "knill", False), ("iso", 3, 1, "hadamard", 0, "csd", False),
            ("iso", 3, 3, "hadamard", 0, "knill", False), ("iso", 4, 2, "hadamard", 0, "csd", False),
            ("iso", 4, 3, "hadamard", 0, "knill", False), ("iso", 6, 6, "hadamard", 0, "ccd", False)]
    for job in jobs:
        judge(ctx, job, run_job(job))
    # fix 9d45b9d: the estimate accepts a 1-D state vector for every scheme
    import numpy as np
    import qclib.isometry as qi
    v = make_isometry("haar", 3, 0, 5)[:, 0]
    for scheme in ("ccd", "csd", "knill"):
        key = f"cnot_count-1d-vector:{scheme}"
        try:
            c = qi.cnot_count(v, scheme, "estimate")
            ctx.ok(key, nontrivial=False) if c >= 0 else ctx.fail(key, f"negative count {c}")
        except Exception as e:  # noqa: BLE001
            ctx.fail(key, f"cnot_count(vector_1d, {scheme!r}, 'estimate') raised {type(e).__name__}: {e}",
                     {"call": f"qclib.isometry.cnot_count(v8, {scheme!r}, 'estimate')"})
    # validation: invalid shapes are rejected (C16 owns the full list; here only what decompose's own check covers)
    for name, m in (("non-orthonormal", np.ones((4, 2)) / 2.0), ("wide", np.eye(2)[:1, :]), ("3-rows", np.eye(3)[:, :2]),
                    ("3-columns", np.eye(4)[:, :3])):
        key = f"decompose-accepts-invalid:{name}"
        try:
            qi.decompose(np.asarray(m, dtype=complex), "ccd")
        except ValueError:
            ctx.ok(key, nontrivial=False)
        except Exception as e:  # noqa: BLE001
            ctx.fail(key, f"raised {type(e).__name__} instead of ValueError: {e}", {"call": f"decompose({name})"})
        else:
            ctx.fail(key, "decompose() returned a circuit for an invalid matrix", {"call": f"decompose({name})"})


# ---------------------------------------------------------------------------------------------------
# branch coverage of the anchored sources (tools/branch_audit.py C03)
# ---------------------------------------------------------------------------------------------------

UNREACHED_JUSTIFIED = {
    "qclib/isometry.py:341-353,_cnot_count_estimate*:411->398,430-433,440-441": "cnot_count and its estimates: property C10 (C03 only probes that the estimate accepts a 1-D vector, fix 9d45b9d)",
    "qclib/unitary.py:40-47": "validation raises of unitary(): the matrix handed over by _csd is the unitary extension (checked per call: assumption:extend-unitary); rejection is property C16",
    "qclib/unitary.py:50->59": "apply_a2=False / decomposition != 'qsd': isometry._csd always calls unitary(.., 'qsd', iso, apply_a2=True); property C02",
    "qclib/unitary.py:104-105,115-122,_csd,_multiplexed_csd,_qrd,_build_qr_*,_get_row_col,_row_and_col_qubits,_apply_mcxs,_apply_cx,_undo_mcxs,_append_mcmt_gate": "decompositions 'csd' and 'qr' of qclib.unitary are never selected by qclib.isometry (scheme 'csd' of the isometry IS unitary's 'qsd' in isometry mode); property C02",
    "qclib/unitary.py:225-296": "cnot_count of qclib.unitary: property C10",
}


def probe_call_forms(ctx):
    """decompose() called without `scheme` (documented default 'ccd'), with keyword arguments, with integer / real dtypes
    (`isometry.astype(complex)`), and the documented rejection of Knill on one qubit."""
    import numpy as np
    import qclib.isometry as qi
    from qiskit.quantum_info import Operator
    cases = []
    for n in (1, 2, 3):
        for m in range(0, n + 1):
            seed = ctx.rng.getrandbits(32)
            fam = ctx.rng.choice(["haar", "real_signed", "hadamard", "identity_columns"])
            v = make_isometry(fam, n, m, seed)
            cases.append((n, m, fam, seed, "default-scheme", "ccd", lambda q, v=v: q.decompose(v.copy())))
            sch = ctx.rng.choice(["ccd", "csd"] + (["knill"] if n >= 2 else []))
            cases.append((n, m, fam, seed, "keywords", sch, lambda q, v=v, sch=sch: q.decompose(isometry=v.copy(), scheme=sch)))
            seed2 = ctx.rng.getrandbits(32)
            rng = np.random.default_rng(seed2)
            vi = np.eye(2 ** n, dtype=int)[:, rng.permutation(2 ** n)[: 2 ** m]] * rng.choice([1, -1], 2 ** m)
            sch2 = ctx.rng.choice(["ccd", "csd"] + (["knill"] if n >= 2 else []))
            cases.append((n, m, "int-dtype-columns", seed2, "int-dtype", sch2, (lambda q, vi=vi, sch2=sch2: q.decompose(vi.copy(), sch2)), vi))
    for case in cases:
        n, m, fam, seed, form, scheme, call = case[:7]
        v = case[7] if len(case) > 7 else make_isometry(fam, n, m, seed)
        key = f"isometry-form:{form}:{scheme}:n={n}:m={m}:{fam}"
        rep = {"call": f"qclib.isometry.decompose, form {form!r}", "n": n, "m": m, "family": fam, "seed": seed, "scheme": scheme,
               "form": form, "how": "see tools/props/c03.py::probe_call_forms"}
        ctx.count(f"branch:call-form:{form}")
        rec = []
        try:
            with instrumented(rec) as q:
                circ = call(q)
        except Exception as e:  # noqa: BLE001
            ctx.fail(f"decompose-raises:{scheme}:{form}:n={n}:m={m}", f"qclib raised on a valid isometry ({fam}): {type(e).__name__}: {e}", rep)
            continue
        err = float(np.abs(Operator(circ).data[:, : 2 ** m] - np.asarray(v).reshape(2 ** n, -1)).max()) if circ.num_qubits == n else float("inf")
        if form == "default-scheme" and sum(1 for r in rec if r[0] == "g_k-begin") != 2 ** m:
            ctx.fail(key + ":scheme", "decompose(V) without `scheme` did not run the column-by-column sweep (documented default 'ccd')", rep)
        elif err > TOL:
            ctx.fail(key, f"max |Operator(circuit)[:, :2^m] - V| = {err:.3e}", rep)
        else:
            ctx.ok(key, nontrivial=n >= 2, sample={"n": n, "m": m, "family": fam, "scheme": scheme, "form": form, "err": err})
    # Knill on one qubit is rejected by design (docstring: n >= 2; explicit ValueError at isometry.py:104-105)
    for m in (0, 1):
        key = f"decompose-knill-one-qubit-rejected:m={m}"
        ctx.count("branch:knill-n=1-rejected")
        try:
            qi.decompose(make_isometry("haar", 1, m, 3), "knill")
        except ValueError:
            ctx.ok(key, nontrivial=False)
        except Exception as e:  # noqa: BLE001
            ctx.fail(key, f"raised {type(e).__name__} instead of the documented ValueError: {e}", {"call": "decompose(2 x %d, 'knill')" % 2 ** m})
        else:
            ctx.fail(key, "decompose(.., 'knill') on one qubit returned a circuit (the code documents a ValueError)",
                     {"call": "decompose(2 x %d, 'knill')" % 2 ** m})
    ctx.notes.append("decompose() needs an ndarray (first statement `isometry.astype(complex)`; annotation np.ndarray although the "
                     "docstring says 'isometry (list)'): a nested list raises AttributeError - treated as outside the domain")


# ---------------------------------------------------------------------------------------------------
# input-diversity pass: the FORM of otherwise ordinary inputs (element type / memory layout / scale / phase / call form / size)
# ---------------------------------------------------------------------------------------------------
#
# One public entry point: decompose(isometry, scheme='ccd'), scheme in {ccd, csd, knill} (cnot_count: property C10).
# Every job below is ("div", spec) with a JSON-able spec {name, n, m, seed, etype, layout, call, scheme, V}; run_div() rebuilds
# the input from V + the tags (div_arg), calls the REAL decompose in the form `call` (div_runner), evaluates the property's
# observable (k-th basis state of the m low-order qubits -> k-th column, exactly incl. phase) through measure(), and
# judge_div() classifies through judge_core() - the SAME classification as the family jobs (qiskit-UCGate kernel raise ->
# decompose-ucgate-kernel-raises:*, A.2 precision -> isometry-a2-precision:*, np.allclose merge -> isometry-allclose-merge:*).
#
#   form (family of /tmp/diversity_prompt.txt)                         x scheme        -> where generated
#   1 int64 / float64 / complex128-zero-imag / negative zeros          ccd csd knill     diversity_jobs: E1 (pm1_monomial, basis@k,
#     (ints: basis states, identity / permutation columns, +-1 diag)                      id_cols; every shape n<=3, (4,1), (4,3))
#   1 float64 REAL dtype: real orthogonal, H(x)H +-0.5, -H, real        ccd csd knill     E2 (real_haar, hadamard_pm_half,
#     rotations, all-negative real state (in-place sweep on a copy)                       neg_hadamard, real_rot, real_neg_state)
#   1 float32 / complex64: exactly representable (tol 1e-7, must not    ccd csd knill     E1/E2 (pm1/pmi monomials, +-0.5) exact;
#     raise) and inexact (documented ValueError or correct to 1e-5)                       E3 (haar c64, real_haar f32) inexact
#   1 Python list / tuple / list of numpy scalars / nested ints /       ccd csd knill     E1, E4: NOT accepted by the unchanged code
#     Python complex; np.matrix; (1, 2^n) row vector                                      (`isometry.astype`): counted unsupported-
#                                                                                         form-raises-*; evaluated if a circuit comes back
#   2 heavy head + light tail (start / end / mixed, 1e-3 .. 1e-6),      ccd csd knill     S (light_tail@*, equal_moduli*, repeated_
#     equal moduli, repeated values, single amplitude 1 (also LAST),                      values, single_one@*, sparse_pairs,
#     sparse, one sub-tree only, disjoint supports, repeated eigenvalues                  upper/lower_half_zero, disjoint_support,
#                                                                                         repeated_eig@*)
#   3 all-negative real, purely imaginary, global phase -1 / i / -i,    ccd csd knill     P (real_neg_state, pure_imag, gphase@*,
#     per-entry phases +-1 +-i, first entry negative real, -0.0                           entry_phases, first_neg, *-negzero etypes)
#   4 scheme positional / keyword / default; 1-D vs (2^n, 1); twice;    ccd csd knill     C (call = pos kw default twice inverse host-*;
#     .inverse(); to_gate / to_instruction / compose on a permuted                        layout = C F T-view slice-view offset-view
#     non-contiguous qubit list of a larger host (ints / Qubit objects);                  readonly 1d 1d-strided 1d-readonly col)
#     C / Fortran / transposed view / slice view / read-only memory;
#     caller's array (and the base of a view) bit-identical afterwards
#   5 n = 1 (2x1, 2x2), n = 2 (4x1, 4x2, 4x4) for every scheme and      ccd csd (knill    every block runs over SHAPES; Z: every data
#     form; n = 3, m = 0..3; n = 4, m in {1, 3} once per data family    from n = 2)       family once at (4,1) / (4,3)
# Tie (diversity_tie): the Lean driver models the (n, m) schedule, Lemma 2 and Knill's retained-eigenvalue skeleton; the
# converted inputs (int / real dtype, views, sparse, repeated eigenvalues) go through the existing builders (`ccd`, `lemma2`,
# `knill` ops).  Element type, memory layout, call form and host placement are outside the model: oracle only.
# Thresholds kept clear: light tails >= 1e-6 (UCGate._simplify merges blocks within rtol 1e-5 - heavy amplitudes are placed so
# that no two sibling 2x2 blocks are near-equal; a case that hits the merge anyway is classified by re-running with the merge
# disabled), `iso_norm != 0.0` is exact (zeros generated are exact zeros), Knill's 1e-7 eigenphase cut: a skipped phase < 1e-7
# costs < 1e-7.

DIV_SHAPES = [(1, 0), (1, 1), (2, 0), (2, 1), (2, 2), (3, 0), (3, 1), (3, 2), (3, 3)]
DIV_SHAPES4 = [(4, 1), (4, 3)]
DIV_LIST_ETYPES = ("pylist", "pylist-int", "pylist-float", "pytuple", "list-npscalars")
DIV_REDUCED = ("f32", "c64")


def div_data(name, n, m, seed):
    """complex128 reference isometry (2^n x 2^m) of the data family `name`."""
    import numpy as np
    rng = np.random.default_rng([int(seed) & 0xffffffff, n, m, 0xd1f])
    dim, cols = 2 ** n, 2 ** m
    base, _, par = name.partition("@")

    def complete(first, real=False):
        """isometry whose first column is exactly `first`, the others generic (QR completion)."""
        first = np.asarray(first, dtype=float if real else complex)
        first = first / np.linalg.norm(first)
        if cols == 1:
            return first.reshape(-1, 1).astype(complex)
        g = rng.standard_normal((dim, cols - 1))
        if not real:
            g = g + 1j * rng.standard_normal((dim, cols - 1))
        q, r = np.linalg.qr(np.concatenate([first.reshape(-1, 1), g], axis=1))
        d = np.diagonal(r)
        q = q * (d / np.abs(d))
        q[:, 0] = first
        return q.astype(complex)

    def hadamard(k):
        h = np.array([[1.0, 1.0], [1.0, -1.0]])
        out = np.ones((1, 1))
        for _ in range(k):
            out = np.kron(out, h)
        return out

    def id_cols():
        return np.eye(dim, dtype=complex)[:, rng.permutation(dim)[:cols]]

    def pick(values, size, need):
        """random choice from `values` in which at least one entry lies in `need`."""
        out = rng.choice(np.array(values), size)
        if not any(x in need for x in out):
            out[int(rng.integers(size))] = need[0]
        return out

    if base == "basis":
        k = {"0": 0, "1": 1, "last": dim - 1, "mid": dim // 2}[par]
        v = np.zeros((dim, 1), dtype=complex)
        v[k, 0] = 1
        return v
    if base == "id_cols":
        return id_cols()
    if base == "pm1_monomial":
        return id_cols() * pick([1, -1], cols, [-1])
    if base == "pmi_monomial":
        return id_cols() * pick([1, -1, 1j, -1j], cols, [1j, -1j])
    if base == "phase_monomial":
        return id_cols() * np.exp(1j * rng.uniform(0.3, 6.0, cols))
    if base in ("hadamard_pm_half", "neg_hadamard"):
        if base == "neg_hadamard":
            u = -hadamard(n) / math.sqrt(dim)
        elif n % 2 == 0:
            u = hadamard(n) / 2 ** (n // 2)                     # entries +-0.5, +-0.25: exact in float32
        elif rng.integers(2):
            u = np.kron(hadamard(n - 1) / 2 ** (n // 2), np.eye(2))
        else:
            u = np.kron(np.eye(2), hadamard(n - 1) / 2 ** (n // 2))
        return u[:, :cols].astype(complex)
    if base == "real_rot":
        u = np.ones((1, 1))
        for _ in range(n):
            c, s_ = [(0.6, 0.8), (0.8, -0.6), (-0.6, 0.8), (0.0, 1.0), (-0.8, -0.6)][int(rng.integers(5))]
            u = np.kron(u, np.array([[c, -s_], [s_, c]]))
        return u[:, :cols].astype(complex)
    if base == "real_haar":
        return c02.haar_real(rng, dim)[:, :cols].astype(complex)
    if base == "haar":
        return c02.haar(rng, dim)[:, :cols]
    if base == "real_neg_state":
        return complete(-rng.uniform(0.2, 1.0, dim), real=True)
    if base in ("light_tail", "light_tail_real"):
        pos, eps = par.split("@")
        eps = float(eps)
        real = base == "light_tail_real"
        tail = rng.uniform(1.0, 3.0, dim) * (rng.choice([-1.0, 1.0], dim) if real else np.exp(1j * rng.uniform(0, 2 * np.pi, dim)))
        first = eps * tail
        heavy = {"start": [0, 1], "end": [dim - 2, dim - 1], "mixed": [0, dim - 1]}[pos] if dim > 2 else \
            {"start": [0], "end": [1], "mixed": [0]}[pos]
        amp = [0.6, -0.8] if real else [0.6 * np.exp(0.7j), 0.8 * np.exp(-2.1j)]
        for j, a in zip(heavy, amp):
            first[j] = a
        return complete(first, real=real)
    if base == "equal_moduli":
        return complete(np.exp(1j * rng.uniform(0, 2 * np.pi, dim)))
    if base == "equal_moduli_pm1i":
        p, q = pick([1, -1, 1j, -1j], dim, [1j, -1j]), pick([1, -1, 1j, -1j], dim, [-1])
        return ((p.reshape(-1, 1) * hadamard(n) * q.reshape(1, -1)) / math.sqrt(dim))[:, :cols]
    if base == "repeated_values":
        a, b = 0.6 * np.exp(0.4j), -0.35 + 0.2j
        pat = [a, a, b, b] if rng.integers(2) else [a, b, a, b]
        return complete(np.array([pat[j % 4] for j in range(dim)]))
    if base == "single_one":
        k = {"0": 0, "last": dim - 1, "mid": dim // 2}[par]
        if cols == 1:
            v = np.zeros((dim, 1), dtype=complex)
            v[k, 0] = np.exp(1j * rng.uniform(0.3, 6.0))
            return v
        perm = [k] + [r for r in rng.permutation(dim) if r != k]
        return np.eye(dim, dtype=complex)[:, perm[:cols]] * np.exp(1j * rng.uniform(0.3, 6.0, cols))
    if base == "sparse_pairs":
        # direct sum of 2x2 Haar blocks with permuted rows: every column has two non-zeros, supports pairwise disjoint or equal
        if n == 1:
            return c02.haar(rng, 2)[:, :cols]
        u = np.zeros((dim, dim), dtype=complex)
        for j in range(dim // 2):
            u[2 * j: 2 * j + 2, 2 * j: 2 * j + 2] = c02.haar(rng, 2)
        order = list(range(0, dim, 2)) + list(range(1, dim, 2)) if m < n else list(range(dim))
        return u[rng.permutation(dim)][:, order[:cols]]
    if base in ("upper_half_zero", "lower_half_zero"):
        h = dim // 2
        v = np.zeros((dim, cols), dtype=complex)
        if m < n:
            lo, hi = (h, dim) if base == "upper_half_zero" else (0, h)
            v[lo:hi, :] = c02.haar(rng, h)[:, :cols]
            return v
        a, b = c02.haar(rng, h), c02.haar(rng, h)
        if base == "upper_half_zero":              # each column lives in one half: anti-block-diagonal / block-diagonal
            v[h:, :h], v[:h, h:] = a, b
        else:
            v[:h, :h], v[h:, h:] = a, b
        return v
    if base == "disjoint_support":
        sigma = rng.permutation(cols)
        v = np.zeros((dim, cols), dtype=complex)
        for c in range(cols):
            rows = [r for r in range(dim) if r % cols == sigma[c]]
            x = rng.standard_normal(len(rows)) + 1j * rng.standard_normal(len(rows))
            v[rows, c] = x / np.linalg.norm(x)
        return v
    if base == "repeated_eig":
        w = c02.haar(rng, dim)
        al, be = rng.uniform(0.5, 2.5), -rng.uniform(0.5, 2.5)
        lam = {"pairs": [np.exp(1j * al)] * (dim // 2) + [np.exp(1j * be)] * (dim - dim // 2),
               "ones": [1.0] * (dim // 2) + [-1.0] * (dim - dim // 2),
               "all_same": [np.exp(1j * al)] * dim}[par]
        return ((w * np.array(lam)) @ w.conj().T)[:, :cols]
    if base == "pure_imag":
        return 1j * c02.haar_real(rng, dim)[:, :cols]
    if base == "gphase":
        ph, inner = par.split("@")
        return {"-1": -1.0, "i": 1j, "-i": -1j}[ph] * div_data(inner, n, m, seed)
    if base == "entry_phases":
        p = pick([1, -1, 1j, -1j], dim, [1j, -1j])
        return p.reshape(-1, 1) * c02.haar_real(rng, dim)[:, :cols]
    if base == "first_neg":
        v = c02.haar(rng, dim)[:, :cols]
        v = v * (-np.conj(v[0, 0]) / abs(v[0, 0]))
        v[0, 0] = -abs(v[0, 0])
        return v
    raise ValueError(name)


def div_castable(v, etype):
    """Is the reference `v` a valid value of the element type?"""
    import numpy as np
    if etype in ("f64", "f64-negzero", "f32", "pylist-float"):
        return bool(np.all(v.imag == 0))
    if etype in ("i64", "pylist-int"):
        return bool(np.all(v.imag == 0) and np.all(v.real == np.rint(v.real)))
    return True


def div_arg(v, etype, layout):
    """(argument handed to decompose, array whose bytes must be unchanged afterwards or None, complex128 reference of what
    was handed in)."""
    import numpy as np
    v = np.array(v, dtype=complex)
    one_d = layout.startswith("1d")
    x = v[:, 0] if one_d else (v.T if layout == "row" else v)

    def negzero(a):
        a = a.copy()
        if np.iscomplexobj(a):
            re, im = a.real.copy(), a.imag.copy()
            re[re == 0] = -0.0
            im[im == 0] = -0.0
            out = np.empty_like(a)
            out.real, out.imag = re, im          # (re + 1j * im would turn the negative zeros positive again)
            return out
        a[a == 0] = -0.0
        return a

    if etype in DIV_LIST_ETYPES:
        if etype == "pylist":
            arg = [complex(z) for z in x] if one_d else [[complex(z) for z in row] for row in x]
        elif etype == "pylist-int":
            arg = [int(round(z.real)) for z in x] if one_d else [[int(round(z.real)) for z in row] for row in x]
        elif etype == "pylist-float":
            arg = [float(z.real) for z in x] if one_d else [[float(z.real) for z in row] for row in x]
        elif etype == "pytuple":
            arg = tuple(complex(z) for z in x) if one_d else tuple(tuple(complex(z) for z in row) for row in x)
        else:
            arg = [np.complex128(z) for z in x] if one_d else [[np.complex128(z) for z in row] for row in x]
        return arg, None, v
    a = {"c128": lambda: x.astype(np.complex128), "c128-negzero": lambda: negzero(x.astype(np.complex128)),
         "f64": lambda: x.real.astype(np.float64), "f64-negzero": lambda: negzero(x.real.astype(np.float64)),
         "i64": lambda: np.rint(x.real).astype(np.int64), "f32": lambda: x.real.astype(np.float32),
         "c64": lambda: x.astype(np.complex64), "matrix": lambda: x.astype(np.complex128)}[etype]()
    a = np.ascontiguousarray(a)
    base = None
    if etype == "matrix":
        import warnings
        with warnings.catch_warnings():
            warnings.simplefilter("ignore")
            arg = np.matrix(a)
    elif layout in ("C", "col", "row", "1d"):
        arg = a
    elif layout == "F":
        arg = np.asfortranarray(a)
    elif layout == "T-view":
        arg = np.ascontiguousarray(a.T).T
    elif layout == "slice-view":
        base = np.full((2 * a.shape[0], 2 * a.shape[1] + 1), 7, dtype=a.dtype)
        base[::2, 1::2] = a
        arg = base[::2, 1::2]
    elif layout == "offset-view":
        base = np.full((a.shape[0] + 3, a.shape[1] + 2), 7, dtype=a.dtype)
        base[2: 2 + a.shape[0], 1: 1 + a.shape[1]] = a
        arg = base[2: 2 + a.shape[0], 1: 1 + a.shape[1]]
    elif layout == "1d-strided":
        base = np.full(3 * a.shape[0] + 1, 7, dtype=a.dtype)
        base[1::3] = a
        arg = base[1::3]
    elif layout in ("readonly", "1d-readonly"):
        arg = a
        arg.flags.writeable = False
    else:
        raise ValueError(layout)
    ref = np.asarray(arg).astype(complex)
    ref = ref.reshape(-1, 1) if one_d else (ref.T if layout == "row" else ref)
    return arg, (base if base is not None else arg), np.array(ref)


def div_host(n, m, v, spec):
    """Host circuit builder + observable for the host call forms: the returned circuit placed on a permuted, non-ascending,
    non-contiguous qubit list of a larger host built from two registers; on the listed qubits IN THE LISTED ORDER the host maps
    |k> (m low listed qubits, the other listed qubits 0) to column k, for EVERY basis state of the idle qubits (untouched)."""
    import numpy as np
    import random
    from qiskit import QuantumCircuit, QuantumRegister
    from qiskit.quantum_info import Operator
    r = random.Random(spec["seed"] ^ 0x77)
    h = n + 2
    qubits = r.sample(range(h), n)
    while (n >= 2 and (qubits == sorted(qubits) or max(qubits) - min(qubits) == n - 1)) or (n == 1 and qubits == [0]):
        qubits = r.sample(range(h), n)          # permuted, non-ascending, non-contiguous
    call = spec["call"]

    def place(circ):
        ra, rb = QuantumRegister(h - 2, "a"), QuantumRegister(2, "b")
        host = QuantumCircuit(rb, ra) if r.random() < 0.5 else QuantumCircuit(ra, rb)
        if call == "host-to_gate-int":
            host.append(circ.to_gate(), qubits)
        elif call == "host-to_instruction-qubitobj":
            host.append(circ.to_instruction(), [host.qubits[q] for q in qubits])
        else:
            host.compose(circ, qubits=[host.qubits[q] for q in qubits], inplace=True)
        return host

    def post(circ):
        if circ.num_qubits != n:
            return float("inf")
        err = float(np.abs(Operator(circ).data[:, : 2 ** m] - v).max())
        op = Operator(place(circ)).data
        idle = [q for q in range(h) if q not in qubits]
        for b in range(2 ** len(idle)):
            off = sum(((b >> j) & 1) << q for j, q in enumerate(idle))
            idx = [off + sum(((x >> j) & 1) << q for j, q in enumerate(qubits)) for x in range(2 ** n)]
            exp = np.zeros((2 ** h, 2 ** m), dtype=complex)
            exp[idx, :] = v
            err = max(err, float(np.abs(op[:, idx[: 2 ** m]] - exp).max()))
        return err
    return post, qubits


def run_div(job, disable_a2=False, no_merge=False):
    sys.setrecursionlimit(10000)
    spec = job[1]
    try:
        import numpy as np
        from qiskit.quantum_info import Operator
        n, m, scheme, call = spec["n"], spec["m"], spec["scheme"], spec["call"]
        if spec.get("V") is not None:
            v = np.array([[complex(z[0], z[1]) for z in row] for row in spec["V"]], dtype=complex)
        else:
            v = div_data(spec["name"], n, m, spec["seed"])
        arg, watched, ref = div_arg(v, spec["etype"], spec["layout"])
        before = None if watched is None else (watched.dtype.str, watched.shape, watched.tobytes())
        circs = []

        def runner(qi):
            if call == "kw":
                c = qi.decompose(isometry=arg, scheme=scheme)
            elif call == "default":
                c = qi.decompose(arg)
            elif call == "default-kw":
                c = qi.decompose(isometry=arg)
            else:
                c = qi.decompose(arg, scheme)
            circs.append(c)
            if call == "twice":
                circs.append(qi.decompose(arg, scheme))
            return c

        fwd = default_post(n, m, ref)
        if call == "twice":
            def post(circ):
                return max(fwd(c) for c in circs)
        elif call == "inverse":
            def post(circ):
                if circ.num_qubits != n:
                    return float("inf")
                back = Operator(circ.inverse()).data @ ref
                return max(fwd(circ), float(np.abs(back - np.eye(2 ** n)[:, : 2 ** m]).max()))
        elif call.startswith("host-"):
            post, _ = div_host(n, m, ref, spec)
        else:
            post = fwd
        saved = None
        if no_merge:     # diagnosis only: UCGate._simplify without the np.allclose repetition search
            from qiskit.circuit.library import UCGate
            saved = UCGate._repetition_search
            UCGate._repetition_search = lambda self, mux, level, mux_copy: (set(), mux_copy)
        try:
            res, rec, circ = measure(n, m, ref, runner, disable_a2, post)
        finally:
            if saved is not None:
                UCGate._repetition_search = saved
        res["job"] = ["div", {k: x for k, x in spec.items() if k != "V"}]
        res["exact"] = bool(np.array_equal(ref, v))
        res["ref_dev"] = float(np.abs(ref - v).max())
        if before is not None:
            res["mutated"] = (watched.dtype.str, watched.shape, watched.tobytes()) != before
        return res
    except Exception:  # noqa: BLE001
        import traceback
        return {"harness_exc": traceback.format_exc()[-1500:], "job": ["div", {k: x for k, x in spec.items() if k != "V"}]}


def div_fam(spec):
    return f"div:{spec['name']}:{spec['etype']}:{spec['layout']}:{spec['call']}"


def div_replay(job, extra=None):
    spec = dict(job[1])
    if spec.get("V") is None:
        spec["V"] = [[[float(z.real), float(z.imag)] for z in row] for row in div_data(spec["name"], spec["n"], spec["m"], spec["seed"])]
    d = {"call": "qclib.isometry.decompose", "div": True, "spec": spec, "n": spec["n"], "m": spec["m"], "scheme": spec["scheme"],
         "how": "V (rows of [re, im]) cast to the element type `etype` in the memory layout `layout` (tools/props/c03.py::div_arg), "
                "decompose called in the form `call` (run_div); observable: Operator(circuit)[:, :2^m] == V (host forms: on the "
                "listed qubits of the host, identity on the idle ones; inverse: Operator(circuit.inverse()) V == I[:, :2^m])"}
    d.update(extra or {})
    return d


def judge_div(ctx, job, res):
    spec = job[1]
    if res is None or "harness_exc" in res:
        raise RuntimeError("harness exception in diversity job %r: %s" % (job, (res or {}).get("harness_exc")))
    n, m, scheme, etype, layout, call = spec["n"], spec["m"], spec["scheme"], spec["etype"], spec["layout"], spec["call"]
    fam = div_fam(spec)
    key = f"isometry-div:{scheme}:n={n}:m={m}:{fam}"
    rep = lambda extra=None: div_replay(job, extra)  # noqa: E731
    ctx.count(f"diversity:etype:{etype}")
    ctx.count(f"diversity:layout:{layout}")
    ctx.count(f"diversity:call:{call}")
    ctx.count(f"diversity:data:{spec['name'].split('@')[0]}")
    ctx.count(f"diversity:shape:n{n}m{m}:{scheme}")
    unsupported = "python-sequence" if etype in DIV_LIST_ETYPES else ("np.matrix" if etype == "matrix" else
                                                                    ("row-vector" if layout == "row" else None))
    if res.get("mutated"):
        ctx.fail(f"isometry-input-mutated:{scheme}:n={n}:m={m}:{etype}:{layout}",
                 "decompose() changed the caller's array (or the base array of the view handed in): it must work on a copy", rep())
        return
    if "raised" in res and unsupported:
        clean = {"python-sequence": ("AttributeError", "TypeError"), "np.matrix": ("ValueError", "TypeError"),
                 "row-vector": ("ValueError",)}[unsupported]
        if res["raised_type"] in clean:
            # a form decompose() does not claim to support (annotation np.ndarray; first statement `isometry.astype(complex)`)
            ctx.count(f"diversity:{unsupported}:unsupported-form-raises-{res['raised_type']}")
            ctx.ok(key + ":unsupported-form", nontrivial=False)
            return
    inexact = etype in DIV_REDUCED and not res.get("exact", True)
    if "raised" in res and inexact and res["raised_type"] == "ValueError" and not res.get("ucg_kernel_raise"):
        # the float32 / complex64 value IS a slightly non-orthonormal input: the documented rejection is acceptable
        ctx.count(f"diversity:reduced-precision:{etype}:rejected-ValueError")
        ctx.ok(key + ":rejected", nontrivial=False)
        return
    if "raised" not in res and call in ("default", "default-kw") and res.get("gk_count") != 2 ** m:
        ctx.fail(key + ":scheme", "decompose(V) without `scheme` did not run the column-by-column sweep (documented default 'ccd')",
                 rep())
        return
    if inexact:
        ctx.count(f"diversity:reduced-precision:{etype}:evaluated-at-1e-5")
    judge_core(ctx, n, m, fam, scheme, False, key, res, lambda: run_div(job, disable_a2=True), rep,
               tol=1e-5 if inexact else TOL, spec_tol=1e-5 if inexact else 1e-8, rerun_no_merge=lambda: run_div(job, no_merge=True),
               sample={"n": n, "m": m, "family": fam, "scheme": scheme, "err": res.get("err")})


def diversity_jobs(ctx):
    """The input-diversity job list (see the table above); deterministic from ctx.rng."""
    jobs, seen = [], set()

    def schemes(n):
        return ("ccd", "csd", "knill") if n >= 2 else ("ccd", "csd")

    def add(name, n, m, etype="c128", layout="C", call="pos", scheme="ccd", seed=None):
        import numpy as np
        if scheme == "knill" and n < 2:
            return
        if m > 0 and layout.startswith("1d"):
            return
        if call in ("default", "default-kw") and scheme != "ccd":
            return
        sd = ctx.rng.getrandbits(32) if seed is None else seed
        v = div_data(name, n, m, sd)
        if not div_castable(v, etype):
            return
        sig = (name, n, m, etype, layout, call, scheme)
        if sig in seen:
            return
        seen.add(sig)
        spec = {"name": name, "n": n, "m": m, "seed": sd, "etype": etype, "layout": layout, "call": call, "scheme": scheme,
                "V": [[[float(z.real), float(z.imag)] for z in row] for row in np.asarray(v)]}
        jobs.append(("div", spec))

    def each_scheme(name, n, m, **kw):
        sd = ctx.rng.getrandbits(32)
        for s in schemes(n):
            add(name, n, m, scheme=s, seed=sd, **kw)

    pick = ctx.rng.choice
    # ---- E1: integer-valued data in every element type (full cross for n <= 2, the dtype forms for n = 3, 4)
    for n, m in DIV_SHAPES + DIV_SHAPES4:
        ets = ["i64", "f64", "f64-negzero", "c128-negzero", "f32", "c64"]
        if n <= 2:
            ets += ["c128", "pylist-int", "pylist", "pytuple", "list-npscalars", "pylist-float"] + (["matrix"] if n == 2 else [])
        elif n == 4:
            ets = ["i64", "f64", "c64"]
        for et in ets:
            each_scheme("pm1_monomial", n, m, etype=et)
        for et in (["i64"] if n >= 3 else ["i64", "f32", "c128-negzero"]):
            each_scheme("id_cols", n, m, etype=et)
        for et in (["c64"] if n >= 3 else ["c128", "c64", "pylist"]):
            each_scheme("pmi_monomial", n, m, etype=et)
        if m == 0 and n <= 3:
            for k in ("0", "1", "last"):
                for j, et in enumerate(("pylist-int", "pytuple", "list-npscalars", "i64", "f32", "f64", "c64", "c128")):
                    if et in DIV_LIST_ETYPES:
                        if k == "1":
                            each_scheme(f"basis@{k}", n, 0, etype=et, layout=("1d", "col")[(j + n) % 2])
                    elif k != "0" or et == "i64":
                        each_scheme(f"basis@{k}", n, 0, etype=et, layout=("1d", "col")[(j + n + (k == "1")) % 2])
    ctx.count("diversity:E1-integer-valued-x-element-type")
    # ---- E2: REAL dtype (float64) inputs of the in-place sweep, exactly representable float32 where possible
    for n, m in DIV_SHAPES + DIV_SHAPES4:
        for name in ("real_haar", "hadamard_pm_half", "neg_hadamard", "real_rot", "real_neg_state"):
            if name == "hadamard_pm_half" and n == 1:
                continue
            if n == 4 and name not in ("real_haar", "hadamard_pm_half"):
                continue
            each_scheme(name, n, m, etype="f64", layout="1d" if m == 0 and name in ("real_rot", "real_neg_state") else "C")
            if name == "hadamard_pm_half" and n <= 3:
                each_scheme(name, n, m, etype=("f32", "c64")[(n + m) % 2])
    ctx.count("diversity:E2-real-dtype")
    # ---- E3: inexact reduced precision (documented ValueError, or correct for the up-cast input to 1e-5)
    for n, m in DIV_SHAPES:
        each_scheme("real_haar", n, m, etype="f32", layout="1d" if m == 0 and ctx.rng.random() < 0.5 else "C")
        each_scheme("haar", n, m, etype="c64", layout="1d" if m == 0 and ctx.rng.random() < 0.5 else "C")
    ctx.count("diversity:E3-inexact-float32-complex64")
    # ---- E4: forms decompose() does not claim to support on generic data (sequence types, np.matrix, row vector)
    for n, m in [(1, 0), (2, 0), (2, 2), (3, 1)]:
        for et in ("pylist", "pytuple", "list-npscalars"):
            each_scheme("haar", n, m, etype=et, layout="1d" if m == 0 else "C")
        each_scheme("real_haar", n, m, etype="pylist-float", layout="1d" if m == 0 else "C")
        if m == 0:
            each_scheme("haar", n, 0, layout="row")
            each_scheme("real_haar", n, 0, etype="f64", layout="row")
        if n == 2:
            each_scheme("haar", n, m, etype="matrix")
    ctx.count("diversity:E4-unsupported-forms")
    # ---- S: scale structure (every family at every other shape: each sees m = 0, 0 < m < n and m = n over n = 1, 2, 3)
    scale = ["light_tail@start@0.001", "light_tail@end@1e-06", "light_tail@mixed@0.0001", "light_tail@start@1e-05",
             "light_tail@end@0.001", "light_tail@mixed@1e-06", "equal_moduli", "equal_moduli_pm1i", "repeated_values",
             "single_one@0", "single_one@last", "single_one@mid", "phase_monomial", "sparse_pairs", "upper_half_zero",
             "lower_half_zero", "disjoint_support", "repeated_eig@pairs", "repeated_eig@ones", "repeated_eig@all_same",
             "light_tail_real@start@0.0001", "light_tail_real@end@1e-06", "light_tail_real@mixed@0.001"]
    off = ctx.rng.randrange(2)
    for i, (n, m) in enumerate(DIV_SHAPES):
        for j, name in enumerate(scale):
            if name.startswith("repeated_eig"):
                if m != n:
                    continue
            elif (i + j + off) % 2:
                continue
            if name.endswith("_half_zero") and n == 1 and m == 0:
                name = "basis@" + ("1" if name.startswith("upper") else "0")
            each_scheme(name, n, m, etype="f64" if name.startswith("light_tail_real") else "c128",
                        layout="1d" if m == 0 and ctx.rng.random() < 0.5 else "C")
    ctx.count("diversity:S-scale-structure")
    # ---- P: sign / phase structure (same rotation)
    phase = [("real_neg_state", "c128"), ("real_neg_state", "f64"), ("pure_imag", "c128"), ("gphase@-1@haar", "c128"),
             ("gphase@i@haar", "c128"), ("gphase@-i@haar", "c128"), ("gphase@-1@real_haar", "f64"), ("gphase@i@real_haar", "c128"),
             ("gphase@-1@id_cols", "i64"), ("gphase@i@id_cols", "c128"), ("gphase@-i@id_cols", "c64"), ("entry_phases", "c128"),
             ("first_neg", "c128"), ("gphase@-1@sparse_pairs", "c128-negzero"), ("disjoint_support", "c128-negzero"),
             ("gphase@-1@id_cols", "f64-negzero")]
    off = ctx.rng.randrange(2)
    for i, (n, m) in enumerate(DIV_SHAPES):
        for j, (name, et) in enumerate(phase):
            if (i + j + off) % 2 == 0:
                each_scheme(name, n, m, etype=et, layout="1d" if m == 0 and ctx.rng.random() < 0.5 else "C")
    ctx.count("diversity:P-sign-phase-structure")
    # ---- C: call forms and memory layouts (one at a time, then combined)
    datas = [("haar", "c128"), ("real_haar", "f64"), ("pm1_monomial", "i64"), ("hadamard_pm_half", "f64"), ("sparse_pairs", "c128")]
    lay2 = ["F", "T-view", "slice-view", "offset-view", "readonly"]
    lay1 = ["1d", "1d-strided", "1d-readonly", "col"]
    calls = ["kw", "default", "default-kw", "twice", "inverse", "host-to_gate-int", "host-to_instruction-qubitobj", "host-compose"]
    for n, m in [(1, 0), (1, 1), (2, 0), (2, 1), (2, 2), (3, 0), (3, 1), (3, 3), (4, 1)]:
        ok_data = [d for d in datas if not (d[0] == "hadamard_pm_half" and n == 1)]
        r0 = ctx.rng.randrange(60)
        for k, lay in enumerate(lay2 + (lay1 if m == 0 else [])):
            for d in ([ok_data[(k + r0) % len(ok_data)], ok_data[(k + r0 + 1) % 3]] if n <= 3 else [ok_data[(k + r0) % 3]]):
                each_scheme(d[0], n, m, etype=d[1], layout=lay)
        if n == 4:
            continue
        for k, call in enumerate(calls):
            for d in ([ok_data[(k + r0) % 3], ok_data[(k + r0 + 1) % len(ok_data)]] if n <= 2 else [ok_data[(k + r0) % 3]]):
                each_scheme(d[0], n, m, etype=d[1], call=call)
        for lay, call in (("F", "twice"), ("slice-view", "host-to_gate-int"), ("readonly", "inverse"), ("T-view", "kw"),
                          ("offset-view", "twice"), ("readonly", "default")):
            d = pick(ok_data)
            if m == 0 and ctx.rng.random() < 0.5:
                lay = {"F": "1d-strided", "readonly": "1d-readonly", "offset-view": "1d-strided"}.get(lay, "1d")
            each_scheme(d[0], n, m, etype=d[1], layout=lay, call=call)
    ctx.count("diversity:C-call-forms-and-layouts")
    # ---- Z: every data family once at n = 4 (m = 1 or 3), where the iso-mode sites of the csd recursion interact
    every = scale + [p[0] for p in phase] + ["real_rot", "neg_hadamard", "haar"]
    for k, name in enumerate(dict.fromkeys(every)):
        n, m = DIV_SHAPES4[k % 2]
        sd = ctx.rng.getrandbits(32)
        add(name, n, m, scheme="csd", seed=sd)
        et = "f64" if k % 3 == 0 and div_castable(div_data(name, n, m, sd), "f64") else "c128"
        add(name, n, m, scheme=("ccd", "knill")[(k // 2) % 2], seed=sd, etype=et)
    ctx.count("diversity:Z-n=4-once-per-family")
    return jobs


def diversity_tie(ctx):
    """Converted inputs through the existing op builders of the Lean driver: (n, m) schedule of the real `_ccd` run, the Lemma-2
    blocks the run computed (structured pairs: exact zeros, negative reals, +-i, -0.0), Knill's retained-eigenvalue skeleton."""
    import numpy as np
    cases = [(1, 1, "neg_hadamard", "f64", "readonly"), (2, 1, "pm1_monomial", "i64", "C"), (2, 2, "hadamard_pm_half", "f64", "F"),
             (2, 0, "light_tail@end@1e-06", "c128", "1d"), (3, 0, "basis@last", "i64", "1d"), (3, 1, "sparse_pairs", "c128", "T-view"),
             (3, 2, "real_haar", "f64", "slice-view"), (3, 2, "disjoint_support", "c128-negzero", "C"),
             (3, 3, "pmi_monomial", "c64", "offset-view"), (3, 3, "repeated_eig@ones", "c128", "C"),
             (4, 1, "upper_half_zero", "c128", "C"), (4, 3, "real_rot", "f64", "F")]
    for n, m, name, et, lay in cases:
        seed = ctx.rng.getrandbits(32)
        v = div_data(name, n, m, seed)
        spec = {"name": name, "n": n, "m": m, "seed": seed, "etype": et, "layout": lay, "call": "pos", "scheme": "ccd", "V": None}
        tag = f"{name}:{et}:{lay}"
        try:
            arg, _, _ = div_arg(v, et, lay)
            lines, lemma2 = ccd_impl_lines(n, m, seed, arg=arg)
        except Exception as e:  # noqa: BLE001
            ctx.fail(f"decompose-raises:ccd:n={n}:m={m}:{div_fam(spec)}", f"qclib raised on a valid isometry: {type(e).__name__}: {e}",
                     div_replay(("div", spec)))
            continue
        ctx.tie({"op": "ccd", "n": n, "m": m}, lines, label=f"ccd schedule n={n} m={m} diversity {tag}")
        ctx.count("diversity:tie:ccd-schedule")
        structured = [r for r in lemma2 if r[1] == 0 or r[2] == 0 or r[1].imag == 0 or r[2].imag == 0 or r[1].real == 0 or r[2].real == 0]
        ctx.rng.shuffle(structured)
        for _, a, b, basis, out in (structured or lemma2)[:5]:
            flat = [x for z in out.ravel() for x in (float(z.real), float(z.imag))]
            ctx.tie({"op": "lemma2", "are": a.real, "aim": a.imag, "bre": b.real, "bim": b.imag, "basis": basis},
                    ["lemma2 ; " + " ".join(repr(x) for x in flat)], label=f"lemma2 a={a} b={b} basis={basis} diversity {tag}")
            ctx.count("diversity:tie:lemma2-structured")
        if n < 2:
            continue
        rec = []
        spec = dict(spec, scheme="knill")
        try:
            arg, _, _ = div_arg(v, et, lay)
            with instrumented(rec) as q:
                circ = q.decompose(arg, "knill")
        except Exception as e:  # noqa: BLE001
            ctx.fail(f"decompose-raises:knill:n={n}:m={m}:{div_fam(spec)}", f"qclib raised on a valid isometry: {type(e).__name__}: {e}",
                     div_replay(("div", spec)))
            continue
        args, lines = knill_skeleton(circ, rec, n)
        ctx.tie({"op": "knill", "n": n, "args": args}, lines, label=f"knill n={n} m={m} diversity {tag}")
        ctx.count(f"diversity:tie:knill-skeleton:kept{sum(1 for x in args if abs(x) > 1e-7)}of{len(args)}")


def judge_any(ctx, job, res):
    (judge_div if job[0] == "div" else judge)(ctx, job, res)


def run(ctx):
    run_tie(ctx)
    probe_fixed(ctx)
    probe_call_forms(ctx)
    diversity_tie(ctx)
    jobs = oracle_jobs(ctx, 5 if ctx.quick else 6, 2 if ctx.quick else 3) + boundary_jobs(ctx) + diversity_jobs(ctx)
    for job, res in zip(jobs, run_jobs(jobs)):
        judge_any(ctx, job, res)
    flush_deferred(ctx)
    ctx.notes.append("Knill is exercised for n>=2 only (the code rejects n=1); tolerances: operator 1e-7, kernel specs 1e-8")
    ctx.notes.append("input diversity: Python lists / tuples / lists of numpy scalars, np.matrix (ccd) and (1, 2^n) row vectors are not "
                     "accepted by decompose() (`isometry.astype`, annotation np.ndarray): counted as diversity:*:unsupported-form-raises-*; "
                     "inexact float32 / complex64 matrices are rejected with the documented ValueError (np.allclose atol 1e-8) or evaluated "
                     "at 1e-5; light tails >= 1e-6; caller's array compared byte for byte after every call")
    ctx.notes.append("boundary families: eigphase@phi (eigenphases 3e-8 / 3e-7 / 1e-6 around Knill's 1e-7 cut, m = n), tiny_rows@e (pairs "
                     "handed to Lemma 2 tiny but not zero), allclose@delta (sibling blocks 3e-9 / 3e-5 apart: either side of the np.allclose "
                     "merge of qiskit's UCGate._simplify; 3e-6 apart is the known merge, keys isometry-allclose-merge:*), and C02's "
                     "block_near_equal@eps / cs_tiny@t through the csd scheme")


def search(ctx, hints):
    probe_fixed(ctx)
    jobs = diversity_jobs(ctx) + oracle_jobs(ctx, 5, 2)
    for job, res in zip(jobs, run_jobs(jobs)):
        judge_any(ctx, job, res)
    flush_deferred(ctx)


def replay(ctx, payload):
    r = payload["replay"]
    if r.get("div"):
        job = ("div", r["spec"])
        judge_div(ctx, job, run_div(job))
        flush_deferred(ctx)
        return
    if r.get("form"):
        probe_call_forms(ctx)
        return
    job = ("iso", r["n"], r["m"], r["family"], r["seed"], r["scheme"], r.get("as_1d_vector", False))
    judge(ctx, job, run_job(job))
    flush_deferred(ctx)
