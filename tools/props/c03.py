"""C03 — isometry decomposition (qclib/isometry.py): column-by-column, cosine-sine, Knill."""
import contextlib
import math
import os
import sys

CLAIMED = True
TECHNIQUE = ("Lean 4 proofs of the index logic of the column-by-column sweep (support invariant by induction over the bit steps, "
             "for all n, m, k) and of the algebra around the numerical kernels (Lemma 2, Knill's product of rank-one phase "
             "factors under an explicit orthonormality hypothesis, conjugated null-space extension) over any commutative "
             "*-ring; schedule model tied exactly to _g_k/_mc_gate/_uc_unitaries of the real code; Operator oracle over "
             "structured isometry families with the kernels' specifications re-checked per call")
LEVEL_TEXT = ("PARTIAL. Proved for all sizes: (C03_lemma2) _unitary([[a],[b]], basis) is unitary, maps (a,b)/norm to e_basis and "
              "zeroes the other component (identity on the zero pair); (C03_ccd_index, C03_ccd_preserves, C03_ccd_schedule) for "
              "every n, k<2^n: the index arithmetic of _a/_b/_k_s/start/idx pairs, the scheduled gates of G_k leave every column "
              "vanishing on rows >= k unchanged for ANY 2x2 matrices, and reduce column k (zero above the pivot) to row k given "
              "only that each chosen 2x2 zeroes its pair (support invariant r >= k, r = k mod 2^s, by induction over the bit "
              "steps); (C03_ccd_sweep) over C with the exact Lemma-2 matrices the whole sweep maps orthonormal columns to "
              "phase.e_c; (C03_knill) for an ORTHONORMAL complete eigen-system the ordered product of the retained factors "
              "(I + (l_i-1)|w_i><w_i|), in any order, skipping l_i = 1, equals sum l_i |w_i><w_i|; (C03_knill_factor) "
              "prep.diag(z at 0).prep^dagger is one such factor and X..X MCP X..X is that diagonal for all n; (C03_extend) "
              "[V | conj(null(V^T))] has orthonormal columns and is unitary when the dimensions add up; WHOLE CIRCUITS "
              "(C03_ccd_full) for every n, m<=n, over any commutative ring with conjugation: with the run described by its data "
              "(every MCG / UCG 2x2 matrix, the unknown unimodular diagonal each UCGate(up_to_diagonal=True) leaves behind, the "
              "closing DiagonalGate), IF the columns are orthonormal, every 2x2 meets Lemma 2 on the column it was computed from "
              "and is unitary, THEN after all G_k column c is phi_c.e_c with |phi_c|=1, with the closing diagonal conj(phi) the "
              "circuit maps column c exactly to e_c (m>0), preserves all inner products, and every left inverse "
              "(circuit.inverse()) maps e_c to column c of the isometry; (C03_ccd_code) over C, for EVERY isometry, with the exact "
              "Lemma-2 matrices chosen from the current working isometry as the code does and ANY unimodular UCGate diagonals, the "
              "loop ends with phi_c.e_c and the closing diagonal conj(phi) gives e_c (no hypothesis on the matrices left); "
              "(C03_knill_full) in the amplitude semantics, every state, "
              "n>=1: IF prep_i denotes a unitary with column |0..0> = w_i and prep_i.inverse() its adjoint, the w_i orthonormal "
              "and complete, dropped eigenvalues = 1, THEN the emitted circuit (prep_i^-1; X^n; MCP; X^n; prep_i per retained i, "
              "loop order) denotes sum l_i |w_i><w_i| on wires 0..n-1 and maps |j0> x phi to (its column j0) x phi; (C03_csd_full) "
              "scheme csd = C02_qsd_full in isometry mode: the whole buildUnitary-qsd gate list maps |j0> x phi (top n-m wires 0) "
              "to (column j0 of the extended unitary) x phi, given the kernel specifications at every node. Tied exactly: "
              "_a/_b/_k_s for k<64,i<8; the (k,i) schedule (MCG condition, control lists after reverse_bits, start, basis, "
              "index pairs, closing diagonal) for all n<=5, m<=n; Lemma-2 blocks numerically; Knill's retained eigenvalues and "
              "gate skeleton. Tested only: Operator(decompose(V, scheme))[:, :2^m] vs V, n<=5 (6 thorough), all m, three "
              "schemes, Haar and degenerate families; Schur orthonormality, null-space and cossin specifications per call.")
LEVEL_NOTE = ("Trusted: Lean kernel; scipy schur/null_space/cossin, numpy eig, qiskit UCGate(up_to_diagonal)/DiagonalGate/"
              "UnitaryGate/MCPhase, Operator, LowRankInitialize (C01), qclib.unitary (C02): specified and validated numerically "
              "each run, not verified; IEEE floats vs exact algebra (1e-7); that UCGate(up_to_diagonal=True) leaves a diagonal "
              "which the working copy absorbs (the code simulates the gate it actually appended).")
LEAN_TARGETS = ["QclibModel.Props.C03"]
THEOREMS = ["Qclib.C03_lemma2", "Qclib.C03_ccd_index", "Qclib.C03_ccd_preserves", "Qclib.C03_ccd_schedule",
            "Qclib.C03_ccd_sweep", "Qclib.C03_knill", "Qclib.C03_knill_factor", "Qclib.C03_extend",
            "Qclib.C03_ccd_full", "Qclib.C03_ccd_code", "Qclib.C03_knill_full", "Qclib.C03_csd_full"]
TRUSTED = [
    "scipy.linalg.schur(U, output='complex') of a unitary: T diagonal (to 1e-8), Z unitary, U = Z T Z^dagger (re-checked per call)",
    "scipy.linalg.null_space(V^T): orthonormal columns N with V^T N = 0 and 2^n - 2^m columns (re-checked per call)",
    "qiskit UCGate(up_to_diagonal=True), DiagonalGate, UnitaryGate, mcp, Operator; circuit.inverse(), reverse_bits()",
    "LowRankInitialize(state) prepares state from |0..0> (property C01) and its inverse() is the adjoint",
    "qclib.unitary.unitary in isometry mode (property C02)",
]
ASSUMPTIONS = ["exact complex arithmetic in the theorems; implementation compared at 1e-7",
               "isometries are orthonormal to 1e-12 (generated by QR / slicing unitaries)"]
RULE = ("tie: (n, m) schedules, (k, i) index triples, Lemma-2 input pairs, Knill argument lists; oracle: distinct "
        "(n, m, family, seed, scheme, 1-D flag) on which Operator[:, :2^m] was compared with V; non-trivial = n>=2")
DRIVER = "Drivers/C03.lean"

import framework  # noqa: E402
from props import c02  # noqa: E402  (unitary families, qclib.unitary instrumentation)

TOL = 1e-7


def defer_fail(ctx, key, detail, replay):
    """Precision-only findings are reported after every other failure of the run."""
    if not hasattr(ctx, "_deferred"):
        ctx._deferred = []
    ctx._deferred.append((key, detail, replay))


def flush_deferred(ctx):
    for key, detail, replay in getattr(ctx, "_deferred", []):
        ctx.fail(key, detail, replay)
    ctx._deferred = []

FAMILIES = ["haar", "identity", "minus_identity", "i_identity", "diag_phases", "permutation", "real_orthogonal", "tensor",
            "block_equal", "block_diff", "hadamard", "qft", "diag_pm1", "cnot_chain", "tensor_id", "identity_columns",
            "real_signed"]


def make_isometry(family, n, m, seed):
    import numpy as np
    rng = np.random.default_rng(seed ^ 0x5a5a)
    if family == "identity_columns":
        cols = rng.permutation(2 ** n)[: 2 ** m]
        phases = rng.choice([1, -1, 1j, -1j], 2 ** m)
        return (np.eye(2 ** n, dtype=complex)[:, cols]) * phases
    if family == "real_signed":
        return c02.haar_real(rng, 2 ** n)[:, : 2 ** m].astype(float)
    if family.startswith("eigphase@"):
        # unitary W diag(exp(i phi_j)) W^dagger with phi_0 = phi, phi_1 = -phi next to Knill's `abs(arg) > 1e-7` test
        # (isometry.py:122) and generic other phases; meaningful for m = n (for m < n the code extends V by its own null space)
        phi = float(family.split("@")[1])
        dim = 2 ** n
        w = c02.haar(rng, dim)
        ph = rng.uniform(0.5, 2.5, dim) * rng.choice([-1.0, 1.0], dim)
        ph[0] = phi
        if dim > 2:
            ph[1] = -phi
        return ((w * np.exp(1j * ph)) @ w.conj().T)[:, : 2 ** m]
    if family.startswith("tiny_rows@"):
        # Haar isometry whose sibling rows 2j, 2j+1 (and, n >= 2, an aligned block of four) are scaled by e: the pairs handed to
        # Lemma 2 (`iso_norm != 0.0`, isometry.py:301) are tiny but not zero
        e = float(family.split("@")[1])
        dim = 2 ** n
        a = c02.haar(rng, dim)[:, : 2 ** m]
        j = int(rng.integers(dim // 2))
        a[2 * j: 2 * j + 2, :] *= e
        if n >= 3:
            q = int(rng.integers(dim // 4))
            a[4 * q: 4 * q + 4, :] *= e
        qq, rr = np.linalg.qr(a)
        return qq * (np.diagonal(rr) / np.abs(np.diagonal(rr)))
    if family == "subnormal_pair":
        # fixed literals: a sibling pair whose squares are subnormal, so that Lemma 2 (isometry.py:298) takes its norm from a few
        # subnormal quanta (m = 0 only)
        v = {1: [1.0, 4e-162], 2: [1.0, 0.0, 4e-162, 2e-162], 3: [0.6, 0, 0, 0.8j, 0, 0, 3e-162j, -4e-162]}[min(n, 3)]
        v = np.array(v, dtype=complex)
        for _ in range(n - 3):
            v = np.kron(v, np.array([1.0, 0.0]))
        return v.reshape(-1, 1)
    if family.startswith("allclose@"):
        # state vector (first column; further columns completed to an isometry) whose two sibling multiplexer blocks are a
        # relative delta apart: next to the np.allclose merge of qiskit's UCGate._simplify (rtol 1e-5)
        delta = float(family.split("@")[1])
        f0 = np.array([0.6, 0.8])
        f1 = np.array([0.6, 0.8 * (1 + delta)])
        f1 = f1 / np.linalg.norm(f1)
        v = np.concatenate([0.6 * f0, 0.8 * f1]).astype(complex)
        for _ in range(n - 2):
            v = np.kron(v, np.array([1, 1j]) / math.sqrt(2))
        v = v / np.linalg.norm(v)
        if n < 2:
            v = np.array([0.6, 0.8], dtype=complex)
        a = np.concatenate([v.reshape(-1, 1), c02.haar(rng, 2 ** n)[:, : 2 ** m - 1]], axis=1) if m > 0 else v.reshape(-1, 1)
        qq, rr = np.linalg.qr(a)
        return qq * (np.diagonal(rr) / np.abs(np.diagonal(rr)))
    return c02.make_unitary(family, n, seed)[:, : 2 ** m]


# ---------------------------------------------------------------------------------------------------
# add-only instrumentation of qclib.isometry
# ---------------------------------------------------------------------------------------------------

@contextlib.contextmanager
def instrumented(rec):
    import numpy as np
    import qclib.isometry as qi
    names = ("_g_k", "_mc_gate", "_uc_gate", "_unitary", "_orthonormal_eig", "_extend_to_unitary", "_mc_unitary",
             "_uc_unitaries")
    saved = {k: getattr(qi, k) for k in names}

    def g_k(iso, n, k):
        rec.append(("g_k-begin", k, n))
        c = saved["_g_k"](iso, n, k)
        rec.append(("g_k-end", k, n, c))
        return c

    def mc_gate(unitary, n_qubits, control, target, k_bin):
        rec.append(("mc_gate", list(control), target, k_bin))
        return saved["_mc_gate"](unitary, n_qubits, control, target, k_bin)

    def uc_gate(unitaries, n_qubits, control, target):
        rec.append(("uc_gate", list(control), target, len(unitaries)))
        return saved["_uc_gate"](unitaries, n_qubits, control, target)

    def mc_unitary(iso, k, i):
        rec.append(("mc_unitary", k, i))
        return saved["_mc_unitary"](iso, k, i)

    def uc_unitaries(iso, n, k, i):
        rec.append(("uc_unitaries", k, i))
        return saved["_uc_unitaries"](iso, n, k, i)

    def unitary_(iso, basis=0):
        out = saved["_unitary"](iso, basis)
        rec.append(("lemma2", complex(iso[0][0]), complex(iso[1][0]), int(basis), np.array(out, dtype=complex)))
        return out

    def orth_eig(u):
        val, vec = saved["_orthonormal_eig"](u)
        rec.append(("eig", np.array(u), np.array(val), np.array(vec)))
        return val, vec

    def extend(iso, ll, lc):
        u = saved["_extend_to_unitary"](iso, ll, lc)
        rec.append(("extend", np.array(iso), np.array(u)))
        return u

    qi._g_k, qi._mc_gate, qi._uc_gate, qi._unitary = g_k, mc_gate, uc_gate, unitary_
    qi._orthonormal_eig, qi._extend_to_unitary = orth_eig, extend
    qi._mc_unitary, qi._uc_unitaries = mc_unitary, uc_unitaries
    try:
        yield qi
    finally:
        for k, v in saved.items():
            setattr(qi, k, v)


def probe_indices(n, m, k, i):
    """Run the REAL _mc_unitary / _uc_unitaries on a probe matrix whose entry in row r is r+1, with Lemma 2 replaced by a
    recorder: returns (mc idx pair or None, start, [(j, idx1, idx2, basis)], nblocks)."""
    import numpy as np
    import qclib.isometry as qi
    probe = np.array([[r + 1.0 + 0j for _ in range(2 ** m)] for r in range(2 ** n)])
    calls = []
    saved = qi._unitary
    sentinel = np.zeros((2, 2))

    def fake(iso, basis=0):
        calls.append((int(round(iso[0][0].real)) - 1, int(round(iso[1][0].real)) - 1, int(basis)))
        return sentinel
    qi._unitary = fake
    try:
        mc = None
        if qi._k_s(k, i) == 0 and qi._b(k, i + 1) != 0:
            qi._mc_unitary(probe, k, i)
            mc = calls.pop()
        gates = qi._uc_unitaries(probe, n, k, i)
    finally:
        qi._unitary = saved
    start = 0
    while start < len(gates) and gates[start] is not sentinel:
        start += 1
    return mc, start, [(start + d, c[0], c[1], c[2]) for d, c in enumerate(calls)], len(gates)


def ccd_impl_lines(n, m, seed):
    """Schedule of the real `_ccd` run on a Haar isometry, in the driver's dump format."""
    import qclib.isometry as qi
    rec = []
    v = make_isometry("haar", n, m, seed)
    with instrumented(rec) as q:
        circ = q.decompose(v, "ccd")
    lines = []
    lemma2 = [r for r in rec if r[0] == "lemma2"]
    cur = None
    events = []
    for r in rec:
        if r[0] == "g_k-begin":
            cur, events = r[1], []
        elif r[0] in ("mc_unitary", "mc_gate", "uc_unitaries", "uc_gate"):
            events.append(r)
        elif r[0] == "g_k-end":
            k, gk = r[1], r[3]
            insts = [[gk.find_bit(qb).index for qb in inst.qubits] for inst in gk.data]
            gates = [e for e in events if e[0] in ("mc_gate", "uc_gate")]
            if len(insts) != len(gates):
                lines.append(f"MISMATCH g_k {k}: {len(insts)} instructions for {len(gates)} gate calls ;")
                continue
            i = -1
            for e, ws in zip(gates, insts):
                w = " ".join(str(x) for x in ws)
                if e[0] == "mc_gate":
                    i_mc = n - 1 - e[2]
                    mc, _, _, _ = probe_indices(n, m, k, i_mc)
                    lines.append(f"mcg {k} {i_mc} {mc[0]} {mc[1]} {w} ;" if mc else f"mcg-unscheduled {k} {i_mc} {w} ;")
                else:
                    i = n - 1 - e[2]
                    _, start, pairs, nblocks = probe_indices(n, m, k, i)
                    basis = qi._k_s(k, i)
                    if any(p[3] != basis for p in pairs):
                        lines.append(f"BASIS-MISMATCH {k} {i} ;")
                    lines.append(f"ucg {k} {i} {start} {basis} {nblocks} {w} ;")
                    for (j, i1, i2, _) in pairs:
                        lines.append(f"pair {k} {i} {j} {i1} {i2} ;")
    for inst in circ.data:
        if inst.operation.name.startswith("diagonal"):
            lines.append("diag " + " ".join(str(circ.find_bit(qb).index) for qb in inst.qubits) + " ;")
    return lines, lemma2


def compare(op, impl, model):
    return framework.diff_lines(impl, model, tol=1e-9)


def run_tie(ctx):
    import numpy as np
    import qclib.isometry as qi
    # _a, _b, _k_s exhaustive
    ctx.tie({"op": "abk", "kmax": 64, "imax": 8},
            [f"abk {k} {i} {qi._a(k, i)} {qi._b(k, i)} {qi._k_s(k, i)} ;" for k in range(64) for i in range(8)],
            label="_a/_b/_k_s k<64 i<8")
    nmax = 5
    l2 = []
    for n in range(1, nmax + 1):
        for m in range(0, n + 1):
            seed = ctx.rng.getrandbits(32)
            try:
                lines, lemma2 = ccd_impl_lines(n, m, seed)
            except Exception as e:  # noqa: BLE001  qclib raised on a valid (Haar) isometry
                ctx.fail(f"decompose-raises:ccd:n={n}:m={m}:haar", f"qclib raised on a valid isometry: {type(e).__name__}: {e}",
                         replay_dict(("iso", n, m, "haar", seed, "ccd", False)))
                continue
            ctx.tie({"op": "ccd", "n": n, "m": m}, lines, label=f"ccd schedule n={n} m={m}")
            ctx.count(f"ccd-schedule:n{n}")
            l2.extend(lemma2)
    # Lemma 2 blocks: sampled real calls + edge cases through the real function
    ctx.rng.shuffle(l2)
    sample = l2[:60 if ctx.quick else 300]
    edge = [(0j, 0j, 0), (0j, 0j, 1), (1 + 0j, 0j, 0), (0j, 1 + 0j, 0), (0j, 1j, 1), (3 + 0j, 4j, 1), (-0.6 + 0j, 0.8 + 0j, 0),
            (1e-9 + 0j, 1e-9j, 1)]
    for a, b, basis in edge:
        out = np.array(qi._unitary(np.array([[a], [b]]), basis=basis), dtype=complex)
        sample.append(("lemma2", a, b, basis, out))
    for _, a, b, basis, out in sample:
        flat = [v for z in out.ravel() for v in (float(z.real), float(z.imag))]
        ctx.tie({"op": "lemma2", "are": a.real, "aim": a.imag, "bre": b.real, "bim": b.imag, "basis": basis},
                ["lemma2 ; " + " ".join(repr(x) for x in flat)], label=f"lemma2 a={a} b={b} basis={basis}")
        ctx.count("lemma2-blocks")
    # Knill: retained eigenvalues + gate skeleton
    for n, m, fam in [(2, 1, "haar"), (2, 2, "hadamard"), (3, 1, "haar"), (3, 3, "identity"), (3, 2, "block_equal"),
                      (3, 0, "haar"), (2, 0, "identity"), (3, 3, "diag_pm1"), (4, 2, "tensor_id")]:
        rec = []
        seed = ctx.rng.getrandbits(32)
        v = make_isometry(fam, n, m, seed)
        try:
            with instrumented(rec) as q:
                circ = q.decompose(v, "knill")
        except Exception as e:  # noqa: BLE001
            ctx.fail(f"decompose-raises:knill:n={n}:m={m}:{fam}", f"qclib raised on a valid isometry: {type(e).__name__}: {e}",
                     replay_dict(("iso", n, m, fam, seed, "knill", False)))
            continue
        eig = [r for r in rec if r[0] == "eig"][-1]
        args = [float(x) for x in np.angle(eig[2])]
        lines, group_open = [], False
        for inst in circ.data:
            nm = inst.operation.name
            ws = " ".join(str(circ.find_bit(qb).index) for qb in inst.qubits)
            if nm == "x":
                lines.append(f"x {ws} ;")
            elif nm in ("mcphase", "mcp", "cp", "p"):
                lines.append(f"mcp {ws} ; {float(inst.operation.params[0])!r}")
            else:
                st = np.asarray(inst.operation.params, dtype=complex)
                idx = [i for i in range(2 ** n) if st.shape == eig[3][:, i].shape and np.array_equal(st, eig[3][:, i])]
                tag = idx[0] if idx else "?"
                lines.append(f"prep {tag} ;" if group_open else f"prep_dg {tag} ;")
                group_open = not group_open
        ctx.tie({"op": "knill", "n": n, "args": args}, lines, label=f"knill n={n} m={m} {fam}")
        ctx.count(f"knill-skeleton:kept{sum(1 for x in args if abs(x) > 1e-7)}of{len(args)}")


# ---------------------------------------------------------------------------------------------------
# oracle
# ---------------------------------------------------------------------------------------------------

def job_key(job):
    _, n, m, fam, seed, scheme, as1d = job
    return f"isometry:{scheme}:n={n}:m={m}:{fam}{':1d' if as1d else ''}:{seed & 0xffff:x}"


def run_job(job, disable_a2=False):
    sys.setrecursionlimit(10000)
    try:
        import numpy as np
        from qiskit.quantum_info import Operator
        _, n, m, fam, seed, scheme, as1d = job
        v = make_isometry(fam, n, m, seed)
        arg = v[:, 0].copy() if as1d else v.copy()
        rec, rec2 = [], []
        res = {"job": list(job)}
        try:
            with instrumented(rec) as qi, c02.instrumented(rec2, disable_a2):
                circ = qi.decompose(arg, scheme)
        except Exception as e:  # noqa: BLE001
            import traceback
            res["raised"] = f"{type(e).__name__}: {e}"
            tb = traceback.format_exc()
            res["tb"] = tb[-800:]
            # did qiskit's UCGate synthesis fail on exactly-unitary 2x2 inputs?  (kernel defect, classified narrowly)
            blocks = [r[4] for r in rec if r[0] == "lemma2"]
            in_unit = max([float(np.abs(b @ b.conj().T - np.eye(2)).max()) for b in blocks] or [0.0])
            # ... either inside _dec_ucg, or later when circuit.inverse() re-validates a factor that UCGate's synthesis produced
            # (UnitaryGate.transpose -> "Input matrix is not unitary"): every 2x2 matrix qclib itself hands to qiskit is a
            # Lemma-2 output (recorded, unitary to in_unit), so a rejected matrix can only be one of qiskit's own factors
            in_dec = "generalized_gates/uc.py" in tb and "_dec_ucg" in tb
            in_inv = ("Input matrix is not unitary" in res["raised"] and "generalized_gates/unitary.py" in tb
                      and ("inverse" in tb or "adjoint" in tb))
            res["ucg_kernel_raise"] = bool((in_dec or in_inv) and in_unit <= 1e-12)
            res["raise_site"] = "_dec_ucg" if in_dec else ("inverse" if in_inv else "other")
            res["lemma2_unitarity"] = in_unit
            return res
        res["width"] = circ.num_qubits
        op = Operator(circ).data
        res["err"] = float(np.abs(op[:, : 2 ** m] - v).max()) if circ.num_qubits == n else float("inf")
        schur = ext = l2 = 0.0
        for r in rec:
            if r[0] == "eig":
                _, u, val, vec = r
                k = len(val)
                schur = max(schur, float(np.abs(vec.conj().T @ vec - np.eye(k)).max()),
                            float(np.abs(u @ vec - vec * val).max()), float(np.abs(np.abs(val) - 1).max()))
            elif r[0] == "extend":
                _, iso, u = r
                k = u.shape[0]
                ext = max(ext, float(np.abs(u.conj().T @ u - np.eye(k)).max()),
                          float(np.abs(u[:, : iso.shape[1]] - iso).max()))
            elif r[0] == "lemma2":
                _, a, b, basis, out = r
                nrm = math.hypot(abs(a), abs(b))      # no underflow of the squares (amplitudes ~1e-162 are generated)
                l2 = max(l2, float(np.abs(out @ out.conj().T - np.eye(2)).max()))
                if nrm > 0:
                    e = np.zeros(2)
                    e[basis] = 1
                    l2 = max(l2, float(np.abs(out @ np.array([a, b]) / nrm - e).max()))
        res["schur_err"], res["ext_err"], res["lemma2_err"] = schur, ext, l2
        res["cs_err"], res["eig_err"] = c02.kernel_spec_errors(rec2)
        res["a2_raised"] = any(r[0] == "a2-raised" for r in rec2)
        res["n_kernel"] = sum(1 for r in rec if r[0] in ("eig", "extend", "lemma2")) + len(rec2)
        return res
    except Exception:  # noqa: BLE001
        import traceback
        return {"harness_exc": traceback.format_exc()[-1500:], "job": list(job)}


def job_weight(job):
    return 4 ** job[1] * {"ccd": 6, "knill": 3, "csd": 1}[job[5]]


def run_jobs(jobs):
    if not jobs:
        return []
    import multiprocessing as mp
    from concurrent.futures import ProcessPoolExecutor
    workers = max(1, min(14, (os.cpu_count() or 2) - 1, len(jobs)))
    if workers == 1 or len(jobs) < 4:
        return [run_job(j) for j in jobs]
    for k in ("OMP_NUM_THREADS", "OPENBLAS_NUM_THREADS", "RAYON_NUM_THREADS", "MKL_NUM_THREADS"):
        os.environ[k] = "1"
    order = sorted(range(len(jobs)), key=lambda i: -job_weight(jobs[i]))
    with ProcessPoolExecutor(max_workers=workers, mp_context=mp.get_context("spawn")) as ex:
        res = list(ex.map(run_job, [jobs[i] for i in order], chunksize=1))
    out = [None] * len(jobs)
    for i, r in zip(order, res):
        out[i] = r
    return out


def replay_dict(job, extra=None):
    _, n, m, fam, seed, scheme, as1d = job
    d = {"call": "qclib.isometry.decompose(V, scheme)", "n": n, "m": m, "family": fam, "seed": seed, "scheme": scheme,
         "as_1d_vector": as1d,
         "how": "V = tools/props/c03.py::make_isometry(family, n, m, seed); compare Operator(circuit)[:, :2^m] with V"}
    if n <= 2:
        d["V"] = [[[float(z.real), float(z.imag)] for z in row] for row in make_isometry(fam, n, m, seed)]
    d.update(extra or {})
    return d


def judge(ctx, job, res):
    _, n, m, fam, seed, scheme, as1d = job
    key = job_key(job)
    if res is None or "harness_exc" in res:
        raise RuntimeError("harness exception in oracle job %r: %s" % (job, (res or {}).get("harness_exc")))
    ctx.count(f"oracle:{scheme}")
    if "raised" in res and res.get("ucg_kernel_raise"):
        site = ("(_dec_ucg) raised" if res.get("raise_site") != "inverse" else
                "produced a factor that qiskit's own UnitaryGate rejects when the circuit is inverted,")
        ctx.fail(f"decompose-ucgate-kernel-raises:{scheme}:n={n}:m={m}:{fam}{':1d' if as1d else ''}",
                 f"qiskit's UCGate synthesis {site} on 2x2 blocks that are unitary to "
                 f"{res['lemma2_unitarity']:.1e}: " + res["raised"], replay_dict(job, {"traceback": res.get("tb")}))
        return
    if "raised" in res and fam == "subnormal_pair":
        ctx.fail(f"decompose-subnormal-pair:{scheme}:n={n}:m={m}", "qclib raised on a valid state vector with a pair of amplitudes "
                 "(4e-162, 2e-162) whose squares are subnormal (Lemma 2 normalises by a norm that is off by several percent): "
                 + res["raised"], replay_dict(job, {"traceback": res.get("tb")}))
        return
    if "raised" in res:
        ctx.fail(f"decompose-raises:{scheme}:n={n}:m={m}:{fam}{':1d' if as1d else ''}",
                 "qclib raised on a valid isometry: " + res["raised"], replay_dict(job, {"traceback": res.get("tb")}))
        return
    ctx.assumption_checks += res["n_kernel"]
    if res["schur_err"] > 1e-8:
        ctx.fail(f"assumption:schur-orthonormal:n={n}:m={m}:{fam}",
                 f"_orthonormal_eig: eigenvectors not orthonormal / not eigenvectors / |lambda| != 1 by {res['schur_err']:.2e} "
                 "(the hypothesis of C03_knill)", replay_dict(job), kind="assumption")
    if res["ext_err"] > 1e-8:
        ctx.fail(f"assumption:extend-unitary:n={n}:m={m}:{fam}",
                 f"_extend_to_unitary: [V | conj(null(V^T))] not unitary or does not start with V, by {res['ext_err']:.2e}",
                 replay_dict(job), kind="assumption")
    if res["lemma2_err"] > 1e-8:
        ctx.fail(f"assumption:lemma2:n={n}:m={m}:{fam}", f"_unitary not unitary / does not map to e_basis by {res['lemma2_err']:.2e}",
                 replay_dict(job), kind="assumption")
    if res["cs_err"] > 1e-8 or res["eig_err"] > 1e-6:
        ctx.fail(f"assumption:unitary-kernels:n={n}:m={m}:{fam}", f"cossin {res['cs_err']:.2e} demux {res['eig_err']:.2e}",
                 replay_dict(job), kind="assumption")
    if res["a2_raised"]:
        ctx.count("a2-fallback-taken")
    if res["width"] != n:
        ctx.fail(f"isometry-width:{scheme}:n={n}:m={m}", f"circuit has {res['width']} qubits", replay_dict(job))
    elif res["err"] > TOL and res["err"] <= 1e-4 and run_job(job, disable_a2=True).get("err", 1.0) <= TOL:
        defer_fail(ctx, f"isometry-a2-precision:{scheme}:n={n}:m={m}:{fam}",
                 f"precision loss caused by qiskit's A.2 two-qubit re-synthesis inside qclib.unitary.unitary(apply_a2=True): "
                 f"max |Operator[:, :2^m] - V| = {res['err']:.3e}; <= 1e-7 with the pass disabled",
                 replay_dict(job, {"observed_err": res["err"]}))
    elif res["err"] > TOL and fam == ALLCLOSE_PROBE_FAMILY and scheme == "ccd" and res["err"] <= 1e-5:
        ctx.count("allclose-merge")
        ctx.fail(f"isometry-allclose-merge:{scheme}:n={n}:m={m}:delta=3e-6",
                 f"max |Operator(circuit)[:, :2^m] - V| = {res['err']:.3e}: two sibling multiplexer blocks 3e-6 apart are merged by "
                 "np.allclose (rtol 1e-5) in qiskit's UCGate._simplify; 3e-5 apart (family allclose@3e-05) the result is exact",
                 replay_dict(job, {"observed_err": res["err"]}))
    elif res["err"] > TOL:
        ctx.fail(key, f"max |Operator(circuit)[:, :2^m] - V| = {res['err']:.3e}", replay_dict(job, {"observed_err": res["err"]}))
    else:
        ctx.ok(key, nontrivial=n >= 2, sample={"n": n, "m": m, "family": fam, "scheme": scheme, "err": res["err"]})


def oracle_jobs(ctx, nmax, reps):
    jobs = []
    for n in range(1, nmax + 1):
        for m in range(0, n + 1):
            for fam in FAMILIES:
                rr = reps if fam in ("haar", "real_orthogonal", "tensor", "block_equal", "block_diff", "permutation",
                                     "identity_columns", "real_signed", "tensor_id") and n <= 4 else 1
                if n >= 6 and fam not in ("haar", "hadamard", "identity", "block_equal", "permutation", "tensor_id", "qft"):
                    continue
                for _ in range(rr):
                    seed = ctx.rng.getrandbits(32)
                    for scheme in ("ccd", "csd", "knill"):
                        if scheme == "knill" and n < 2:
                            continue
                        jobs.append(("iso", n, m, fam, seed, scheme, False))
                        if m == 0 and fam in ("haar", "real_signed", "identity"):
                            jobs.append(("iso", n, m, fam, seed, scheme, True))
    return jobs


ALLCLOSE_PROBE_FAMILY = "allclose@3e-06"


def boundary_jobs(ctx):
    """Inputs next to the float thresholds of isometry.py / unitary.py / ucr.py and of the qiskit kernels they call (the size
    and index boundaries - every (n, m) with m = 0, 1, n-1, n, n = 1 without controls, Knill from n = 2, 1-D vectors - are AT and
    one off in oracle_jobs already; _k_s/_b conditions are tied for every (k, i))."""
    jobs = []

    def seed():
        return ctx.rng.getrandbits(32)

    # Knill: `abs(arg[i]) > 1e-7` - an eigenphase a factor 3 below (term skipped: error 3e-8), 3 above, and at 1e-6
    for n in (2, 3):
        for phi in (3e-8, 3e-7, 1e-6):
            sd = seed()
            for scheme in ("knill", "csd", "ccd"):
                jobs.append(("iso", n, n, f"eigphase@{phi:g}", sd, scheme, False))
            ctx.count(f"boundary:knill-eigenphase-vs-1e-7:{phi:g}")
    # Lemma 2: `iso_norm != 0.0` - sibling rows tiny but not zero
    for n in (2, 3):
        for e in (1e-12, 3e-9):
            for m in range(0, n + 1):
                sd = seed()
                for scheme in ("ccd", "csd", "knill"):
                    jobs.append(("iso", n, m, f"tiny_rows@{e:g}", sd, scheme, False))
            ctx.count(f"boundary:lemma2-pair-tiny-nonzero:{e:g}")
    # fixed input on which qiskit's UCGate synthesis yields a factor it rejects itself (rows of magnitude 1e-17)
    jobs.append(("iso", 3, 2, "tiny_rows@3e-09", 7, "ccd", False))
    # a pair with subnormal squares (fixed literals; the key is decompose-subnormal-pair:* when the code raises)
    for n in (2, 3):
        for scheme in ("ccd", "csd", "knill"):
            jobs.append(("iso", n, 0, "subnormal_pair", 0, scheme, False))
        ctx.count("boundary:lemma2-pair-with-subnormal-squares")
    # sibling multiplexer blocks next to the np.allclose merge of UCGate._simplify (ccd): negligible / probe / outside
    for n in (2, 3):
        for delta in (3e-9, 3e-5):
            for m in (0, 1):
                jobs.append(("iso", n, m, f"allclose@{delta:g}", seed(), "ccd", False))
            ctx.count(f"boundary:allclose-rtol:{delta:g}")
        jobs.append(("iso", n, 0, ALLCLOSE_PROBE_FAMILY, seed(), "ccd", False))
        ctx.count("boundary:allclose-rtol:3e-06(finding-probe)")
    # csd scheme = unitary 'qsd' in isometry mode: eigenvalue cluster of the demultiplexing step, ucr angle cut
    for fam in ("block_near_equal@1e-09", "block_near_equal@1e-07", "block_near_equal@1e-05", "cs_tiny@3e-09", "cs_tiny@3e-08",
                "cs_tiny@1e-06"):
        sd = seed()
        for m in (2, 3):
            jobs.append(("iso", 3, m, fam, sd, "csd", False))
        ctx.count("boundary:csd:" + fam)
    return jobs


def probe_fixed(ctx):
    """The inputs of the fixed findings F-C03-1 / F-C03-2 and of the known findings (A.2 precision:
    decompose(H^{(x)4}[:, :8], 'knill'); qiskit UCGate synthesis raising: decompose(H^{(x)6}, 'ccd')), on every run."""
    jobs = [("iso", 2, 2, "hadamard", 0, "knill", False), ("iso", 3, 1, "hadamard", 0, "csd", False),
            ("iso", 3, 3, "hadamard", 0, "knill", False), ("iso", 4, 2, "hadamard", 0, "csd", False),
            ("iso", 4, 3, "hadamard", 0, "knill", False), ("iso", 6, 6, "hadamard", 0, "ccd", False)]
    for job in jobs:
        judge(ctx, job, run_job(job))
    # fix 9d45b9d: the estimate accepts a 1-D state vector for every scheme
    import numpy as np
    import qclib.isometry as qi
    v = make_isometry("haar", 3, 0, 5)[:, 0]
    for scheme in ("ccd", "csd", "knill"):
        key = f"cnot_count-1d-vector:{scheme}"
        try:
            c = qi.cnot_count(v, scheme, "estimate")
            ctx.ok(key, nontrivial=False) if c >= 0 else ctx.fail(key, f"negative count {c}")
        except Exception as e:  # noqa: BLE001
            ctx.fail(key, f"cnot_count(vector_1d, {scheme!r}, 'estimate') raised {type(e).__name__}: {e}",
                     {"call": f"qclib.isometry.cnot_count(v8, {scheme!r}, 'estimate')"})
    # validation: invalid shapes are rejected (C16 owns the full list; here only what decompose's own check covers)
    for name, m in (("non-orthonormal", np.ones((4, 2)) / 2.0), ("wide", np.eye(2)[:1, :]), ("3-rows", np.eye(3)[:, :2]),
                    ("3-columns", np.eye(4)[:, :3])):
        key = f"decompose-accepts-invalid:{name}"
        try:
            qi.decompose(np.asarray(m, dtype=complex), "ccd")
        except ValueError:
            ctx.ok(key, nontrivial=False)
        except Exception as e:  # noqa: BLE001
            ctx.fail(key, f"raised {type(e).__name__} instead of ValueError: {e}", {"call": f"decompose({name})"})
        else:
            ctx.fail(key, "decompose() returned a circuit for an invalid matrix", {"call": f"decompose({name})"})


# ---------------------------------------------------------------------------------------------------
# branch coverage of the anchored sources (tools/branch_audit.py C03)
# ---------------------------------------------------------------------------------------------------

UNREACHED_JUSTIFIED = {
    "qclib/isometry.py:341-353,_cnot_count_estimate*:411->398,430-433,440-441": "cnot_count and its estimates: property C10 (C03 only probes that the estimate accepts a 1-D vector, fix 9d45b9d)",
    "qclib/unitary.py:40-47": "validation raises of unitary(): the matrix handed over by _csd is the unitary extension (checked per call: assumption:extend-unitary); rejection is property C16",
    "qclib/unitary.py:50->59": "apply_a2=False / decomposition != 'qsd': isometry._csd always calls unitary(.., 'qsd', iso, apply_a2=True); property C02",
    "qclib/unitary.py:104-105,115-122,_csd,_multiplexed_csd,_qrd,_build_qr_*,_get_row_col,_row_and_col_qubits,_apply_mcxs,_apply_cx,_undo_mcxs,_append_mcmt_gate": "decompositions 'csd' and 'qr' of qclib.unitary are never selected by qclib.isometry (scheme 'csd' of the isometry IS unitary's 'qsd' in isometry mode); property C02",
    "qclib/unitary.py:225-296": "cnot_count of qclib.unitary: property C10",
}


def probe_call_forms(ctx):
    """decompose() called without `scheme` (documented default 'ccd'), with keyword arguments, with integer / real dtypes
    (`isometry.astype(complex)`), and the documented rejection of Knill on one qubit."""
    import numpy as np
    import qclib.isometry as qi
    from qiskit.quantum_info import Operator
    cases = []
    for n in (1, 2, 3):
        for m in range(0, n + 1):
            seed = ctx.rng.getrandbits(32)
            fam = ctx.rng.choice(["haar", "real_signed", "hadamard", "identity_columns"])
            v = make_isometry(fam, n, m, seed)
            cases.append((n, m, fam, seed, "default-scheme", "ccd", lambda q, v=v: q.decompose(v.copy())))
            sch = ctx.rng.choice(["ccd", "csd"] + (["knill"] if n >= 2 else []))
            cases.append((n, m, fam, seed, "keywords", sch, lambda q, v=v, sch=sch: q.decompose(isometry=v.copy(), scheme=sch)))
            seed2 = ctx.rng.getrandbits(32)
            rng = np.random.default_rng(seed2)
            vi = np.eye(2 ** n, dtype=int)[:, rng.permutation(2 ** n)[: 2 ** m]] * rng.choice([1, -1], 2 ** m)
            sch2 = ctx.rng.choice(["ccd", "csd"] + (["knill"] if n >= 2 else []))
            cases.append((n, m, "int-dtype-columns", seed2, "int-dtype", sch2, (lambda q, vi=vi, sch2=sch2: q.decompose(vi.copy(), sch2)), vi))
    for case in cases:
        n, m, fam, seed, form, scheme, call = case[:7]
        v = case[7] if len(case) > 7 else make_isometry(fam, n, m, seed)
        key = f"isometry-form:{form}:{scheme}:n={n}:m={m}:{fam}"
        rep = {"call": f"qclib.isometry.decompose, form {form!r}", "n": n, "m": m, "family": fam, "seed": seed, "scheme": scheme,
               "form": form, "how": "see tools/props/c03.py::probe_call_forms"}
        ctx.count(f"branch:call-form:{form}")
        rec = []
        try:
            with instrumented(rec) as q:
                circ = call(q)
        except Exception as e:  # noqa: BLE001
            ctx.fail(f"decompose-raises:{scheme}:{form}:n={n}:m={m}", f"qclib raised on a valid isometry ({fam}): {type(e).__name__}: {e}", rep)
            continue
        err = float(np.abs(Operator(circ).data[:, : 2 ** m] - np.asarray(v).reshape(2 ** n, -1)).max()) if circ.num_qubits == n else float("inf")
        if form == "default-scheme" and sum(1 for r in rec if r[0] == "g_k-begin") != 2 ** m:
            ctx.fail(key + ":scheme", "decompose(V) without `scheme` did not run the column-by-column sweep (documented default 'ccd')", rep)
        elif err > TOL:
            ctx.fail(key, f"max |Operator(circuit)[:, :2^m] - V| = {err:.3e}", rep)
        else:
            ctx.ok(key, nontrivial=n >= 2, sample={"n": n, "m": m, "family": fam, "scheme": scheme, "form": form, "err": err})
    # Knill on one qubit is rejected by design (docstring: n >= 2; explicit ValueError at isometry.py:104-105)
    for m in (0, 1):
        key = f"decompose-knill-one-qubit-rejected:m={m}"
        ctx.count("branch:knill-n=1-rejected")
        try:
            qi.decompose(make_isometry("haar", 1, m, 3), "knill")
        except ValueError:
            ctx.ok(key, nontrivial=False)
        except Exception as e:  # noqa: BLE001
            ctx.fail(key, f"raised {type(e).__name__} instead of the documented ValueError: {e}", {"call": "decompose(2 x %d, 'knill')" % 2 ** m})
        else:
            ctx.fail(key, "decompose(.., 'knill') on one qubit returned a circuit (the code documents a ValueError)",
                     {"call": "decompose(2 x %d, 'knill')" % 2 ** m})
    ctx.notes.append("decompose() needs an ndarray (first statement `isometry.astype(complex)`; annotation np.ndarray although the "
                     "docstring says 'isometry (list)'): a nested list raises AttributeError - treated as outside the domain")


def run(ctx):
    run_tie(ctx)
    probe_fixed(ctx)
    probe_call_forms(ctx)
    jobs = oracle_jobs(ctx, 5 if ctx.quick else 6, 2 if ctx.quick else 3) + boundary_jobs(ctx)
    for job, res in zip(jobs, run_jobs(jobs)):
        judge(ctx, job, res)
    flush_deferred(ctx)
    ctx.notes.append("Knill is exercised for n>=2 only (the code rejects n=1); tolerances: operator 1e-7, kernel specs 1e-8")
    ctx.notes.append("boundary families: eigphase@phi (eigenphases 3e-8 / 3e-7 / 1e-6 around Knill's 1e-7 cut, m = n), tiny_rows@e (pairs "
                     "handed to Lemma 2 tiny but not zero), allclose@delta (sibling blocks 3e-9 / 3e-5 apart: either side of the np.allclose "
                     "merge of qiskit's UCGate._simplify; 3e-6 apart is the known merge, keys isometry-allclose-merge:*), and C02's "
                     "block_near_equal@eps / cs_tiny@t through the csd scheme")


def search(ctx, hints):
    probe_fixed(ctx)
    jobs = oracle_jobs(ctx, 5, 2)
    for job, res in zip(jobs, run_jobs(jobs)):
        judge(ctx, job, res)
    flush_deferred(ctx)


def replay(ctx, payload):
    r = payload["replay"]
    if r.get("form"):
        probe_call_forms(ctx)
        return
    job = ("iso", r["n"], r["m"], r["family"], r["seed"], r["scheme"], r.get("as_1d_vector", False))
    judge(ctx, job, run_job(job))
    flush_deferred(ctx)
