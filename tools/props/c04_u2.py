"""C04, part B: the U(2) multi-controlled gates Ldmcu, Qdmcu, Mcg, MCU (qclib/gates/ldmcu.py, qdmcu.py,
mcg.py, mcu.py, util.py::apply_ctrl_state).  Called from props/c04.py.

Tie (driver Drivers/C04U2.lean, model Model/Mcu2.lean):
  * the sorted pair schedule `_compute_qubit_pairs(n, step)` for every n up to 40;
  * the flattened gate *skeleton* of the real `definition` (pair order, gate kind, crx angle, root exponent and sign,
    wires, ctrl_state handling; for Qdmcu the fully expanded linear MCX and its inverse) for Ldmcu, Qdmcu, Mcg, MCU;
    a controlled root is identified as U^(s/p) by comparing its matrix with an independently computed (Schur) root of a
    generic U, so the line carries (p, s);
  * `MCU._get_num_base_ctrl_qubits` on a grid of (eigen-angles, error), and MCU's accept / reject decision.
Oracle: Operator(definition) versus the reference controlled-U (little-endian, pattern character j <-> control k-1-j) to
1e-7; MCU: spectral norm of the difference <= error whenever the constructor accepts.
Input-diversity pass (`diversity`, table above `div_conv`): element types of the matrix and of `error`, sign / phase
structure, call forms (static helpers on larger hosts with permuted qubit lists, gate objects appended twice / copied /
inverted, argument passing styles) and the sizes where they interact, each case a JSON-able spec that `replay` re-runs.
"""
import itertools
import math

import numpy as np

DRIVER = "Drivers/C04U2.lean"
THEOREMS = [
    "Qclib.C04_pairs",
    "Qclib.C04_ladder_diag_partial",
    "Qclib.C04_ladder_weights",
    "Qclib.C04_ladder_run_partial",
    "Qclib.C04_qdmcu_step",
    "Qclib.C04_qdmcu",
    "Qclib.C04_mcg_dispatch",
    "Qclib.C04_mcu_base",
    "Qclib.C04_mcu_error_partial",
    "Qclib.C04_mcu_operator",
    "Qclib.C04_mcu_degenerate",
    "Qclib.C04_mcu_error",
]
TRUSTED = [
    "the eigenbasis kernel (gates/util.py, complex Schur form) and the spectral formula of `_gate_u` / `custom_sqrtm` give "
    "the principal root U^(s/p) (each emitted root matrix is compared with an independently computed root on every run); "
    "np.linalg.eig / np.angle inside `_get_num_base_ctrl_qubits`",
    "qiskit crx, x, UnitaryGate, QuantumCircuit.control(1, ctrl_state), QuantumCircuit.inverse, little-endian Operator "
    "(convention pinned numerically each run)",
    "MultiTargetMCSU2 and Ldmcsu are opaque calls in the tie of this part (their correctness is part A of C04); in C04_mcu_operator / "
    "C04_mcu_error the multi-target RX call has the ideal meaning that C04_multitarget_spec proves for >= 2 controls",
    "LinearMcx(action_only=True) inside Qdmcu is the model of C05 (Model/Mcx.lean), expanded and diffed gate by gate",
]
ASSUMPTIONS = [
    "exact real/complex arithmetic in the theorems; the implementation is compared to 1e-7",
    "C04_qdmcu assumes an ideal multi-controlled X (C05's theorem for the exact LinearMcx; the action_only variant "
    "used by the code, with the real target as dirty ancilla, is covered by the Operator oracle only) and exact "
    "square roots V*V = U, V'*V = 1",
    "C04_ladder_diag_partial / C04_ladder_run_partial: exponent bookkeeping of the four sweeps and the gate-by-gate run of "
    "the sorted schedule under the classical-propagation semantics; the operator-level step (that semantics is the "
    "amplitude semantics on basis inputs: RX angles add, RX(pi) is -iX, roots of a diagonalised U multiply by adding "
    "exponents; linearity; ctrl_state X conjugation) is stated, not proved",
    "C04_mcu_error: l2 bound ||(circuit - C^k(U)) psi|| <= error ||psi|| for every state, given U = P diag(e^{i alpha}, e^{i beta}) P^dagger "
    "with P unitary, |alpha|,|beta| <= angle, and the exact real base count numBaseR angle error; float evaluation of "
    "log2/arccos/ceil in _get_num_base_ctrl_qubits is tied numerically (base count diffed on every accepted parameter set)",
]

TOL = 1e-7

# ------------------------------------------------------------------------------------------------
# reference objects (independent of qclib)
# ------------------------------------------------------------------------------------------------

X = np.array([[0, 1], [1, 0]], dtype=complex)
Y = np.array([[0, -1j], [1j, 0]], dtype=complex)
Z = np.diag([1, -1]).astype(complex)
H = np.array([[1, 1], [1, -1]], dtype=complex) / math.sqrt(2)
S = np.diag([1, 1j]).astype(complex)
T = np.diag([1, np.exp(0.25j * math.pi)]).astype(complex)
I2 = np.eye(2, dtype=complex)


def rx(t):
    return np.array([[math.cos(t / 2), -1j * math.sin(t / 2)], [-1j * math.sin(t / 2), math.cos(t / 2)]])


def ry(t):
    return np.array([[math.cos(t / 2), -math.sin(t / 2)], [math.sin(t / 2), math.cos(t / 2)]], dtype=complex)


def rz(t):
    return np.diag([np.exp(-0.5j * t), np.exp(0.5j * t)])


def haar_u2(rng):
    z = (rng.standard_normal((2, 2)) + 1j * rng.standard_normal((2, 2))) / math.sqrt(2)
    q, r = np.linalg.qr(z)
    d = np.diag(r)
    return q * (d / np.abs(d))


def to_su2(u):
    return u / np.sqrt(np.linalg.det(u))


def ideal(u, k, cs=None):
    """Reference controlled-U on wires 0..k-1 (controls) and k (target), qiskit little-endian: basis index =
    sum bit_q 2^q; ctrl_state character j is the required value of control k-1-j, i.e. int(cs, 2) has bit i =
    required value of control i."""
    dim = 2 ** (k + 1)
    m = np.eye(dim, dtype=complex)
    pat = int(cs, 2) if cs else 2 ** k - 1
    idx = [pat, pat + (1 << k)]
    m[np.ix_(idx, idx)] = u
    return m


def ref_root(u, p, s):
    """Principal root U^(s/p) of a 2x2 unitary through the complex Schur form (not through eig)."""
    from scipy.linalg import schur
    t, zz = schur(np.asarray(u, dtype=complex), output="complex")
    ang = np.angle(np.diag(t))
    return zz @ np.diag(np.exp(1j * ang * s / p)) @ zz.conj().T


def family(ctx, nprng):
    """(name, matrix) list: the matrix families of the property."""
    r = ctx.rng
    ph = r.uniform(0.2, 2.9)
    fam = [
        ("I", I2), ("-I", -I2), ("X", X), ("Z", Z), ("Y", Y), ("H", H), ("S", S), ("T", T),
        ("phaseI", np.exp(1j * ph) * I2), ("iI", 1j * I2),
        ("RX", rx(r.uniform(0.3, 6.0))), ("RY", ry(r.uniform(0.3, 6.0))), ("RZ", rz(r.uniform(0.3, 6.0))),
        ("RX-", rx(-r.uniform(0.3, 3.0))), ("P", np.diag([1, np.exp(1j * r.uniform(0.2, 3.0))])),
        ("iX", 1j * X), ("-iZ", -1j * Z),
        ("haarU2", haar_u2(nprng)), ("haarU2b", haar_u2(nprng)), ("haarSU2", to_su2(haar_u2(nprng))),
        ("phase*RY", np.exp(1j * r.uniform(0.3, 2.5)) * ry(r.uniform(0.3, 3.0))),
    ]
    return fam


def eig_gap(u):
    w = np.linalg.eigvals(u)
    return abs(w[0] - w[1])


# ------------------------------------------------------------------------------------------------
# skeleton of a real definition
# ------------------------------------------------------------------------------------------------

def _single_unitary(circ):
    """If `circ` (one qubit) consists, after expansion, of exactly one `unitary`, return its matrix."""
    from flatten import flatten
    gs = flatten(circ)
    if len(gs) == 1 and gs[0][0] == "unitary" and len(gs[0][2]) == 1:
        return np.asarray(gs[0][2][0])
    return None


def ident_root(m, u, maxlog=12):
    """(p, s) such that m = U^(s/p) to 1e-7, unique among p = 2^j, s = +-1 (the generic U of the tie makes all of
    them distinct); None if there is no or more than one match."""
    hits = []
    for j in range(maxlog + 1):
        for s in (1, -1):
            if np.abs(m - ref_root(u, 2 ** j, s)).max() < 1e-7:
                hits.append((2 ** j, s))
    return hits[0] if len(hits) == 1 else None


def rx_angle(m):
    m = np.asarray(m)
    th = 2 * math.atan2(-m[0, 1].imag, m[0, 0].real)
    if np.abs(m - rx(th)).max() > 1e-12:
        return None
    return th


class record_multi_target:
    """While active, `MultiTargetMCSU2.multi_target_mcsu2(circ, unitaries, controls, targets)` (which appends the
    anonymous `.definition` circuit) appends a marker gate carrying its arguments instead, so that the skeleton can
    keep the call opaque (its expansion is part A of C04).  Used for the tie only; the oracle runs the unpatched
    code."""

    def __enter__(self):
        from qiskit.circuit import Gate
        from qclib.gates.multitargetmcsu2 import MultiTargetMCSU2

        class Marker(Gate):
            def __init__(self, unitaries, nc, nt):
                super().__init__("mtmcsu2_marker", nc + nt, [])
                self.unitaries, self.nt = unitaries, nt

        def stub(circuit, unitary, controls, target, ctrl_state=None):
            if not isinstance(unitary, list):
                return self.orig(circuit, unitary, controls, target, ctrl_state)
            circuit.append(Marker(list(unitary), len(controls), len(target)),
                           [int(q) for q in controls] + [int(q) for q in target])

        self.cls = MultiTargetMCSU2
        self.orig = MultiTargetMCSU2.multi_target_mcsu2
        MultiTargetMCSU2.multi_target_mcsu2 = staticmethod(stub)
        return self

    def __exit__(self, *a):
        self.cls.multi_target_mcsu2 = staticmethod(self.orig)


def skeleton(circ, u, wires=None, out=None, shallow=False):
    """Lines `name wires ; params` of the real circuit: qclib composites expanded, controlled roots identified."""
    from flatten import PRIMITIVE, fmt_float
    from qiskit.circuit import ControlledGate
    from qclib.gates.ldmcu import Ldmcu
    from qclib.gates.ldmcsu import Ldmcsu
    from qclib.gates.multitargetmcsu2 import MultiTargetMCSU2
    from qclib.gates.mcg import Mcg
    if out is None:
        out = []
    if wires is None:
        wires = list(range(circ.num_qubits))
    if circ.global_phase:
        out.append(f"gphase ; {fmt_float(circ.global_phase)}")
    for inst in circ.data:
        op = inst.operation
        qs = [wires[circ.find_bit(q).index] for q in inst.qubits]
        w = " ".join(str(q) for q in qs)
        name = op.name
        if isinstance(op, MultiTargetMCSU2) or name == "mtmcsu2_marker":
            us = op.unitaries if isinstance(op.unitaries, list) else [op.unitaries]
            angs = [rx_angle(m) for m in us]
            nt = op.nt if name == "mtmcsu2_marker" else len(op.target)
            ps = " ".join("notRX" if a is None else fmt_float(a) for a in angs)
            out.append(f"mtmcsu2[{len(qs) - nt},{nt}] {w} ; {ps}")
        elif shallow and isinstance(op, Mcg):
            # nested Mcg of the up_to_diagonal branch: must carry U / det(U)^(1/2) (principal root)
            want = u * np.exp(-0.5j * np.angle(np.linalg.det(u)))
            good = np.abs(np.asarray(op.unitary) - want).max() < 1e-9 and not op.up_to_diagonal
            out.append(f"call[mcg:su2,{op.ctrl_state}] {w} ; " + ("1 1" if good else "? ?"))
        elif isinstance(op, Ldmcsu) or (shallow and isinstance(op, Ldmcu)):
            ps = ident_root(np.asarray(op.unitary), u, 0)
            out.append(f"call[{name},{op.ctrl_state}] {w} ; " + ("? ?" if ps is None else f"{ps[0]} {ps[1]}"))
        elif name in PRIMITIVE:
            cname = PRIMITIVE[name]
            cs = getattr(op, "ctrl_state", None)
            nctrl = getattr(op, "num_ctrl_qubits", 0)
            if nctrl and cs is not None and cs != (1 << nctrl) - 1:
                cname = f"{cname}[{cs:0{nctrl}b}]"
            out.append(f"{cname} {w} ; " + " ".join(fmt_float(p) for p in op.params))
        elif name == "unitary":
            ps = ident_root(np.asarray(op.params[0]), u)
            out.append(f"root {w} ; " + ("? ?" if ps is None else f"{ps[0]} {ps[1]}"))
        elif isinstance(op, ControlledGate) and op.num_ctrl_qubits == 1 and op.base_gate.definition is not None \
                and _single_unitary(op.base_gate.definition) is not None:
            ps = ident_root(_single_unitary(op.base_gate.definition), u)
            out.append(f"croot {w} ; {op.ctrl_state} " + ("? ?" if ps is None else f"{ps[0]} {ps[1]}"))
        elif op.definition is None:
            out.append(f"opaque:{name} {w} ;")
        else:
            skeleton(op.definition, u, qs, out, shallow)
    return out


# ------------------------------------------------------------------------------------------------
# real code
# ------------------------------------------------------------------------------------------------

def build(cls, u, k, cs=None, **kw):
    """`definition` of the real gate (construction + lazy `_define`)."""
    from qclib.gates.ldmcu import Ldmcu
    from qclib.gates.qdmcu import Qdmcu
    from qclib.gates.mcg import Mcg
    from qclib.gates.mcu import MCU
    if cls == "ldmcu":
        return Ldmcu(u, k, ctrl_state=cs).definition
    if cls == "qdmcu":
        return Qdmcu(u, k, ctrl_state=cs).definition
    if cls == "mcg":
        return Mcg(u, k, ctrl_state=cs, up_to_diagonal=kw.get("utd", False)).definition
    if cls == "mcu":
        return MCU(u, k, kw["error"], ctrl_state=cs).definition
    raise KeyError(cls)


SU2_REL_TOL = 1e-9      # cmath.isclose(det, 1.0): |det - 1| <= 1e-9 * max(|det|, 1)


def is_su2(u):
    """The dispatch test of Mcg (`check_su2`), computed independently of qclib so that the tie and the reference notice
    a moved threshold.  Generated determinants keep |det - 1| outside (3.3e-10, 3e-9)."""
    d = complex(np.linalg.det(np.asarray(u, dtype=complex)))
    return abs(d - 1.0) <= SU2_REL_TOL * max(abs(d), 1.0)


def tie_u(nprng):
    """A generic U(2) for the skeleton tie: eigen-angles well inside (-pi, pi), well separated, so that all the
    roots U^(+-1/2^j), j <= 12, are pairwise distinguishable at 1e-7."""
    while True:
        u = haar_u2(nprng)
        a = np.angle(np.linalg.eigvals(u))
        if min(abs(a)) > 0.3 and max(abs(a)) < 2.8 and abs(abs(a[0]) - abs(a[1])) > 0.3 and abs(np.linalg.det(u) - 1) > 0.05:
            return u


def patterns(ctx, k, every):
    if every:
        return [None] + ["".join(p) for p in itertools.product("01", repeat=k)]
    r = ctx.rng
    pats = {None, "0" * k, "1" * (k - 1) + "0", "0" + "1" * (k - 1)}
    for _ in range(2):
        pats.add("".join(r.choice("01") for _ in range(k)))
    return sorted(pats, key=lambda s: (s is not None, s))


def tie_gate(ctx, cls, u, k, cs, **kw):
    op = {"op": cls, "k": k, "cs": cs}
    shallow = cls == "mcg"
    if cls == "mcg":
        op["su2"] = is_su2(u)
        op["utd"] = bool(kw.get("utd", False))
    try:
        circ = build(cls, u, k, cs, **kw)
        lines = skeleton(circ, u, shallow=shallow)
    except IndexError:
        lines = ["REJECT"]
    ctx.tie(op, lines, label=f"{cls} skeleton k={k} cs={cs} {kw or ''}", driver=DRIVER)
    ctx.count("tie:" + cls)
    if cls == "qdmcu" and lines != ["REJECT"]:
        # the controlled roots alone versus the literal bookkeeping of the ideal recursion (Spec `qdIdeal`/`qdLits`)
        ctx.tie({"op": "qdcroots", "k": k, "cs": cs}, [l for l in lines if l.startswith("croot")],
                label=f"qdmcu controlled roots vs qdLits k={k} cs={cs}", driver=DRIVER)


def tie_pairs(ctx, nmax):
    from qclib.gates.mcu import MCU
    for n in range(0, nmax + 1):
        for step in (1, -1):
            got = MCU._compute_qubit_pairs(n, step)
            ctx.tie({"op": "pairs", "n": n, "fwd": step == 1}, [f"{p.control} {p.target}" for p in got],
                    label=f"_compute_qubit_pairs({n},{step})", driver=DRIVER,
                    compare=lambda op, impl, model: None if impl == model else f"impl={impl[:12]} model={model[:12]}")


def num_base_real(u, err):
    """('b', value) or ('raise', exception name) of the real `_get_num_base_ctrl_qubits`."""
    import warnings
    from qclib.gates.mcu import MCU
    with warnings.catch_warnings():
        warnings.simplefilter("ignore")
        try:
            return f"b {int(MCU._get_num_base_ctrl_qubits(u, err))}"
        except (ValueError, OverflowError) as e:
            return f"raise {type(e).__name__}"


def tie_numbase(ctx, nprng):
    """`_get_num_base_ctrl_qubits` on a grid.  The eigen-angles are taken from the same np.linalg.eig call the code
    makes (K4); points where log2(quotient) is within 1e-9 of an integer are skipped (float ceil is discontinuous
    there) and named in a note."""
    r = ctx.rng
    mats = [X, Z, Y, H, S, T, I2, -I2]
    mats += [np.diag([1, np.exp(1j * a)]) for a in (0.01, 0.1, 0.5, 1.0, 2.0, 3.0, -0.4)]
    mats += [haar_u2(nprng) for _ in range(10 if ctx.quick else 40)]
    errs = [0.9, 0.5, 0.25, 0.1, 0.03, 0.01, 1e-3, 1e-4] + [r.uniform(0.001, 0.999) for _ in range(4 if ctx.quick else 12)]
    skipped = 0
    for u in mats:
        ang = np.angle(np.linalg.eig(u)[0])
        for e in errs:
            sel = ang[0] if (1 - math.cos(ang[0])) >= (1 - math.cos(ang[1])) else ang[1]
            if sel > 0:
                lg = math.log2(sel / math.acos(1 - e * e / 2))
                if abs(lg - round(lg)) < 1e-9:
                    skipped += 1
                    continue
            if abs((1 - math.cos(ang[0])) - (1 - math.cos(ang[1]))) < 1e-12 and abs(ang[0] - ang[1]) > 1e-12:
                skipped += 1      # tie of the angle choice decided by float noise
                continue
            ctx.tie({"op": "numbase", "a0": float(ang[0]), "a1": float(ang[1]), "err": float(e)},
                    [num_base_real(u, e)], label="num_base", driver=DRIVER,
                    compare=lambda op, impl, model: None if impl == model else f"impl={impl} model={model}")
            ctx.count("tie:numbase")
    if skipped:
        ctx.notes.append(f"c04_u2: {skipped} num_base grid points skipped (log2 quotient within 1e-9 of an integer or "
                         f"angle-choice tie)")


def error_for_base(angle, b):
    """An error for which the least admissible base count of eigen-angle `angle` is b (mid-band)."""
    theta = 1.5 * angle / 2 ** (b - 1)
    if theta >= math.pi:
        return None
    return 2 * math.sin(theta / 2)


def mcu_cases(ctx, kmax):
    """(u, k, error, expected b) covering every base count 1..k for k <= kmax, plus rejections."""
    r = ctx.rng
    cases = []
    for k in range(1, kmax + 1):
        for b in range(1, k + 2):
            phi = r.uniform(0.3, 3.0)
            e = error_for_base(phi, b)
            if e is None or not 0 < e < 1:
                phi = r.uniform(0.05, 0.2) if b <= 2 else r.uniform(0.3, 3.0)
                e = error_for_base(phi, b)
            if e is None or not 0 < e < 1:
                continue
            u = np.diag([1, np.exp(1j * phi)]) if r.random() < 0.5 else np.diag([np.exp(0.3j * phi), np.exp(1j * phi)])
            cases.append((u, k, e, b))
    return cases


def tie_mcu(ctx, u, k, err, cs):
    import warnings
    from qclib.gates.mcu import MCU
    with warnings.catch_warnings():
        warnings.simplefilter("ignore")
        bs = num_base_real(u, err)
    if not bs.startswith("b "):
        return None
    b = int(bs[2:])
    try:
        g = MCU(u, k, err, ctrl_state=cs)
        with record_multi_target():
            lines = skeleton(g.definition, u)
        acc = True
    except (ValueError, IndexError):
        lines, acc = ["REJECT"], False
    ctx.tie({"op": "mcu", "k": k, "b": b, "cs": cs}, lines, label=f"mcu skeleton k={k} b={b} cs={cs}", driver=DRIVER)
    ctx.count("tie:mcu:" + ("accept" if acc else "reject"))
    return acc


# ------------------------------------------------------------------------------------------------
# oracle
# ------------------------------------------------------------------------------------------------

def rep(cls, u, k, cs, **kw):
    d = {"part": "u2", "call": cls, "k": k, "ctrl_state": cs,
         "unitary_re": np.real(u).tolist(), "unitary_im": np.imag(u).tolist()}
    d.update(kw)
    return d


def eval_exact(task):
    """Worker (no ctx): Operator(definition) versus the ideal controlled-U."""
    import warnings
    from qiskit.quantum_info import Operator
    cls, uname, u, k, cs, kw = task
    u = np.asarray(u, dtype=complex)
    ref_u = u
    if cls == "mcg" and kw.get("utd") and k >= 2 and not is_su2(u):
        # up_to_diagonal: the exact-operator claim does not apply; the construction must be the controlled
        # U / det(U)^(1/2) (principal root), i.e. controlled-U up to the dropped phase
        ref_u = u * np.exp(-0.5j * np.angle(np.linalg.det(u)))
    try:
        with warnings.catch_warnings():
            warnings.simplefilter("ignore")
            circ = build(cls, u, k, cs, **kw)
            if kw.get("state"):
                return {"exc": None, "err": state_error(circ, ref_u, k, cs)}
            op = Operator(circ).data
    except Exception as e:  # construction must never fail on a valid input
        return {"exc": f"{type(e).__name__}: {str(e)[:200]}"}
    return {"exc": None, "err": float(np.abs(op - ideal(ref_u, k, cs)).max())}


def state_error(circ, u, k, cs, reps=2):
    """Cheap form of the Operator oracle for the boundary sizes k >= 8: the definition applied to dense pseudo-random
    states (fixed by k and the pattern) versus the ideal controlled-U applied to the same states, sup-norm rescaled by
    sqrt(dimension) so that the 1e-7 tolerance keeps its meaning."""
    from qiskit.quantum_info import Statevector
    if circ.num_qubits != k + 1:
        return float("inf")
    dim = 2 ** (k + 1)
    pat = int(cs, 2) if cs else 2 ** k - 1
    idx = [pat, pat + (1 << k)]
    g = np.random.default_rng(1009 * k + pat)
    worst = 0.0
    for _ in range(reps):
        psi = g.standard_normal(dim) + 1j * g.standard_normal(dim)
        psi /= np.linalg.norm(psi)
        ref = psi.copy()
        ref[idx] = u @ psi[idx]
        got = Statevector(psi).evolve(circ).data
        worst = max(worst, float(np.abs(got - ref).max()) * math.sqrt(dim))
    return worst


def imag_dust(su):
    """Region of the SU(2) branch selection of Ldmcsu: a real rotation whose entries carry float dust in the imaginary
    parts (all |Im| < 1e-15) so that NEITHER diagonal is exactly real (`isclose(x.imag, 0.0)` has no absolute tolerance):
    the code then takes the eigenbasis path with a degenerate |a| = |b| eigenvector normalisation."""
    su = np.asarray(su, dtype=complex)
    if float(np.abs(su.imag).max()) >= 1e-15:
        return False
    main_real = su[0, 0].imag == 0 and su[1, 1].imag == 0
    sec_real = su[0, 1].imag == 0 and su[1, 0].imag == 0
    return not main_real and not sec_real


def su2_handed_to_ldmcsu(cls, u, k, kw):
    """The SU(2) matrix Mcg passes on to Ldmcsu (k >= 2), else None."""
    if cls != "mcg" or k < 2:
        return None
    if is_su2(u):
        return u
    if kw.get("utd"):
        from qclib.gates.util import u2_to_su2
        return u2_to_su2(u)[0]
    return None


def record_exact(ctx, task, res):
    cls, uname, u, k, cs, kw = task
    u = np.asarray(u, dtype=complex)
    tag = "su2" if (cls == "mcg" and is_su2(u)) else "u2"
    if kw.get("utd"):
        tag += ":up_to_diagonal"
    key = f"u2:{cls}:{tag}:{uname}:k={k}:cs={cs}"
    su = su2_handed_to_ldmcsu(cls, u, k, kw)
    if su is not None and imag_dust(su):
        ctx.count("region:imag-dust")
        key = f"u2:imag-dust:{cls}:{tag}:{uname}:k={k}:cs={cs}"
    if res["exc"] is not None:
        ctx.fail(f"u2:{cls}:{tag}:{uname}:raises", f"{cls}({uname}, k={k}, ctrl_state={cs}) raises {res['exc']}",
                 rep(cls, u, k, cs, uname=uname, **kw))
        return
    ctx.count(f"oracle:{cls}")
    if not res["err"] <= TOL:
        ctx.fail(key, f"max |Operator - controlled-U| = {res['err']:.3e}",
                 rep(cls, u, k, cs, uname=uname, observed=res["err"], **kw))
    else:
        ctx.ok(key, nontrivial=k >= 1, sample={"gate": cls, "U": uname, "k": k, "ctrl_state": cs, "err": res["err"]})


def oracle_exact(ctx, cls, uname, u, k, cs, **kw):
    """Operator(definition) == ideal controlled-U to 1e-7 (in-process)."""
    task = (cls, uname, u, k, cs, kw)
    record_exact(ctx, task, eval_exact(task))


def eval_mcu(task):
    """Worker: MCU accept / reject, and the spectral norm of Operator - ideal when accepted."""
    import warnings
    from qiskit.quantum_info import Operator
    from qclib.gates.mcu import MCU
    uname, u, k, err, cs = task
    u = np.asarray(u, dtype=complex)
    with warnings.catch_warnings():
        warnings.simplefilter("ignore")
        try:
            g = MCU(u, k, err, ctrl_state=cs)
        except (ValueError, OverflowError):
            return {"accepted": False}
        try:
            op = Operator(g.definition).data
        except Exception as e:
            return {"accepted": True, "exc": f"{type(e).__name__}: {str(e)[:200]}", "b": int(g.n_ctrl_base)}
    d = op - ideal(u, k, cs)
    # spectral norm through the Hermitian eigenproblem of d^H d
    dist = float(math.sqrt(max(np.linalg.eigvalsh(d.conj().T @ d)[-1], 0.0)))
    return {"accepted": True, "exc": None, "dist": dist, "b": int(g.n_ctrl_base)}


def record_mcu(ctx, task, res):
    uname, u, k, err, cs = task
    u = np.asarray(u, dtype=complex)
    key = f"u2:mcu:{uname}:k={k}:err={err:.6g}:cs={cs}"
    if not res["accepted"]:
        ctx.count("oracle:mcu:rejected")
        return False
    if res["exc"] is not None:
        ctx.fail(f"u2:mcu:{uname}:accepted-but-raises", f"MCU({uname}, k={k}, error={err}, ctrl_state={cs}) accepted the "
                 f"parameters but building the definition raises {res['exc']}", rep("mcu", u, k, cs, uname=uname, error=err))
        return True
    ctx.count("oracle:mcu:accepted")
    if not res["dist"] <= err + TOL:
        ctx.fail(key, f"spectral norm {res['dist']:.6e} > error {err} (n_ctrl_base={res['b']})",
                 rep("mcu", u, k, cs, uname=uname, error=err, observed=res["dist"]))
    else:
        ctx.ok(key, nontrivial=res["b"] >= 2,
               sample={"gate": "mcu", "U": uname, "k": k, "error": err, "n_base": res["b"], "dist": res["dist"]})
    return True


def oracle_mcu(ctx, uname, u, k, err, cs):
    """||Operator - ideal||_2 <= error whenever the constructor accepts (in-process)."""
    task = (uname, u, k, err, cs)
    return record_mcu(ctx, task, eval_mcu(task))


def pool_map(fn, tasks):
    import multiprocessing as mp
    import os
    from concurrent.futures import ProcessPoolExecutor
    workers = int(os.environ.get("C04_WORKERS", "12"))
    if workers <= 1 or len(tasks) < 8:
        return [fn(t) for t in tasks]
    with ProcessPoolExecutor(max_workers=workers, mp_context=mp.get_context("fork")) as ex:
        return list(ex.map(fn, tasks, chunksize=4))


def conventions(ctx):
    """K4: qiskit's conventions the reference and the model rely on."""
    from qiskit import QuantumCircuit
    from qiskit.circuit.library import CRXGate, UnitaryGate
    from qiskit.quantum_info import Operator
    u = np.array([[0.6, -0.8j], [-0.8j, 0.6]]) * np.exp(0.3j)
    for k, cs in ((1, "0"), (2, "01"), (3, "011")):
        qc = QuantumCircuit(k + 1)
        qc.append(UnitaryGate(u).control(k, ctrl_state=cs), list(range(k + 1)))
        ctx.assumption_checks += 1
        if np.abs(Operator(qc).data - ideal(u, k, cs)).max() > 1e-12:
            ctx.fail("u2:assumption:little-endian-ctrl_state", f"reference convention k={k} cs={cs}", kind="assumption")
    for t in (0.7, -2.1):
        qc = QuantumCircuit(2)
        qc.append(CRXGate(t), [0, 1])
        ctx.assumption_checks += 1
        if np.abs(Operator(qc).data - ideal(rx(t), 1)).max() > 1e-12:
            ctx.fail("u2:assumption:crx-matrix", f"crx({t})", kind="assumption")


def known_probes(ctx):
    """Concrete inputs of the two defects this check found in /repo (both fixed there: 2e3ed1d, fd3d5c4), kept as
    regression probes with narrow keys."""
    from qiskit.quantum_info import Operator
    # (1) Mcg(up_to_diagonal=True) on a non-SU(2) matrix with >= 2 controls called the static `mcg` through `self`
    #     with shifted arguments and raised (fixed in /repo 2e3ed1d; kept as a regression probe: the result must be
    #     the ideal operator times a diagonal).
    u = np.diag([1, 1j]).astype(complex)
    key = "u2:mcg:up_to_diagonal:nonsu2:raises"
    try:
        op = Operator(build("mcg", u, 2, None, utd=True)).data
        ref = ideal(u * np.exp(-0.5j * np.angle(np.linalg.det(u))), 2)
        err = float(np.abs(op - ref).max())
        if err > TOL:
            ctx.fail("u2:mcg:up_to_diagonal:nonsu2:not-controlled-su2", f"max |Operator - controlled-(U/sqrt(det U))| = "
                     f"{err:.2e}", rep("mcg", u, 2, None, uname="S", utd=True, probe="known"))
        else:
            ctx.ok(key)
    except Exception as e:
        ctx.fail(key, f"Mcg(S, 2, up_to_diagonal=True).definition raises {type(e).__name__}: {str(e)[:160]}",
                 rep("mcg", u, 2, None, uname="S", utd=True, probe="known"))
    # (1b) imaginary float dust on a real rotation (found by the generator-quality audit, seed-dependent in the
    #      `phase*RY` family before): u2_to_su2(e^{ia} RY(t)) is RY(t) + O(1e-17) i on every entry; neither diagonal is
    #      then exactly real, Ldmcsu takes its eigenbasis path and builds a wrong operator.
    dusty = ry(0.5).astype(complex)
    dusty[0, 0] += 1e-17j
    dusty[1, 1] -= 1e-17j
    dusty[0, 1] += 1e-17j
    dusty[1, 0] += 1e-17j
    for key, cls, m, kw, ref_m in (
            ("u2:imag-dust:ldmcsu:RY(0.5)+1e-17i:k=2", "ldmcsu", dusty, {}, dusty),
            ("u2:imag-dust:mcg:up_to_diagonal:exp(0.4i)RY(0.5):k=2", "mcg", np.exp(0.4j) * ry(0.5), {"utd": True}, ry(0.5))):
        try:
            if cls == "ldmcsu":
                from qclib.gates.ldmcsu import Ldmcsu
                op = Operator(Ldmcsu(m, 2).definition).data
            else:
                op = Operator(build(cls, m, 2, None, **kw)).data
            err = float(np.abs(op - ideal(ref_m, 2)).max())
            if err > TOL:
                ctx.fail(key, f"max |Operator - controlled-U| = {err:.3e}: a real rotation with O(1e-17) imaginary dust on "
                              f"both diagonals is sent down the eigenbasis path of Ldmcsu (isclose(x.imag, 0.0) is an exact "
                              f"comparison)", rep(cls, m, 2, None, uname=key.split(":")[-2], probe="known", **kw))
            else:
                ctx.ok(key)
        except Exception as e:
            ctx.fail(key, f"raises {type(e).__name__}: {str(e)[:160]}", rep(cls, m, 2, None, uname="dust", probe="known", **kw))
    # (2) near-degenerate spectrum: np.linalg.eig returned non-orthogonal eigenvectors, the spectral formula of
    #     `_gate_u` / `custom_sqrtm` then yielded a non-unitary "root" and UnitaryGate raised.
    for uname, m in (("RX(1e-9)", rx(1e-9)), ("RX(0.7)RX(-0.7)", rx(0.7) @ rx(-0.7))):
        for cls in ("ldmcu", "qdmcu"):
            key = f"u2:{cls}:near-degenerate-eig:{uname}"
            try:
                op = Operator(build(cls, m, 2)).data
                err = float(np.abs(op - ideal(m, 2)).max())
                if err > TOL:
                    ctx.fail(key, f"max |Operator - controlled-U| = {err:.3e}", rep(cls, m, 2, None, uname=uname, probe="known"))
                else:
                    ctx.ok(key)
            except Exception as e:
                ctx.fail(key, f"{cls}({uname}, 2).definition raises {type(e).__name__}: {str(e)[:160]} "
                              f"(eigenvalue gap {eig_gap(m):.1e})", rep(cls, m, 2, None, uname=uname, probe="known"))


def entry_points(ctx, nprng):
    """Branches of mcu.py no class-level case takes (generator-quality audit):
    * the static `MCU.mcu(circuit, U, controls, target, error, ctrl_state)`: error == 0 appends the exact Ldmcu, any
      other error the approximate MCU (both tied to the model and compared with the ideal operator);
    * the instance wrapper `get_n_base` (must agree with the static `_get_num_base_ctrl_qubits`);
    * zero controls: `MCU(U, 0, error)` is accepted when the base count is negative (tiny eigen-angle, large error) and
      its definition is U itself on the target (`control_qubits = []` branch of __init__ and of _define)."""
    import warnings
    from qiskit import QuantumCircuit
    from qiskit.quantum_info import Operator
    from qclib.gates.mcu import MCU
    r = ctx.rng
    ut = tie_u(nprng)
    # --- static helper, error == 0 -> Ldmcu
    for k in (1, 3):
        cs = "".join(r.choice("01") for _ in range(k))
        key = f"u2:mcu.static:error=0:k={k}:cs={cs}"
        try:
            with warnings.catch_warnings():
                warnings.simplefilter("ignore")
                qc = QuantumCircuit(k + 1)
                MCU.mcu(qc, ut, list(qc.qubits[:k]), qc.qubits[k], 0, ctrl_state=cs)
                lines = skeleton(qc, ut)
                err = float(np.abs(Operator(qc).data - ideal(ut, k, cs)).max())
        except Exception as e:
            ctx.fail(key + ":raises", f"MCU.mcu(..., error=0, ctrl_state={cs}) raises {type(e).__name__}: {str(e)[:160]}",
                     rep("mcu.static", ut, k, cs, error=0, probe="entry-points"))
            continue
        ctx.count("branch:MCU.mcu:static:error=0")
        ctx.tie({"op": "ldmcu", "k": k, "cs": cs}, lines, label=f"MCU.mcu static error=0 k={k} cs={cs}", driver=DRIVER)
        if not err <= TOL:
            ctx.fail(key, f"max |Operator - controlled-U| = {err:.3e}", rep("mcu.static", ut, k, cs, error=0, probe="entry-points"))
        else:
            ctx.ok(key)
    # --- static helper, error > 0 -> MCU
    for k, b in ((3, 2), (4, 3)):
        phi = r.uniform(0.3, 3.0)
        e = error_for_base(phi, b)
        if e is None or not 0 < e < 1:
            phi = 0.4
            e = error_for_base(phi, b)
        u = np.diag([1, np.exp(1j * phi)])
        cs = "".join(r.choice("01") for _ in range(k))
        key = f"u2:mcu.static:approx:k={k}:b={b}:cs={cs}"
        try:
            with warnings.catch_warnings():
                warnings.simplefilter("ignore")
                qc = QuantumCircuit(k + 1)
                MCU.mcu(qc, u, list(qc.qubits[:k]), qc.qubits[k], e, ctrl_state=cs)
                d = Operator(qc).data - ideal(u, k, cs)
                dist = float(math.sqrt(max(np.linalg.eigvalsh(d.conj().T @ d)[-1], 0.0)))
                gate = qc.data[0].operation
                nb = int(gate.n_ctrl_base)
                wrap = int(gate.get_n_base(u, e))
                qt = QuantumCircuit(k + 1)
                with record_multi_target():
                    MCU.mcu(qt, u, list(qt.qubits[:k]), qt.qubits[k], e, ctrl_state=cs)
                    lines = skeleton(qt, u)
        except Exception as ex:
            ctx.fail(key + ":raises", f"MCU.mcu(..., error={e}, ctrl_state={cs}) raises {type(ex).__name__}: {str(ex)[:160]}",
                     rep("mcu.static", u, k, cs, error=e, probe="entry-points"))
            continue
        ctx.count("branch:MCU.mcu:static:approx")
        ctx.count("branch:MCU.get_n_base")
        ctx.tie({"op": "mcu", "k": k, "b": nb, "cs": cs}, lines, label=f"MCU.mcu static k={k} b={nb} cs={cs}", driver=DRIVER)
        if wrap != nb or nb != b:
            ctx.fail(f"u2:mcu.get_n_base:k={k}:b={b}", f"get_n_base = {wrap}, n_ctrl_base = {nb}, expected {b}",
                     rep("mcu.static", u, k, cs, error=e, probe="entry-points"))
        if not dist <= e + TOL:
            ctx.fail(key, f"spectral norm {dist:.6e} > error {e}", rep("mcu.static", u, k, cs, error=e, probe="entry-points"))
        else:
            ctx.ok(key)
    # --- zero controls, accepted (negative base count)
    for phi, e in ((0.01, 0.9), (r.uniform(0.005, 0.05), r.uniform(0.6, 0.95))):
        u = np.diag([1, np.exp(1j * phi)])
        key = f"u2:mcu:k=0:phi={phi:.4g}:err={e:.4g}"
        with warnings.catch_warnings():
            warnings.simplefilter("ignore")
            bs = num_base_real(u, e)
            try:
                g = MCU(u, 0, e)
            except ValueError:
                ctx.count("branch:MCU:k=0:rejected")
                ctx.tie({"op": "mcu", "k": 0, "b": int(bs[2:]), "cs": None}, ["REJECT"], label="mcu k=0 (rejected)", driver=DRIVER)
                continue
            try:
                lines = skeleton(g.definition, u)
                op = Operator(g.definition).data
            except Exception as ex:
                ctx.fail(key + ":raises", f"MCU(P({phi}), 0, {e}).definition raises {type(ex).__name__}: {str(ex)[:160]}",
                         rep("mcu", u, 0, None, error=e, probe="entry-points"))
                continue
        ctx.count("branch:MCU:k=0:accepted")
        ctx.tie({"op": "mcu", "k": 0, "b": int(g.n_ctrl_base), "cs": None}, lines, label=f"mcu k=0 b={g.n_ctrl_base}", driver=DRIVER)
        dist = float(np.abs(op - u).max()) if op.shape == (2, 2) else float("inf")
        if not dist <= TOL:
            ctx.fail(key, f"max |Operator(definition) - U| = {dist:.3e} at zero controls", rep("mcu", u, 0, None, error=e, probe="entry-points"))
        else:
            ctx.ok(key, nontrivial=False)
    # zero controls, base count >= 1: must be rejected ("too low")
    ctx.tie({"op": "mcu", "k": 0, "b": 2, "cs": None},
            ["REJECT"] if _mcu_rejects(np.diag([1, np.exp(1j)]), 0, error_for_base(1.0, 2)) else ["ACCEPTED"],
            label="mcu k=0 b=2 (must be rejected)", driver=DRIVER)


def _mcu_rejects(u, k, e):
    import warnings
    from qclib.gates.mcu import MCU
    with warnings.catch_warnings():
        warnings.simplefilter("ignore")
        try:
            MCU(u, k, e)
        except ValueError:
            return True
    return False


# ------------------------------------------------------------------------------------------------
# boundary-value pass
# ------------------------------------------------------------------------------------------------
#   qdmcu.py   num_ctrl == 1; recursion k -> k-1 with LinearMcx(j, action_only=True), j = k-1 .. 1, whose size branches
#              are num_qubits = j + 2 < 5, == 5, == 6, == 7, else (k_2 = ceil(nq/2), k_1 = j - k_2 + 1: nq = 8, 9, 10, 11
#              give (k_1, k_2) = (3,4), (3,5), (4,5), (4,6))                        k = 1..7 (run), 8, 9, 10 here
#   ldmcu.py   len(control_qubits) > 0; pair.control == 0; target == n_qubits - 1 and first
#                                                                                   k = 0..7 (run), 8, 9, 10 here
#   mcg.py     num_ctrl == 0 / == 1 / else; check_su2 = isclose(det, 1) (rel 1e-9); up_to_diagonal
#                                                                                   |det - 1| = 1e-10, 3e-10 | 3e-9, 1e-8,
#                                                                                   1e-6, 1e-4 at k = 2, 3 (here)
#   mcu.py     n_ctrl_base == 0, n_ctrl_base > num_controls, extra_q >= 1, pair.target == 1: (k, b) grid b = 1..k+1
#              (mcu_cases); ceil(log2(angle / acos(1 - e^2/2))) next to each integer (relative 1e-6 on both sides), then
#              k = b-1, b, b+1, b+2 with that tight error; `>=` of the eigen-angle choice at an exact tie (here)

def boundary(ctx, nprng):
    r = ctx.rng
    ut = tie_u(nprng)
    su = to_su2(haar_u2(nprng))
    tasks = []

    def mixed(k):
        return "".join("10"[(k - 1 - j) % 2] for j in range(k))

    # -- sizes beyond the generic sweep
    for k in (8, 9, 10):
        for cs in (None, mixed(k)):
            ctx.count("boundary:k=8..10 (LinearMcx 9..11 wires inside Qdmcu)")
            tie_gate(ctx, "ldmcu", ut, k, cs)
            tie_gate(ctx, "qdmcu", ut, k, cs)
            tie_gate(ctx, "mcg", ut, k, cs)
            tie_gate(ctx, "mcg", su, k, cs)
            tie_gate(ctx, "mcg", ut, k, cs, utd=True)
            for cls, nm, u, kw in (("ldmcu", "bv-tieU", ut, {}), ("qdmcu", "bv-tieU", ut, {}), ("mcg", "bv-tieU", ut, {}),
                                   ("mcg", "bv-su2", su, {}), ("mcg", "bv-tieU", ut, {"utd": True})):
                tasks.append((cls, nm, u, k, cs, dict(kw, state=True)))
    # -- determinant next to the isclose(det, 1) threshold of Mcg's dispatch
    base = to_su2(tie_u(nprng))
    for delta in (1e-10, 3e-10, 3e-9, 1e-8, 1e-6, 1e-4):
        u = np.exp(0.5j * delta) * base
        side = "su2-side" if delta < 1e-9 else "u2-side"
        for k in (2, 3):
            for utd in (False, True):
                cs = None if k == 2 else "010"
                ctx.count("boundary:mcg det threshold:" + side)
                tie_gate(ctx, "mcg", u, k, cs, utd=utd)
                tasks.append(("mcg", f"bv-det=exp({delta:g}i)", u, k, cs, {"utd": True} if utd else {}))
    for t, res in zip(tasks, pool_map(eval_exact, tasks)):
        record_exact(ctx, t, res)

    # -- base-control count next to the integers of log2(quotient); the whole gate at k = b-1 .. b+2 with that error
    mt = []
    cmpf = lambda op, impl, model: None if impl == model else f"impl={impl} model={model}"
    for j in (-2, -1, 0, 1, 2, 3, 4):
        for e in (0.2, 0.05) if j >= 2 else (0.9, 0.3):
            th = math.acos(1 - e * e / 2)
            for rel, b in ((1 - 1e-6, j + 1), (1 + 1e-6, j + 2)):
                ang = th * 2.0 ** j * rel
                if ang >= 3.1:
                    continue
                u = np.diag([1, np.exp(1j * ang)])
                a = np.angle(np.linalg.eig(u)[0])
                ctx.count("boundary:numbase ceil(log2)")
                got = num_base_real(u, e)
                ctx.tie({"op": "numbase", "a0": float(a[0]), "a1": float(a[1]), "err": float(e)}, [got],
                        label=f"num_base boundary j={j} rel={rel}", driver=DRIVER, compare=cmpf)
                if got != f"b {b}":
                    ctx.fail(f"u2:mcu:numbase-boundary:j={j}:e={e}:rel={rel}", f"_get_num_base_ctrl_qubits = {got}, expected b {b} "
                             f"(angle = acos(1 - e^2/2) * 2^{j} * {rel})", rep("mcu", u, max(b, 1), None, error=e))
                    continue
                if b >= 1:
                    for k in (b - 1, b, b + 1, b + 2):
                        if 1 <= k <= 8:
                            cs = None if (k + j) % 2 else mixed(k)
                            ctx.count(f"boundary:mcu k-b={k - b}")
                            tie_mcu(ctx, u, k, e, cs)
                            mt.append((f"bv-tight-b{b}", u, k, e, cs))
    for t, res in zip(mt, pool_map(eval_mcu, mt)):
        acc = record_mcu(ctx, t, res)
        b = int(t[0].split("b")[-1])
        if acc != (b <= t[2]):
            ctx.fail(f"u2:mcu:accept-boundary:{t[0]}:k={t[2]}", f"MCU accepted={acc} with n_ctrl_base = {b}, k = {t[2]}",
                     rep("mcu", t[1], t[2], t[4], error=t[3]))
    # -- exact tie of the eigen-angle choice `(1 - cos a0) >= (1 - cos a1)`: diagonal +-a (cos is even, eig of a diagonal
    #    matrix returns the diagonal): the first angle wins
    for a in (0.4, 1.3):
        for sgn in (1, -1):
            u = np.diag([np.exp(1j * sgn * a), np.exp(-1j * sgn * a)])
            ang = np.angle(np.linalg.eig(u)[0])
            if (1 - math.cos(ang[0])) != (1 - math.cos(ang[1])) or ang[0] != sgn * a:
                continue
            ctx.count("boundary:numbase angle tie")
            for e in (0.3, 0.05):
                ctx.tie({"op": "numbase", "a0": float(ang[0]), "a1": float(ang[1]), "err": e}, [num_base_real(u, e)],
                        label=f"num_base exact angle tie a0={ang[0]}", driver=DRIVER, compare=cmpf)


# ------------------------------------------------------------------------------------------------
# input-diversity pass
# ------------------------------------------------------------------------------------------------
# form x entry point -> where generated  (all in diversity_cases(); evaluated by div_eval() in the worker pool, recorded by
# div_record(); every case is a JSON-able spec, which is also its replay payload {"probe": "diversity", ...})
#
#   1 element types          Ldmcu / Qdmcu / Mcg / Mcg(up_to_diagonal) classes   div_etype_cases  k = 0..3 (+ static on a host)
#       int64 (X, Z, -I, I, [[0,-1],[1,0]]), float64 (H, RY, -RY, reflection: det -1, complex roots), float64 with -0.0,
#       float32 / complex64 exactly representable (X, Z, Y, S, sqrt X, iX) -> 1e-7; float32 / complex64 rounded (H, RY,
#       Haar) -> ValueError of check_u2 or 1e-5; complex128 with -0.0 real and imaginary zeros; ndarray built from numpy
#       scalars; Fortran order, strided view, read-only array; nested list / tuple / list of numpy scalars (the library
#       reads `.shape`: unsupported, counted); caller's array unchanged (bytes, dtype).
#                            MCU class and MCU.mcu                               div_mcu_cases    matrix int64 / f64 / f32 / c64 /
#       views, error as int 1, float, numpy float32 / float64 scalar; compared with the canonical complex128 + float build
#                            util.check_u2 / check_su2 / u2_to_su2               div_util_cases
#   2 scale structure        (a 2x2 unitary has no amplitude profile; the analogue - one entry of modulus 1e-3..1e-6, i.e.
#                             nearly diagonal / nearly anti-diagonal rotations - is in div_phase_cases "tinyRY", "nearX")
#   3 sign / phase           Ldmcu, Qdmcu, Mcg, Mcg(utd), MCU                    div_phase_cases
#       global phase -1, i, -i, e^{it} times I, X, Z, H, RY, RZ, RX, [[0,-1],[1,0]]; RX/RY/RZ at +-2pi, +-4pi, +-3pi,
#       +-(2pi + a), +-(4pi + a), 6pi - a (k rotating over 1..3, patterns None / random)
#   4 call forms             static Ldmcu.ldmcu / Qdmcu.qdmcu / Mcg.mcg / MCU.mcu(error = 0 and > 0)   div_static_cases
#       6-qubit hosts (one register; three registers in two orders), controls non-ascending, non-contiguous, target in
#       the middle; ints / Qubit list / tuple / QuantumRegister / register slice (also reversed); ctrl_state by keyword,
#       positionally, every argument by keyword, left out; observable = full host Operator vs the ideal embedded on the
#       listed qubits in the listed order (identity elsewhere); tied to the model with the host wires mapped back
#                            gate objects of all four classes                    div_object_cases
#       circuit.append on permuted host qubits, same object appended twice, copy() before .definition is read (both used),
#       inverse(), definition.to_gate() / to_instruction(), Mcg up_to_diagonal positionally / by keyword / alone,
#       constructors with every argument by keyword, ctrl_state None / explicit all-ones / Python int / np.int64 /
#       np.int32 (documented for MCU, converted by apply_ctrl_state for MCU and Ldmcu since F-C04-13: operator oracle and
#       tie, also through the static helpers, append / twice / copy / inverse on hosts; Qdmcu / Mcg annotate str: operator
#       oracle where the call goes through, counted as unsupported where it raises), one matrix object used for two
#       constructions
#   5 sizes                  real-dtype matrices at k = 4..7 (LinearMcx branches inside Qdmcu, ladder sweeps of Ldmcu),
#                            MCU with 0 / 1 / 2 extra controls on int64 / float64 matrices    div_size_cases
# Tie: generic members of the semantically-same forms (float64 reflection / rotation, Fortran / view / read-only / -0.0
# complex128, global phase times RY) are built from the CONVERTED input and diffed against the model op of the canonical
# matrix (div_tie); static helpers on hosts are tied with the host wires mapped to gate positions.  Special matrices
# (X, Z, +-I ... whose roots coincide) cannot be identified root by root: oracle only.  Reduced precision, unsupported
# forms, copy / inverse / twice: oracle only (the model has no such notion).

DIV_REAL = ("int64", "f64", "f64-negzero", "f32", "f32-exact")
DIV_REDUCED = ("f32", "c64")
DIV_REDUCED_EXACT = ("f32-exact", "c64-exact")
DIV_UNSUPPORTED = ("list", "tuple", "list-npscalars")
DIV_INT_CS = ("int", "npint", "npint32")


def div_conv(c, etype):
    """The object handed to the library for the canonical complex128 matrix `c`."""
    c = np.array(c, dtype=complex)
    re, im = c.real.copy(), c.imag.copy()
    real_valued = not im.any()
    whole = real_valued and bool(np.all(re == np.rint(re)))
    if etype == "c128":
        return c
    if etype in DIV_REAL and not real_valued:
        raise AssertionError("real element type for a complex matrix")
    if etype == "int64":
        if not whole:
            raise AssertionError("int64 for a non-integer matrix")
        return np.rint(re).astype(np.int64)
    if etype == "f64":
        return re
    if etype == "f64-negzero":
        re[re == 0] = -0.0
        return re
    if etype in ("f32", "f32-exact"):
        return re.astype(np.float32)
    if etype in ("c64", "c64-exact"):
        return c.astype(np.complex64)
    if etype == "c128-negzero":
        re[re == 0] = -0.0
        im[im == 0] = -0.0
        out = np.empty((2, 2), dtype=complex)
        out.real, out.imag = re, im
        return out
    if etype == "npscalars":
        if real_valued:
            return np.array([[np.int64(x) if x == np.rint(x) else np.float64(x) for x in row] for row in re])
        return np.array([[np.complex128(x) if x.imag else np.float64(x.real) for x in row] for row in c])
    if etype == "fortran":
        return np.asfortranarray(c)
    if etype == "view":
        big = np.full((4, 4), 7.0 + 3.0j)
        big[::2, 1::2] = c
        return big[::2, 1::2]
    if etype == "readonly":
        c.setflags(write=False)
        return c
    if etype in ("list", "tuple"):
        rows = [[(int(x.real) if whole else float(x.real)) if real_valued else complex(x) for x in row] for row in c]
        return rows if etype == "list" else tuple(tuple(r) for r in rows)
    if etype == "list-npscalars":
        return [[np.float64(x.real) if real_valued else np.complex128(x) for x in row] for row in c]
    raise KeyError(etype)


def div_is_real_form(spec):
    """The object handed in is an ndarray of a real (integer / floating) dtype."""
    m = div_conv(np.array(spec["re"], dtype=float) + 1j * np.array(spec["im"], dtype=float), spec.get("etype", "c128"))
    return isinstance(m, np.ndarray) and m.dtype.kind in "iuf"


def div_snapshot(m):
    if isinstance(m, np.ndarray):
        return (m.dtype.str, m.shape, m.tobytes())
    return repr(m)


def embed(op, n, wires):
    """The operator `op` (on len(wires) qubits, little-endian) acting on host qubits `wires` IN THAT ORDER, identity on
    the other qubits of an n-qubit host."""
    xs = np.arange(2 ** n)
    sub = np.zeros_like(xs)
    rest = xs.copy()
    for i, w in enumerate(wires):
        sub |= ((xs >> w) & 1) << i
        rest &= ~(1 << w)
    return np.asarray(op)[sub[:, None], sub[None, :]] * (rest[:, None] == rest[None, :])


def spec_norm(d):
    return float(math.sqrt(max(np.linalg.eigvalsh(d.conj().T @ d)[-1], 0.0)))


def div_cs(spec):
    """ctrl_state in the form the spec asks for (canonical: `cs` string or None)."""
    cs, k = spec.get("cs"), spec["k"]
    f = spec.get("cs_form", "str")
    if f == "int":
        return int(cs, 2)
    if f == "npint":
        return np.int64(int(cs, 2))
    if f == "npint32":
        return np.int32(int(cs, 2))
    if f == "ones":
        return "1" * k
    return cs


def div_err(spec):
    e, t = spec.get("error"), spec.get("etag", "float")
    if t == "int":
        return int(e)
    if t == "f32":
        return np.float32(e)
    if t == "f64":
        return np.float64(e)
    if t == "npint":
        return np.int64(int(e))
    if t == "negzero":
        return -0.0 if e == 0 else float(e)
    if t == "pyfloat":
        return float(e)
    return e


UTD_FORMS = {"bool": bool, "npbool": np.bool_, "int": int}


def div_utd(spec):
    """`up_to_diagonal` in the type the spec asks for (canonical: spec["utd"], a Python bool)."""
    return UTD_FORMS[spec.get("utd_form", "bool")](spec.get("utd"))


def div_gate(entry, m, k, cs, spec):
    from qclib.gates.ldmcu import Ldmcu
    from qclib.gates.qdmcu import Qdmcu
    from qclib.gates.mcg import Mcg
    from qclib.gates.mcu import MCU
    style = spec.get("ctor", "kw")
    utd = spec.get("utd")
    if entry == "ldmcu" or entry == "qdmcu":
        cls = Ldmcu if entry == "ldmcu" else Qdmcu
        if style == "pos":
            return cls(m, k, cs)
        if style == "allkw":
            return cls(unitary=m, num_controls=k, ctrl_state=cs)
        if style == "default":
            return cls(m, k)
        return cls(m, k, ctrl_state=cs)
    if entry == "mcg":
        if style == "pos":
            return Mcg(m, k, cs, div_utd(spec)) if utd is not None else Mcg(m, k, cs)
        if style == "allkw":
            return Mcg(unitary=m, num_controls=k, ctrl_state=cs, up_to_diagonal=div_utd(spec))
        if style == "default":        # only the keyword under test, ctrl_state left out
            return Mcg(m, k, up_to_diagonal=div_utd(spec)) if utd is not None else Mcg(m, k)
        return Mcg(m, k, ctrl_state=cs, up_to_diagonal=div_utd(spec)) if utd is not None else Mcg(m, k, ctrl_state=cs)
    if entry == "mcu":
        e = div_err(spec)
        if style == "pos":
            return MCU(m, k, e, cs)
        if style == "allkw":
            return MCU(unitary=m, num_controls=k, error=e, ctrl_state=cs)
        if style == "default":
            return MCU(m, k, e)
        return MCU(m, k, e, ctrl_state=cs)
    raise KeyError(entry)


def div_static(entry, qc, m, ctrl, tgt, cs, spec):
    from qclib.gates.ldmcu import Ldmcu
    from qclib.gates.qdmcu import Qdmcu
    from qclib.gates.mcg import Mcg
    from qclib.gates.mcu import MCU
    style = spec.get("call", "kw")
    if entry == "mcu":
        e = div_err(spec)
        if style == "pos":
            return MCU.mcu(qc, m, ctrl, tgt, e, cs)
        if style == "allkw":
            return MCU.mcu(circuit=qc, unitary=m, controls=ctrl, target=tgt, error=e, ctrl_state=cs)
        if style == "default":
            return MCU.mcu(qc, m, ctrl, tgt, e)
        return MCU.mcu(qc, m, ctrl, tgt, error=e, ctrl_state=cs)
    fn = {"ldmcu": Ldmcu.ldmcu, "qdmcu": Qdmcu.qdmcu, "mcg": Mcg.mcg}[entry]
    if style == "pos":
        return fn(qc, m, ctrl, tgt, cs)
    if style == "allkw":
        return fn(circuit=qc, unitary=m, controls=ctrl, target=tgt, ctrl_state=cs)
    if style == "default":
        return fn(qc, m, ctrl, tgt)
    return fn(qc, m, ctrl, tgt, ctrl_state=cs)


def div_host(spec):
    """(circuit, control argument, target argument, wire list [controls..., target] as host indices)."""
    from qiskit import QuantumCircuit, QuantumRegister
    h = spec["host"]
    regs = [QuantumRegister(sz, nm) for nm, sz in h["regs"]]
    qc = QuantumCircuit(*regs)
    byname = {r.name: r for r in regs}
    qf = h["qform"]
    if qf == "reg":
        ctrl = byname[h["creg"]]
    elif qf == "slice":
        nm, a, b, st = h["slice"]
        ctrl = byname[nm][slice(a, b, st)]
    elif qf == "int":
        ctrl = list(h["controls"])
    elif qf == "tuple":
        ctrl = tuple(qc.qubits[i] for i in h["controls"])
    else:
        ctrl = [qc.qubits[i] for i in h["controls"]]
    tgt = h["target"] if qf == "int" else qc.qubits[h["target"]]
    wires = [q if isinstance(q, int) else qc.find_bit(q).index for q in ctrl] + [h["target"]]
    return qc, ctrl, tgt, wires


def div_targets(spec, ref, k):
    """The 2x2 matrices the construction may be the controlled version of: U itself; for Mcg(up_to_diagonal) outside
    SU(2) with >= 2 controls U / det(U)^(1/2) (principal root; both roots when det is -1 to 1e-6, where the principal
    branch is decided by the sign of a zero)."""
    if spec["entry"] == "mcg" and spec.get("utd") and k >= 2 and not is_su2(ref):
        a = float(np.angle(np.linalg.det(ref)))
        t = ref * np.exp(-0.5j * a)
        return [t, -t] if abs(abs(a) - math.pi) < 1e-6 else [t]
    return [ref]


def div_eval(spec):
    import warnings
    with warnings.catch_warnings():
        warnings.simplefilter("ignore")
        c = np.array(spec["re"], dtype=float) + 1j * np.array(spec["im"], dtype=float)
        m = div_conv(c, spec.get("etype", "c128"))
        ref = np.array(m, dtype=complex)
        snap = div_snapshot(m)
        res = {"exc": None}
        try:
            if spec["entry"].startswith("util."):
                res.update(_div_eval_util(spec, m, ref))
            else:
                res.update(_div_eval_gate(spec, m, ref))
        except Exception as e:  # classified by div_record (valid form: failure; unsupported form: counted)
            res["exc"] = type(e).__name__
            res["msg"] = str(e)[:160]
        res["mutated"] = div_snapshot(m) != snap
        return res


def _div_eval_util(spec, m, ref):
    from qclib.gates import util
    fn = spec["entry"].split(".")[1]
    if fn == "check_u2":
        util.check_u2(m)
        return {"err": 0.0}
    if fn == "check_su2":
        got = util.check_su2(m)
        return {"err": 0.0 if bool(got) == is_su2(ref) else 1.0, "info": f"check_su2 = {got!r}, reference {is_su2(ref)}"}
    su, ph = util.u2_to_su2(m)
    su = np.asarray(su, dtype=complex)
    if not (np.isfinite(su).all() and np.isfinite(ph)):
        return {"err": float("inf"), "info": f"u2_to_su2 returned non-finite values (phase {ph!r})", "nan": True}
    return {"err": max(float(abs(np.linalg.det(su) - 1.0)), float(np.abs(np.exp(1j * ph) * su - ref).max())),
            "info": f"phase {ph!r}"}


def _div_eval_gate(spec, m, ref):
    from qiskit import QuantumCircuit
    from qiskit.quantum_info import Operator
    entry, form, k, cs = spec["entry"], spec.get("form", "class"), spec["k"], spec.get("cs")
    csarg = div_cs(spec)
    approx = entry == "mcu" and spec.get("error", 0) != 0
    out = {}
    if approx:
        # the canonical construction (complex128 matrix, float error, string pattern): accept / reject must agree
        from qclib.gates.mcu import MCU
        try:
            canon = Operator(MCU(ref.copy(), k, float(spec["error"]), ctrl_state=cs).definition).data
        except (ValueError, OverflowError):
            canon = None
    power, dagger = 1, False
    if form in ("class", "reuse"):
        try:
            g = div_gate(entry, m, k, csarg, spec)
        except (ValueError, OverflowError):
            if approx and canon is None:
                return {"rejected": True}
            raise
        n, wires = k + 1, list(range(k + 1))
        if form == "reuse":
            s2 = spec["second"]
            g2 = div_gate(s2["entry"], m, s2["k"], s2.get("cs"), s2)
            op2 = Operator(g2.definition).data
            out["err2"] = min(float(np.abs(op2 - ideal(t, s2["k"], s2.get("cs"))).max()) for t in div_targets(s2, ref, s2["k"]))
        op = Operator(g.definition).data
    else:
        qc, ctrl, tgt, wires = div_host(spec)
        n = qc.num_qubits
        if len(wires) != k + 1:
            raise AssertionError("harness: host wire list does not match k")
        try:
            if form == "static":
                div_static(entry, qc, m, ctrl, tgt, csarg, spec)
            else:
                g = div_gate(entry, m, k, csarg, spec)
                qargs = [*ctrl, tgt]
                if form == "append":
                    qc.append(g, qargs)
                elif form == "twice":
                    qc.append(g, qargs)
                    qc.append(g, qargs)
                    power = 2
                elif form == "copy":
                    cp = g.copy()            # taken before .definition is first read
                    qc.append(cp, qargs)
                    qc.append(g, qargs)
                    power = 2
                elif form == "inverse":
                    qc.append(g.inverse(), qargs)
                    dagger = True
                elif form == "to_gate":
                    qc.append(g.definition.to_gate(), qargs)
                elif form == "to_instruction":
                    qc.append(g.definition.to_instruction(), qargs)
                else:
                    raise KeyError(form)
        except (ValueError, OverflowError):
            if approx and canon is None:
                return {"rejected": True}
            raise
        op = Operator(qc).data

    def expected(small):
        e = embed(small, n, wires)
        if dagger:
            e = e.conj().T
        return e @ e if power == 2 else e

    if approx:
        if canon is None:
            return {"err": float("inf"), "info": "accepted although the canonical construction (complex128 matrix, float error) rejects"}
        out["self"] = float(np.abs(op - expected(canon)).max())
        if power == 1:
            out["dist"] = spec_norm(op - expected(ideal(ref, k, cs)))
        out["err"] = out["self"]
        return out
    out["err"] = min(float(np.abs(op - expected(ideal(t, k, cs))).max()) for t in div_targets(spec, ref, k))
    if "err2" in out:
        out["err"] = max(out["err"], out.pop("err2"))
    return out


def div_key(spec):
    h = spec.get("host")
    parts = ["u2:div", spec["entry"], spec.get("form", "class"), spec.get("etype", "c128"), spec.get("uname", "U"),
             f"k={spec['k']}", f"cs={spec.get('cs')}"]
    if spec.get("flagform"):
        parts[0] = "u2:flagforms:" + spec["flagform"]
    if spec.get("utd") is not None:
        parts.append("utd" if spec["utd"] else "utd=False")
    if spec.get("utd_form", "bool") != "bool":
        parts.append("utd-as-" + spec["utd_form"])
    if spec.get("cs_form", "str") != "str":
        parts.append("cs-" + spec["cs_form"])
    if spec.get("ctor"):
        parts.append("ctor-" + spec["ctor"])
    if spec.get("call"):
        parts.append("call-" + spec["call"])
    if "error" in spec:
        parts.append(f"err={spec['error']:.4g}/{spec.get('etag', 'float')}")
    if h:
        where = h.get("creg") or (h.get("slice") and "slice" + "".join(str(x) for x in h["slice"])) or \
            "".join(str(i) for i in h["controls"])
        parts.append(f"{h['qform']}:{h['name']}:{where}>{h['target']}")
    return ":".join(parts)


def div_record(ctx, spec, res):
    et = spec.get("etype", "c128")
    key = div_key(spec)
    rp = dict(spec, part="u2", probe="diversity")
    entry, k = spec["entry"], spec["k"]
    what = f"{entry} {spec.get('form', 'class')} form, matrix {spec.get('uname')} as {et}, k={k}, ctrl_state={div_cs(spec)!r}"
    if res.get("mutated"):
        ctx.fail(key + ":caller-matrix-modified", what + ": the caller's matrix object was changed", rp)
        return
    # decimal ctrl_state (Python int / numpy integer): documented for MCU, realised by apply_ctrl_state for MCU and Ldmcu
    # (F-C04-13, fixed in /repo): judged by the operator oracle there.  Qdmcu / Mcg annotate `str`: where the call goes
    # through (one control: qiskit's .control; Mcg's U(2) path = Ldmcu) the operator oracle applies as well, where it
    # raises it is counted as an unsupported form.
    int_cs = spec.get("cs_form") in DIV_INT_CS
    unsupported = et in DIV_UNSUPPORTED or (int_cs and entry not in ("mcu", "ldmcu"))
    if spec.get("flagform"):
        ctx.count("flagforms:" + spec["flagform"] + (f":{entry}:unsupported-{res['exc']}" if unsupported and res["exc"] else ""))
    if res["exc"] is not None:
        exc = res["exc"]
        if unsupported:
            name = et if et in DIV_UNSUPPORTED else f"ctrl_state-{spec['cs_form']}:" + entry
            ctx.count(f"diversity:{name}:unsupported-form-raises-{exc}")
            return
        ref = np.array(div_conv(np.array(spec["re"]) + 1j * np.array(spec["im"]), et), dtype=complex)
        if div_is_real_form(spec) and et != "f32" and spec.get("utd") and k >= 2 and entry == "mcg" \
                and float(np.linalg.det(ref).real) < 0:
            ctx.fail(f"u2:div:mcg:up_to_diagonal:real-dtype-negative-det:{et}:{spec.get('uname')}:k={k}:{spec.get('form', 'class')}:raises-{exc}",
                     what + f": raises {exc}: {res.get('msg')} (u2_to_su2 takes det ** (-1/2) of a REAL negative "
                     f"determinant: nan; the matrix handed on is all-nan)", rp)
            return
        if exc == "ValueError" and (et in DIV_REDUCED or (et in DIV_REDUCED_EXACT and spec.get("utd") and k >= 2)
                                    or (et in DIV_REDUCED_EXACT + DIV_REDUCED and entry == "util.u2_to_su2")) \
                and ("rthonormal" in res.get("msg", "") or (et in DIV_REDUCED and "not unitary" in res.get("msg", ""))):
            # inexact single precision: rows orthonormal only to ~1e-7; check_u2 (U U^dagger) and qiskit's UnitaryGate
            # (U^dagger U), both at atol 1e-8, may disagree on a borderline matrix - either rejection is the documented one
            ctx.count(f"diversity:reduced-precision:{et}:rejected-ValueError")
            return
        if int_cs:
            # regression probe of F-C04-13 (same key as when it was found: u2:div:mcu:ctrl_state-int:class:k=..:cs=..:raises-TypeError)
            ctx.fail(f"u2:div:{entry}:ctrl_state-{spec['cs_form']}:{spec.get('form', 'class')}:k={k}:cs={div_cs(spec)}:raises-{exc}",
                     what + f": raises {exc}: {res.get('msg')} (the MCU docstring documents `ctrl_state (str or int): Control "
                     f"state in decimal or as a bitstring`, apply_ctrl_state of MCU / Ldmcu converts it; the constructor accepts "
                     f"it, building the definition fails)", rp)
            return
        if exc == "QiskitError" and spec.get("form") == "to_gate" and "not a gate instruction" in res.get("msg", ""):
            # qiskit refuses definition.to_gate() because the definition holds a sub-circuit appended as an Instruction
            # ("T0", "c_V"); nothing about the operator: counted, reported as an observation
            ctx.count(f"diversity:call:object:to_gate:{entry}:definition-holds-non-gate-Instruction-raises-QiskitError")
            return
        ctx.fail(key + f":raises-{exc}", what + f": raises {exc}: {res.get('msg')}", rp)
        return
    if res.get("rejected"):
        ctx.count("diversity:mcu:rejected-like-canonical")
        return
    tol = TOL
    if et in DIV_REDUCED:
        tol = 1e-5
    elif et in DIV_REDUCED_EXACT and (entry == "util.u2_to_su2" or (entry == "mcg" and k >= 2 and (spec.get("utd") or is_su2(
            np.array(spec["re"]) + 1j * np.array(spec["im"])))) or (entry == "mcu" and spec.get("error", 0) != 0)):
        # the SU(2) constructions (Ldmcsu / MultiTargetMCSU2 behind Mcg and MCU, u2_to_su2) do part of their arithmetic in the
        # dtype handed in: complex64 / float32 rounding (~1.2e-7) is the reduced-precision rule of this pass, not a defect
        tol = 1e-5
        if res.get("err", 0) > TOL:
            ctx.count(f"diversity:reduced-precision:{et}:su2-path-arithmetic-in-input-dtype (error {TOL:g}..1e-5)")
    if res.get("nan") and div_is_real_form(spec):
        ctx.fail(f"u2:div:util.u2_to_su2:real-dtype-negative-det:{et}:{spec.get('uname')}:nan",
                 what + ": " + res.get("info", "") + " (det ** (-1/2) of a real negative determinant)", rp)
        return
    if not res["err"] <= tol:
        ctx.fail(key, what + f": max |observed - ideal| = {res['err']:.3e} (tolerance {tol:g}) {res.get('info', '')}",
                 dict(rp, observed=res["err"]))
        return
    if "dist" in res and not res["dist"] <= float(spec["error"]) + TOL:
        ctx.fail(key + ":bound", what + f": spectral norm {res['dist']:.6e} > error {spec['error']}", dict(rp, observed=res["dist"]))
        return
    ctx.count("oracle:div:" + entry)
    ctx.ok(key, nontrivial=k >= 1 and not entry.startswith("util."))


def div_reported_finding(spec, res):
    if res.get("mutated"):
        return False
    if res.get("nan") and div_is_real_form(spec):
        return True
    if res.get("exc") == "TypeError" and spec.get("cs_form") in DIV_INT_CS and spec["entry"] in ("mcu", "ldmcu"):
        return True
    return res.get("exc") == "ValueError" and spec["entry"] == "mcg" and bool(spec.get("utd")) and spec["k"] >= 2 \
        and div_is_real_form(spec) and spec.get("etype") != "f32" \
        and float(np.linalg.det(np.array(spec["re"], dtype=float)).real) < 0


def div_tie(ctx, spec, u_canon):
    """Skeleton of the construction made from the CONVERTED input (class form or static helper on a host) versus the
    model op of the canonical matrix."""
    import contextlib
    import warnings
    entry, k, cs = spec["entry"], spec["k"], spec.get("cs")
    u_canon = np.asarray(u_canon, dtype=complex)
    m = div_conv(u_canon, spec.get("etype", "c128"))
    op = {"op": entry, "k": k, "cs": cs}
    shallow = entry == "mcg"
    if entry == "mcg":
        op["su2"] = is_su2(u_canon)
        op["utd"] = bool(spec.get("utd"))
    approx = entry == "mcu" and spec.get("error", 0) != 0
    if entry == "mcu" and not approx:
        op["op"] = "ldmcu"
    try:
        with warnings.catch_warnings():
            warnings.simplefilter("ignore")
            if approx:
                op["b"] = int(num_base_real(u_canon, float(spec["error"]))[2:])
            patch = record_multi_target() if approx else contextlib.nullcontext()
            if spec.get("form", "class") == "class":
                g = div_gate(entry, m, k, div_cs(spec), spec)
                with patch:
                    lines = skeleton(g.definition, u_canon, shallow=shallow)
            else:
                with patch:
                    qc, ctrl, tgt, wires = div_host(spec)
                    div_static(entry, qc, m, ctrl, tgt, div_cs(spec), spec)
                    pos = {w: i for i, w in enumerate(wires)}
                    lines = []
                    for inst in qc.data:
                        qs = [pos.get(qc.find_bit(q).index, 90 + qc.find_bit(q).index) for q in inst.qubits]
                        skeleton(inst.operation.definition, u_canon, qs, lines, shallow)
    except Exception as e:
        lines = [f"RAISES {type(e).__name__}"]
    ctx.tie(op, lines, label="diversity " + div_key(spec), driver=DRIVER)
    ctx.count("tie:div:" + entry)


def _mat(m):
    m = np.asarray(m, dtype=complex)
    return {"re": m.real.tolist(), "im": m.imag.tolist()}


def refl(t):
    return np.array([[math.cos(t), math.sin(t)], [math.sin(t), -math.cos(t)]], dtype=complex)


IY = np.array([[0, -1], [1, 0]], dtype=complex)           # real, det +1 (SU(2))
SQRTX = 0.5 * np.array([[1 + 1j, 1 - 1j], [1 - 1j, 1 + 1j]])


def div_etype_cases(ctx, nprng):
    r = ctx.rng
    t1, t2 = r.uniform(0.4, 2.6), r.uniform(0.4, 1.4)
    hu = tie_u(nprng)
    fams = {"X": X, "Z": Z, "-I": -I2, "I": I2, "iY": IY, "H": H, "RY": ry(t1), "-RY": -ry(t1), "refl": refl(t2),
            "Y": Y, "S": S, "sqrtX": SQRTX, "iX": 1j * X, "haarU2": hu}
    table = [
        ("int64", ["X", "Z", "-I", "iY", "I"]),
        ("f64", ["X", "H", "RY", "-RY", "refl"]),
        ("f64-negzero", ["Z", "X"]),
        ("f32-exact", ["X", "Z", "iY"]),
        ("f32", ["H", "RY"]),
        ("c64-exact", ["X", "Y", "S", "sqrtX", "iX"]),
        ("c64", ["haarU2"]),
        ("c128-negzero", ["X", "S", "RY"]),
        ("npscalars", ["H", "Y", "Z"]),
        ("fortran", ["haarU2", "refl"]),
        ("view", ["haarU2", "H"]),
        ("readonly", ["haarU2", "refl"]),
        ("list", ["X", "Y"]),
        ("tuple", ["X", "H"]),
        ("list-npscalars", ["Z"]),
    ]
    specs = []
    i = 0
    for et, names in table:
        for j, nm in enumerate(names):
            ctx.count("diversity:etype:" + et)
            base = dict(_mat(fams[nm]), uname=nm, etype=et)
            light = et in DIV_UNSUPPORTED
            for entry, ks in (("ldmcu", (0, 1, 2, 3) if j == 0 else (2, 3)), ("qdmcu", (1, 2, 3) if j == 0 else (2, 3)),
                              ("mcg", (0, 1, 2, 3) if j == 0 else (1, 2, 3))):
                for k in ((2,) if light else ks):
                    i += 1
                    cs = None if (i % 3 == 0 or k == 0) else "".join(r.choice("01") for _ in range(k))
                    specs.append(dict(base, entry=entry, k=k, cs=cs))
            i += 1
            k = 2 + i % 2
            specs.append(dict(base, entry="mcg", k=k, utd=True, cs=None if i % 2 else "".join(r.choice("01") for _ in range(k)),
                              ctor="pos" if i % 4 < 2 else "kw"))
            # the same forms through a static helper on a host (controls non-ascending, target in the middle)
            ent = ("ldmcu", "qdmcu", "mcg")[i % 3]
            specs.append(dict(base, entry=ent, form="static", k=3, cs="".join(r.choice("01") for _ in range(3)),
                              host=dict(name="q6", regs=[["q", 6]], qform="int" if i % 2 else "qubit", controls=[4, 1, 3], target=2)))
    # tie: generic members of the semantically-same forms
    tie_fams = {"refl": refl(t2), "RY": ry(t1), "haarU2": hu}
    for et, nm in (("f64", "refl"), ("f64", "RY"), ("fortran", "haarU2"), ("view", "haarU2"), ("readonly", "haarU2"),
                   ("npscalars", "refl"), ("f64-negzero", "refl")):
        for entry in ("ldmcu", "qdmcu", "mcg"):
            if entry == "mcg" and nm == "refl":
                continue        # a reflection is its own inverse: the call line U^(+1) / U^(-1) of Mcg cannot be told apart
            for k in (2, 3):
                cs = "".join(r.choice("01") for _ in range(k))
                div_tie(ctx, dict(entry=entry, k=k, cs=cs, etype=et, uname=nm), tie_fams[nm])
        if nm != "refl":        # det exactly -1: the branch of det^(1/2) hangs on the sign of a zero, oracle only (both roots)
            div_tie(ctx, dict(entry="mcg", k=3, cs="010", etype=et, uname=nm, utd=True), tie_fams[nm])
    return specs


def div_phase_cases(ctx, nprng):
    r = ctx.rng
    a = [r.uniform(0.3, 2.8) for _ in range(8)]
    pi = math.pi
    bases = {"I": I2, "X": X, "Z": Z, "H": H, "RY": ry(a[0]), "RZ": rz(a[1]), "RX": rx(a[2]), "iY": IY}
    phases = {"-1": -1.0, "i": 1j, "-i": -1j, "e^it": np.exp(1j * r.uniform(0.3, 2.8))}
    have = {("-1", "I"), ("i", "I"), ("i", "X"), ("-i", "Z")}         # already in family()
    mats = [(f"{p}*{b}", pv * bv, "global phase " + p) for p, pv in phases.items() for b, bv in bases.items() if (p, b) not in have]
    for rn, rf in (("RX", rx), ("RY", ry), ("RZ", rz)):
        for an, av in (("2pi", 2 * pi), ("-2pi", -2 * pi), ("4pi", 4 * pi), ("-4pi", -4 * pi), ("3pi", 3 * pi), ("-3pi", -3 * pi),
                       ("2pi+a", 2 * pi + a[3]), ("-2pi-a", -2 * pi - a[4]), ("4pi+a", 4 * pi + a[5]), ("-4pi-a", -4 * pi - a[6]),
                       ("6pi-a", 6 * pi - a[7])):
            mats.append((f"{rn}({an})", rf(av), "rotation angle " + an))
    # scale analogue: one pair of entries tiny (nearly diagonal / nearly anti-diagonal), outside every isclose band
    for eps in (1e-3, 1e-5):
        mats.append((f"tinyRY({eps:g})", ry(2 * eps), "light off-diagonal"))
        mats.append((f"nearX({eps:g})", X @ ry(2 * eps), "light diagonal"))
        mats.append((f"i*nearZ({eps:g})", 1j * Z @ ry(2 * eps), "light off-diagonal"))
    specs = []
    for i, (nm, m, tag) in enumerate(mats):
        ctx.count("diversity:phase:" + tag)
        for j, entry in enumerate(("ldmcu", "qdmcu", "mcg")):
            k = 1 + (i + j) % 3
            cs = None if (i + j) % 2 else "".join(r.choice("01") for _ in range(k))
            specs.append(dict(_mat(m), uname=nm, entry=entry, k=k, cs=cs))
        if not is_su2(m):
            k = 2 + i % 2
            specs.append(dict(_mat(m), uname=nm, entry="mcg", k=k, utd=True, cs="".join(r.choice("01") for _ in range(k)),
                              ctor="kw" if i % 2 else "pos"))
    # tie: global phases on a generic real rotation (U(2) path) and rotations beyond 2 pi (SU(2) path of Mcg)
    for nm, m in (("-1*RYg", -ry(a[0])), ("i*RYg", 1j * ry(a[0])), ("e^it*RYg", phases["e^it"] * ry(a[0])),
                  ("RY(2pi+a)", ry(2 * pi + a[3])), ("RZ(-2pi-a)", rz(-2 * pi - a[4]))):
        for entry in ("ldmcu", "qdmcu", "mcg"):
            k = 2 + r.randrange(2)
            div_tie(ctx, dict(entry=entry, k=k, cs="".join(r.choice("01") for _ in range(k)), uname=nm), m)
    return specs


def div_mcu_setup(u, extra, kmax=5, k=None):
    """(k, error) such that the dominant eigen-angle of `u` gives a base count b (mid-band) with error < 1 and
    k = b + extra <= kmax (the least such b; b = k - extra when k is given); None if there is none or the dominant
    angle is not safely positive (the constructor rejects those)."""
    ang = np.angle(np.linalg.eigvals(np.asarray(u, dtype=complex)))
    dom = max(ang, key=lambda x: 1 - math.cos(x))
    oth = min(ang, key=lambda x: 1 - math.cos(x))
    if dom < 0.05 or (abs(abs(dom) - abs(oth)) < 1e-6 and oth < 0):
        return None
    for b in ([k - extra] if k is not None else range(1, kmax + 1)):
        e = error_for_base(float(dom), b) if b >= 1 else None
        if e is not None and 0 < e < 0.98 and b + extra <= kmax:
            return b + extra, e
    return None


def div_mcu_cases(ctx, nprng):
    r = ctx.rng
    p1, p2 = r.uniform(0.25, 0.6), r.uniform(0.25, 0.6)
    specs = []
    # element types of the matrix (positive dominant eigen-angle) x form of `error`
    mats = [("X", X, "int64"), ("Z", Z, "int64"), ("Z", Z, "f64-negzero"), ("H", H, "f64"), ("refl", refl(r.uniform(0.4, 1.4)), "f64"),
            ("X", X, "f32-exact"), ("S", S, "c64-exact"), ("sqrtX", SQRTX, "c64-exact"), ("S", S, "c128-negzero"),
            ("P", np.diag([1, np.exp(1j * p1)]), "fortran"), ("P", np.diag([1, np.exp(1j * p2)]), "view"),
            ("P", np.diag([1, np.exp(1j * p2)]), "readonly"), ("H", H, "npscalars"), ("X", X, "list"), ("P", np.diag([1, np.exp(1j * p1)]), "c64")]
    etags = ("float", "f32", "f64", "int")
    for i, (nm, m, et) in enumerate(mats):
        ctx.count("diversity:mcu:etype:" + et)
        for extra in (0, 1):
            st = div_mcu_setup(m, extra)
            if st is None:
                continue
            k, e = st
            etag = etags[(i + extra) % 3]
            ctx.count("diversity:mcu:error-as-" + etag)
            ctor = ("kw", "pos", "allkw", "default")[(i + extra) % 4]
            cs = None if ctor == "default" else "".join(r.choice("01") for _ in range(k))
            specs.append(dict(_mat(m), uname=nm, etype=et, entry="mcu", k=k, cs=cs, error=e, etag=etag, ctor=ctor))
    # error = 1 passed as a Python int (and as float / numpy scalars of the same value, which must build the same gate)
    for etag in etags:
        ctx.count("diversity:mcu:error-as-" + etag)
        for nm, m, et, k in (("X", X, "int64", 3), ("Z", Z, "f64", 4), ("S", S, "c128", 2)):
            specs.append(dict(_mat(m), uname=nm, etype=et, entry="mcu", k=k, cs="".join(r.choice("01") for _ in range(k)),
                              error=1.0, etag=etag))
    # sign / phase structure: global phases and rotations beyond 2 pi whose dominant eigen-angle is positive
    pi = math.pi
    t = r.uniform(0.4, 2.4)
    for nm, m in (("-1*I", -I2), ("i*I", 1j * I2), ("i*Z", 1j * Z), ("-1*Z", -Z), ("i*X", 1j * X), ("-i*H", -1j * H), ("-1*RY", -ry(t)),
                  ("e^it*RZ", np.exp(0.9j) * rz(t)), ("i*RZ", 1j * rz(0.6 * t)),
                  ("e^it*X", np.exp(0.7j) * X), ("e^it*RY", np.exp(1.1j) * ry(0.5 * t)), ("e^it*H", np.exp(0.4j) * H), ("RZ(2pi+a)", rz(2 * pi + t)), ("RZ(-2pi-a)", rz(-2 * pi - t)),
                  ("RX(4pi+a)", rx(4 * pi + t)), ("RY(2pi)", ry(2 * pi)), ("RZ(3pi)", rz(3 * pi)), ("RX(-3pi)", rx(-3 * pi))):
        ctx.count("diversity:mcu:phase")
        for extra in (0, 1):
            st = div_mcu_setup(m, extra)
            if st is None:
                ctx.count("diversity:mcu:phase:dominant-angle-not-positive (constructor rejects)")
                break
            k, e = st
            specs.append(dict(_mat(m), uname=nm, entry="mcu", k=k, cs=None if extra else "".join(r.choice("01") for _ in range(k)),
                              error=e))
    # tie: converted matrix / error forms against the model's truncated ladder
    for et, etag, extra in (("fortran", "f32", 1), ("view", "f64", 0), ("readonly", "float", 2)):
        u = np.diag([1, np.exp(1j * p1)])
        st = div_mcu_setup(u, extra)
        if st:
            div_tie(ctx, dict(entry="mcu", k=st[0], cs="".join(r.choice("01") for _ in range(st[0])), etype=et, uname="P",
                              error=st[1], etag=etag), u)
    for nm, m, et in (("Z", Z, "int64"), ("H", H, "f64")):
        # special matrices: roots not identifiable one by one, but the n_base decision is tied through `numbase`
        ang = np.angle(np.linalg.eig(div_conv(m, et))[0])
        for e in (0.3, 1):
            if abs((1 - math.cos(ang[0])) - (1 - math.cos(ang[1]))) > 1e-9:
                ctx.tie({"op": "numbase", "a0": float(ang[0]), "a1": float(ang[1]), "err": float(e)},
                        [num_base_real(div_conv(m, et), e)], label=f"diversity num_base {nm} as {et}, error {e!r}", driver=DRIVER,
                        compare=lambda op, impl, model: None if impl == model else f"impl={impl} model={model}")
    return specs


HOSTS = {
    "q6": [["q", 6]],
    "bca": [["b", 3], ["c", 1], ["a", 2]],
    "abc": [["a", 2], ["b", 3], ["c", 1]],
    "t-idle-ctl": [["t", 1], ["idle", 2], ["ctl", 3]],
    "ctl-idle-t-x": [["ctl", 3], ["idle", 1], ["t", 1], ["x", 1]],
    "c2-t-idle": [["c2", 2], ["t", 1], ["idle", 3]],
}
PLACES = {1: [([2], 0), ([0], 5)], 2: [([5, 0], 3), ([3, 1], 2)], 3: [([4, 1, 3], 2), ([5, 2, 0], 1)], 4: [([5, 3, 0, 4], 1)]}


def div_static_cases(ctx, nprng):
    r = ctx.rng
    ut = tie_u(nprng)
    su = to_su2(haar_u2(nprng))
    phi = r.uniform(0.25, 0.6)
    up = np.diag([1, np.exp(1j * phi)])
    entries = [("ldmcu", "tieU", ut, None), ("qdmcu", "tieU", ut, None), ("mcg", "tieU", ut, None), ("mcg", "su2", su, None),
               ("mcu", "tieU", ut, 0), ("mcu", "P", up, "approx")]
    styles = ("kw", "pos", "allkw", "default")
    specs = []
    i = 0

    def add(entry, nm, m, err, k, host, tie=True):
        nonlocal i
        i += 1
        style = styles[i % 4]
        cs = None if style == "default" else ("1" * k if i % 7 == 0 else "".join(r.choice("01") for _ in range(k)))
        sp = dict(_mat(m), uname=nm, entry=entry, form="static", k=k, cs=cs, call=style, host=host)
        if err == 0:
            sp["error"] = 0
        elif err == "approx":
            st = div_mcu_setup(m, (i % 2 + 1) if k >= 3 else (1 if k == 2 else 0), k=k)
            if st is None:
                return
            sp["error"] = st[1]
        ctx.count(f"diversity:call:static:{host['qform']}")
        ctx.count(f"diversity:call:static:{style}")
        specs.append(sp)
        if tie:
            div_tie(ctx, sp, m)

    for entry, nm, m, err in entries:
        for k, places in PLACES.items():
            for (ctrl, tgt) in places:
                for qf, hn in (("int", "q6"), ("qubit", "bca"), ("tuple", "abc")):
                    if (i + k) % 2 and qf == "tuple" and k != 3:
                        i += 1
                        continue
                    add(entry, nm, m, err, k, dict(name=hn, regs=HOSTS[hn], qform=qf, controls=ctrl, target=tgt), tie=qf != "tuple")
        # whole register / register slices as `controls`
        add(entry, nm, m, err, 3, dict(name="t-idle-ctl", regs=HOSTS["t-idle-ctl"], qform="reg", creg="ctl", target=0))
        add(entry, nm, m, err, 3, dict(name="ctl-idle-t-x", regs=HOSTS["ctl-idle-t-x"], qform="reg", creg="ctl", target=4))
        add(entry, nm, m, err, 2, dict(name="c2-t-idle", regs=HOSTS["c2-t-idle"], qform="reg", creg="c2", target=2))
        add(entry, nm, m, err, 3, dict(name="abc", regs=HOSTS["abc"], qform="slice", slice=["b", None, None, -1], target=0))
        add(entry, nm, m, err, 2, dict(name="abc", regs=HOSTS["abc"], qform="slice", slice=["b", 0, 3, 2], target=3))
        add(entry, nm, m, err, 2, dict(name="bca", regs=HOSTS["bca"], qform="slice", slice=["b", 2, 0, -1], target=4))
    return specs


def div_object_cases(ctx, nprng):
    r = ctx.rng
    ut = tie_u(nprng)
    su = to_su2(haar_u2(nprng))
    phi = r.uniform(0.25, 0.6)
    up = np.diag([1, np.exp(1j * phi)])
    kinds = [("ldmcu", "tieU", ut, {}), ("qdmcu", "tieU", ut, {}), ("mcg", "tieU", ut, {}), ("mcg", "su2", su, {}),
             ("mcg", "tieU", ut, {"utd": True, "ctor": "pos"}), ("mcg", "tieU", ut, {"utd": True, "ctor": "kw"}),
             ("mcg", "su2", su, {"utd": True, "ctor": "allkw"}), ("mcg", "tieU", ut, {"utd": False, "ctor": "pos"}),
             ("mcu", "P", up, {"approx": True})]
    forms = ("append", "twice", "copy", "inverse", "to_gate", "to_instruction")
    qfs = (("int", "q6"), ("qubit", "bca"), ("qubit", "abc"))
    specs = []
    i = 0
    for entry, nm, m, extra in kinds:
        for form in forms:
            i += 1
            k = (3, 2, 4, 3, 1, 2)[i % 6]
            ctrl, tgt = PLACES[k][i % len(PLACES[k])]
            qf, hn = qfs[i % 3]
            sp = dict(_mat(m), uname=nm, entry=entry, form=form, k=k, cs="".join(r.choice("01") for _ in range(k)),
                      host=dict(name=hn, regs=HOSTS[hn], qform=qf, controls=ctrl, target=tgt))
            sp.update({a: b for a, b in extra.items() if a != "approx"})
            if extra.get("approx"):
                st = div_mcu_setup(m, 1 if k >= 2 else 0, k=k)
                if st is None:
                    continue
                sp["error"] = st[1]
            ctx.count("diversity:call:object:" + form)
            specs.append(sp)
    # constructors: every argument by keyword / positionally / only one optional argument; ctrl_state None, explicit
    # all-ones, int
    for entry, nm, m, extra in kinds:
        for j, ctor in enumerate(("allkw", "pos", "default", "kw")):
            for k in (2, 3):
                i += 1
                sp = dict(_mat(m), uname=nm, entry=entry, k=k, ctor=ctor,
                          cs=None if ctor == "default" else "".join(r.choice("01") for _ in range(k)))
                sp.update({a: b for a, b in extra.items() if a not in ("approx", "ctor")})
                if extra.get("approx"):
                    st = div_mcu_setup(m, j % k, k=k)
                    if st is None:
                        continue
                    sp["error"] = st[1]
                ctx.count("diversity:call:ctor:" + ctor)
                specs.append(sp)
        for cs_form, k, cs in (("ones", 2, None), ("ones", 3, None), ("int", 1, "0"), ("int", 2, "01"), ("int", 3, "101"), ("int", 3, "111"),
                               ("npint", 1, "1"), ("npint", 2, "10"), ("npint", 3, "000"), ("npint32", 3, "011"), ("npint32", 4, "0110")):
            sp = dict(_mat(m), uname=nm, entry=entry, k=k, cs=cs, cs_form=cs_form)
            sp.update({a: b for a, b in extra.items() if a not in ("approx", "ctor")})
            if extra.get("approx"):
                st = div_mcu_setup(m, 1 if k >= 2 else 0, k=k)
                if st is None:
                    continue
                sp["error"] = st[1]
            elif cs_form in DIV_INT_CS and extra:
                continue
            ctx.count("diversity:call:ctrl_state-" + cs_form)
            specs.append(sp)
    # decimal ctrl_state through the static helpers and through append / inverse / twice on permuted host qubits
    # (apply_ctrl_state rewrites self.ctrl_state when the definition is built: the second use must see the same gate)
    statics = [("ldmcu", "tieU", ut, {}), ("mcu", "tieU", ut, {"error": 0}), ("mcu", "P", up, {"approx": True}),
               ("mcg", "tieU", ut, {}), ("mcg", "su2", su, {}), ("qdmcu", "tieU", ut, {})]
    for entry, nm, m, extra in statics:
        for j, (form, cs_form) in enumerate((("static", "int"), ("static", "npint"), ("append", "npint32"), ("twice", "int"),
                                             ("inverse", "npint"), ("copy", "int"))):
            if form != "static" and extra.get("error") == 0:
                continue
            i += 1
            k = (3, 2, 4, 1)[(i + j) % 4]
            ctrl, tgt = PLACES[k][i % len(PLACES[k])]
            qf, hn = qfs[i % 3]
            sp = dict(_mat(m), uname=nm, entry=entry, form=form, k=k, cs="".join(r.choice("01") for _ in range(k)), cs_form=cs_form,
                      host=dict(name=hn, regs=HOSTS[hn], qform=qf, controls=ctrl, target=tgt))
            if form == "static":
                sp["call"] = ("kw", "pos", "allkw")[i % 3]
            if extra.get("error") == 0:
                sp["error"] = 0
            if extra.get("approx"):
                st = div_mcu_setup(m, 1 if k >= 2 else 0, k=k)
                if st is None:
                    continue
                sp["error"] = st[1]
            ctx.count(f"diversity:call:ctrl_state-{cs_form}:{form}")
            specs.append(sp)
            if entry in ("ldmcu", "mcu") and form == "static":
                div_tie(ctx, sp, m)
    for entry, nm, m, extra in (("ldmcu", "tieU", ut, {}), ("mcu", "P", up, {"approx": True})):
        for cs_form, k, cs in (("int", 3, "010"), ("npint", 2, "01"), ("npint32", 4, "1001")):
            sp = dict(_mat(m), uname=nm, entry=entry, k=k, cs=cs, cs_form=cs_form)
            if extra.get("approx"):
                st = div_mcu_setup(m, 1, k=k)
                if st is None:
                    continue
                sp["error"] = st[1]
            div_tie(ctx, sp, m)
    # one matrix object for two constructions (second one read first); the caller's array must stay as it was
    for (e1, k1), (e2, k2) in ((("ldmcu", 2), ("qdmcu", 3)), (("mcg", 3), ("ldmcu", 1)), (("qdmcu", 2), ("mcg", 2))):
        for nm, m, et in (("tieU", ut, "c128"), ("refl", refl(0.8), "f64"), ("X", X, "int64")):
            ctx.count("diversity:call:matrix-object-reused")
            specs.append(dict(_mat(m), uname=nm, etype=et, entry=e1, form="reuse", k=k1, cs="".join(r.choice("01") for _ in range(k1)),
                              second=dict(entry=e2, k=k2, cs="".join(r.choice("01") for _ in range(k2)))))
    return specs


def div_size_cases(ctx, nprng):
    r = ctx.rng
    specs = []
    t = r.uniform(0.4, 1.4)
    for k in (4, 5, 6, 7):
        ctx.count("diversity:size:real-dtype k=4..7")
        for entry, nm, m, et in (("qdmcu", "refl", refl(t), "f64"), ("ldmcu", "X", X, "int64"), ("qdmcu", "Z", Z, "int64"),
                                 ("ldmcu", "-RY", -ry(t), "f64"), ("mcg", "H", H, "f64"), ("mcg", "iY", IY, "int64")):
            if k >= 6 and entry == "mcg" and nm == "iY":
                continue
            cs = "".join(r.choice("01") for _ in range(k))
            specs.append(dict(_mat(m), uname=nm, etype=et, entry=entry, k=k, cs=cs))
    div_tie(ctx, dict(entry="qdmcu", k=6, cs="010110", etype="f64", uname="refl"), refl(t))
    div_tie(ctx, dict(entry="ldmcu", k=5, cs="01101", etype="f64", uname="refl"), refl(t))
    for nm, m, et in (("Z", Z, "int64"), ("H", H, "f64"), ("S", S, "c64-exact")):
        for extra in (0, 1, 2):
            st = div_mcu_setup(m, extra, kmax=6)
            if st is None:
                continue
            ctx.count(f"diversity:size:mcu extra controls={extra}")
            k, e = st
            specs.append(dict(_mat(m), uname=nm, etype=et, entry="mcu", k=k, cs="".join(r.choice("01") for _ in range(k)), error=e,
                              etag=("f64", "float", "f32")[extra]))
    return specs


def div_util_cases(ctx, nprng):
    r = ctx.rng
    t = r.uniform(0.4, 1.4)
    hu = haar_u2(nprng)
    specs = []
    for nm, m, ets in (("X", X, ("int64", "f64", "f32-exact", "c64-exact", "c128", "list", "tuple", "c128-negzero", "f64-negzero")),
                       ("iY", IY, ("int64", "f64", "f32-exact", "c128", "list")),
                       ("-I", -I2, ("int64", "f64-negzero", "c128")),
                       ("refl", refl(t), ("f64", "f32", "npscalars", "c128", "readonly")),
                       ("RY", ry(t), ("f64", "f32", "c128-negzero")),
                       ("S", S, ("c64-exact", "c128", "c128-negzero", "fortran")),
                       ("sqrtX", SQRTX, ("c64-exact", "view")),
                       ("haarU2", hu, ("c128", "c64", "fortran", "view", "readonly", "list-npscalars")),
                       ("-1*haarSU2", -to_su2(hu), ("c128", "view")),
                       ("i*RY", 1j * ry(t), ("c128", "readonly"))):
        for et in ets:
            for fn in ("check_u2", "check_su2", "u2_to_su2"):
                if fn == "check_su2" and et in DIV_REDUCED:
                    continue        # |det - 1| of a rounded matrix is ~1e-8: inside the band around isclose's 1e-9
                ctx.count("diversity:util." + fn)
                specs.append(dict(_mat(m), uname=nm, etype=et, entry="util." + fn, k=0, cs=None))
    return specs


def div_flagform_cases(ctx, nprng):
    """Flag-form pass of part B.  Options of the entry points of mcg.py / mcu.py / ldmcu.py / qdmcu.py:
      up_to_diagonal (Mcg constructor; bool)        True / False as bool, numpy.bool_, int 1 / 0; positional, keyword, all
                                                    keywords, alone; k = 1 (plain controlled gate: no effect), 2, 3, 4; U(2)
                                                    matrices (the flag selects controlled-(U / sqrt det U)) and SU(2) (no effect)
      error (MCU.mcu; `error == 0` -> exact Ldmcu)  0 as int, float 0.0, -0.0, np.float64, np.float32, np.int64, positional /
                                                    keyword / all keywords, k = 1, 2, 3, next to error > 0 (div_static_cases);
                                                    the MCU constructor itself rejects every zero (its own default `error=0`:
                                                    arccos(1) = 0 -> OverflowError; outside 'error in (0, 1)': counted)
      ctrl_state (all; "decimal or bitstring")      0 (all-open: falsy), 2^k - 1 and a middle value as int, np.int64, np.int32
                                                    and as the bit string, constructor and static helper, k = 1..4.  Ldmcu /
                                                    MCU convert (apply_ctrl_state): oracle + tie with the canonical string.
                                                    Qdmcu / Mcg annotate `str`: right or a clean exception (counted), never a
                                                    different pattern.
    Judged by the operator oracle of div_eval (exact: 1e-7; approximate MCU: same operator as the canonical build and the
    spectral bound); ties through div_tie with the canonical values."""
    import warnings
    from qiskit.quantum_info import Operator
    from qclib.gates.mcu import MCU
    r = ctx.rng
    ut = tie_u(nprng)
    su = to_su2(haar_u2(nprng))
    up = np.diag([1, np.exp(1j * r.uniform(0.25, 0.6))])
    specs = []
    i = 0
    # ---- (A) up_to_diagonal
    ctors = ("pos", "kw", "allkw", "default")
    for k in (1, 2, 3, 4):
        for nm, m in (("tieU", ut), ("S", S), ("su2", su)):
            for utd in (True, False):
                for uf in ("npbool", "int", "bool"):
                    i += 1
                    ctor = ctors[i % 4]
                    cs = None if ctor == "default" else "".join(r.choice("01") for _ in range(k))
                    sp = dict(_mat(m), uname=nm, entry="mcg", k=k, cs=cs, utd=utd, utd_form=uf, ctor=ctor,
                              flagform=f"up_to_diagonal:{uf}:{utd}")
                    specs.append(sp)
                    if nm == "tieU" and k in (2, 3) and uf != "bool":
                        div_tie(ctx, sp, m)
    # the flag on a host (append / inverse), where a second read of the definition happens
    for j, (form, uf, utd) in enumerate((("append", "npbool", True), ("inverse", "int", True), ("copy", "npbool", False),
                                         ("twice", "int", False), ("to_instruction", "npbool", True))):
        k = 2 + j % 2
        ctrl, tgt = PLACES[k][j % len(PLACES[k])]
        specs.append(dict(_mat(ut), uname="tieU", entry="mcg", form=form, k=k, cs="".join(r.choice("01") for _ in range(k)), utd=utd,
                          utd_form=uf, ctor=("kw", "pos")[j % 2], flagform=f"up_to_diagonal:{uf}:{utd}",
                          host=dict(name="q6", regs=HOSTS["q6"], qform=("int", "qubit")[j % 2], controls=ctrl, target=tgt)))
    # ---- (B) error == 0 of the static MCU.mcu in every numeric form
    calls = ("pos", "kw", "allkw")
    qfs = (("int", "q6"), ("qubit", "bca"), ("qubit", "abc"))
    for etag in ("int", "pyfloat", "negzero", "f64", "f32", "npint"):
        for k in (1, 2, 3):
            i += 1
            ctrl, tgt = PLACES[k][i % len(PLACES[k])]
            qf, hn = qfs[i % 3]
            sp = dict(_mat(ut), uname="tieU", entry="mcu", form="static", k=k, cs="".join(r.choice("01") for _ in range(k)),
                      call=calls[i % 3], error=0, etag=etag, flagform=f"error:{etag}:0",
                      host=dict(name=hn, regs=HOSTS[hn], qform=qf, controls=ctrl, target=tgt))
            specs.append(sp)
            if k >= 2:
                div_tie(ctx, sp, ut)
        # the constructor: error = 0 is its default and is rejected in every form (not a member of 'error in (0, 1)')
        e0 = div_err({"error": 0, "etag": etag})
        key = f"u2:flagforms:error:{etag}:0:MCU-constructor"
        with warnings.catch_warnings():
            warnings.simplefilter("ignore")
            try:
                g = MCU(ut, 2, e0)
            except (ValueError, OverflowError, ZeroDivisionError) as e:
                ctx.count(f"flagforms:error:{etag}:0:MCU-constructor:unsupported-{type(e).__name__}")
                continue
            try:
                err = float(np.abs(Operator(g.definition).data - ideal(ut, 2)).max())
            except Exception as e:
                ctx.fail(key + f":accepted-but-raises-{type(e).__name__}", f"MCU(U, 2, {e0!r}) accepted error = 0 but building the "
                         f"definition raises {type(e).__name__}: {str(e)[:120]}", rep("mcu", ut, 2, None, error=0))
                continue
        ctx.count(f"flagforms:error:{etag}:0:MCU-constructor:accepted")
        if not err <= TOL:
            ctx.fail(key, f"MCU(U, 2, {e0!r}) accepted error = 0; max |Operator - controlled-U| = {err:.3e}", rep("mcu", ut, 2, None, error=0))
        else:
            ctx.ok(key)
    # ---- (C) decimal ctrl_state at both ends of the range and in the middle
    kinds = [("ldmcu", "tieU", ut, {}), ("mcu", "P", up, {"approx": True}), ("mcu", "tieU", ut, {"error": 0}),
             ("qdmcu", "tieU", ut, {}), ("mcg", "tieU", ut, {}), ("mcg", "su2", su, {}), ("mcg", "tieU", ut, {"utd": True})]
    for entry, nm, m, extra in kinds:
        for k in (1, 2, 3, 4):
            ends = [("zero", "0" * k), ("ones", "1" * k)]
            if k >= 2:
                mid = "0" * k
                while mid in ("0" * k, "1" * k):
                    mid = "".join(r.choice("01") for _ in range(k))
                ends.append(("middle", mid))
            for where, cs in ends:
                cforms = ["int", "npint"] if where != "middle" else [("int", "npint")[i % 2]]
                if where != "middle" and k == 3:
                    cforms.append("npint32")
                if where != "middle" and k == 2:
                    cforms.append("str")
                for cf in cforms:
                    i += 1
                    static = extra.get("error") == 0 or i % 2 == 0
                    sp = dict(_mat(m), uname=nm, entry=entry, k=k, cs=cs, cs_form=cf, flagform=f"ctrl_state:{cf}:{where}")
                    if "utd" in extra:
                        static = False
                        sp["utd"] = True
                    if static:
                        ctrl, tgt = PLACES[k][i % len(PLACES[k])]
                        qf, hn = qfs[i % 3]
                        sp.update(form="static", call=calls[i % 3],
                                  host=dict(name=hn, regs=HOSTS[hn], qform=qf, controls=ctrl, target=tgt))
                    else:
                        sp["ctor"] = ("kw", "pos", "allkw")[i % 3]
                    if extra.get("error") == 0:
                        sp["error"] = 0
                    if extra.get("approx"):
                        st = div_mcu_setup(m, 1 if k >= 2 else 0, k=k)
                        if st is None:
                            continue
                        sp["error"] = st[1]
                    specs.append(sp)
                    if entry in ("ldmcu", "mcu") and cf != "str" and where != "middle" and k in (2, 3):
                        div_tie(ctx, sp, m)
    return specs


def diversity(ctx, nprng):
    specs = []
    for gen in (div_etype_cases, div_phase_cases, div_mcu_cases, div_static_cases, div_object_cases, div_size_cases, div_util_cases,
                div_flagform_cases):
        specs += gen(ctx, nprng)
    seen, uniq = set(), []
    for s in specs:
        key = div_key(s)
        if key not in seen:
            seen.add(key)
            uniq.append(s)
    done = list(zip(uniq, pool_map(div_eval, uniq)))
    # the two findings of this pass (real dtype + negative determinant in u2_to_su2: F-C04-12; int ctrl_state of MCU:
    # F-C04-13; both fixed in /repo, their keys kept as regression probes) are recorded LAST, so that any other failure of
    # a run is the one the VIOLATION line points to
    late = [i for i, (s, res) in enumerate(done) if div_reported_finding(s, res)]
    for i, (s, res) in enumerate(done):
        if i not in late:
            div_record(ctx, s, res)
    for i in late:
        div_record(ctx, *done[i])
    ctx.notes.append(f"c04_u2: input-diversity pass evaluated {len(uniq)} cases (element types, sign / phase structure, call "
                     f"forms, sizes); reduced-precision (float32 / complex64 rounded) inputs may be rejected by check_u2 "
                     f"(ValueError) or must be right to 1e-5 for the up-cast value; list / tuple matrices and int ctrl_state of "
                     f"Ldmcu / Qdmcu / Mcg are not supported forms (counted)")


# ------------------------------------------------------------------------------------------------
# entry points
# ------------------------------------------------------------------------------------------------

def run(ctx, kmax=None, kpat=None):
    nprng = ctx.nprng()
    conventions(ctx)
    kmax = kmax or (7 if ctx.quick else 9)
    kpat = kpat or 4
    ctx.notes.append("c04_u2: generated unitaries keep |det - 1| outside (1e-12, 1e-6) (isclose threshold 1e-9 of check_su2); "
                     "the boundary pass adds |det - 1| = 1e-10, 3e-10, 3e-9, 1e-8, 1e-6, 1e-4 (excluded band (3.3e-10, 3e-9)), "
                     "the SU(2) test of the tie / reference is computed independently of qclib; "
                     "and, outside the dedicated near-degenerate probes, eigenvalue gap 0 or > 1e-3; family members whose "
                     "SU(2) part is a real rotation with imaginary float dust (phase*RY, depending on the drawn phase) get "
                     "keys u2:imag-dust:... (threshold region of Ldmcsu's real-diagonal tests, probed on every run)")

    # ---- tie
    tie_pairs(ctx, 24 if ctx.quick else 40)
    ut = tie_u(nprng)
    su = to_su2(haar_u2(nprng))
    for k in range(0, kmax + 1):
        for cs in patterns(ctx, k, k <= kpat) if k else [None]:
            tie_gate(ctx, "ldmcu", ut, k, cs)
            if k >= 1:
                tie_gate(ctx, "qdmcu", ut, k, cs)
            tie_gate(ctx, "mcg", ut, k, cs)
            if k >= 2:
                tie_gate(ctx, "mcg", su, k, cs)
                tie_gate(ctx, "mcg", ut, k, cs, utd=True)
    # apply_ctrl_state with a string longer than the register ('0' beyond the controls -> IndexError)
    tie_gate(ctx, "ldmcu", ut, 2, "011")
    tie_gate(ctx, "ldmcu", ut, 2, "111")
    tie_numbase(ctx, nprng)
    for (u, k, e, b) in mcu_cases(ctx, kmax):
        for cs in ([None] + (patterns(ctx, k, True)[1:] if k <= 3 else [patterns(ctx, k, False)[-1]])):
            tie_mcu(ctx, u, k, e, cs)
    # negative / zero base counts (tiny angle, large error)
    for phi, e in ((0.01, 0.9), (0.2, 0.9), (0.4, 0.9), (0.3, 0.5)):
        tie_mcu(ctx, np.diag([1, np.exp(1j * phi)]), 3, e, None)
    entry_points(ctx, nprng)

    # ---- oracle
    known_probes(ctx)
    fam = family(ctx, nprng)
    tasks = []
    for k in range(1, kmax + 1):
        heavy = k >= 6
        # every matrix family at the default pattern and one random pattern
        for uname, u in fam:
            if heavy and uname not in ("haarU2", "phaseI", "X", "-I", "T", "RY", "haarSU2"):
                continue
            pats = [None, "".join(ctx.rng.choice("01") for _ in range(k))]
            for cs in pats:
                for cls in ("ldmcu", "qdmcu", "mcg"):
                    tasks.append((cls, uname, u, k, cs, {}))
        # every pattern with rotating matrices
        if k <= kpat:
            hu = dict(fam)
            for i, cs in enumerate(patterns(ctx, k, True)[1:]):
                uname, u = fam[(i * 5 + k) % len(fam)]
                for cls in ("ldmcu", "qdmcu", "mcg"):
                    tasks.append((cls, uname, u, k, cs, {}))
                tasks.append(("ldmcu", "haarU2", hu["haarU2"], k, cs, {}))
                tasks.append(("qdmcu", "haarU2b", hu["haarU2b"], k, cs, {}))
    # up_to_diagonal on matrices outside SU(2): controlled-(U / sqrt(det U)), no exception
    for k in range(2, min(kmax, 5) + 1):
        for uname in ("haarU2", "S", "phaseI", "X", "phase*RY"):
            for cs in (None, "".join(ctx.rng.choice("01") for _ in range(k))):
                tasks.append(("mcg", uname, dict(fam)[uname], k, cs, {"utd": True}))
    tasks = list({(t[0], t[1], t[3], t[4], bool(t[5])): t for t in tasks}.values())
    for t, res in zip(tasks, pool_map(eval_exact, tasks)):
        record_exact(ctx, t, res)

    # ---- MCU: spectral-norm bound
    r = ctx.rng
    mt = []
    for k in range(1, min(kmax, 8) + 1):
        for uname, u in [("X", X), ("Z", Z)] + [(f"haar{j}", haar_u2(nprng)) for j in range(3 if ctx.quick else 8)] \
                + [("P", np.diag([1, np.exp(1j * r.uniform(0.05, 3.1))])) for _ in range(2)]:
            for err in [r.uniform(0.01, 0.99) for _ in range(2)] + [0.9, 0.3]:
                cs = r.choice([None, "".join(r.choice("01") for _ in range(k))])
                mt.append((uname, u, k, err, cs))
    for (u, k, e, b) in mcu_cases(ctx, min(kmax, 8)):
        mt.append((f"base{b}", u, k, e, None))
    n_acc = 0
    for t, res in zip(mt, pool_map(eval_mcu, mt)):
        n_acc += bool(record_mcu(ctx, t, res))
    ctx.notes.append(f"c04_u2: MCU accepted {n_acc} of {len(mt)} parameter sets in the oracle (a Haar U(2) whose dominant "
                     f"eigen-angle is negative is rejected by the constructor: log2 of a negative quotient)")
    if kmax <= 7:
        boundary(ctx, nprng)
    diversity(ctx, nprng)


def search(ctx, hints):
    for h in hints:
        op = h.get("op", {})
        if op.get("op") in ("ldmcu", "qdmcu", "mcg") and op.get("k", 0) >= 1:
            u = haar_u2(ctx.nprng())
            oracle_exact(ctx, op["op"], "haarU2", u, op["k"], op.get("cs"))
        if op.get("op") == "mcu" and op.get("k", 0) >= 1:
            for phi in (0.5, 1.5, 3.0):
                for e in (0.05, 0.2, 0.6):
                    oracle_mcu(ctx, "P", np.diag([1, np.exp(1j * phi)]), op["k"], e, op.get("cs"))
    run(ctx, kmax=8, kpat=5)


def replay(ctx, r):
    if r.get("probe") == "known":
        known_probes(ctx)
        return
    if r.get("probe") == "entry-points":
        entry_points(ctx, ctx.nprng())
        return
    if r.get("probe") == "diversity":
        div_record(ctx, r, div_eval(r))
        return
    u = np.array(r["unitary_re"]) + 1j * np.array(r["unitary_im"])
    cls, k, cs = r["call"], int(r["k"]), r.get("ctrl_state")
    if cls == "mcu":
        oracle_mcu(ctx, r.get("uname", "U"), u, k, float(r["error"]), cs)
    else:
        kw = {"utd": True} if r.get("utd") else {}
        if r.get("state") or k >= 10:
            kw["state"] = True
        oracle_exact(ctx, cls, r.get("uname", "U"), u, k, cs, **kw)
