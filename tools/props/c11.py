"""C11 — ancilla-tree state preparation (BdspInitialize / DcspInitialize).

Anchors: qclib/state_preparation/{bdsp,dcsp}.py, util/{tree_register,tree_walk,tree_utils,
angle_tree_preparation,state_tree_preparation}.py, qclib/gates/ucr.py.
"""
import cmath
import contextlib
import math
import os
import numpy as np

import framework

CLAIMED = True
TECHNIQUE = ("Lean 4 proofs by induction on the tree, all n and all splits: widths, allocation and read-safety of add_register, "
             "placement of the top-down multiplexers, controlled-swap routing, closed form of top_down;bottom_up in "
             "amplitude-function semantics (C13's multiplexer proof re-done on arbitrary wires), summation of squared moduli "
             "over ancilla assignments, half-angle algebra over R; executable model tied to the real code by diffing allocation "
             "tables, widths and flattened gate lists; exact marginals from state vectors as oracle")
LEVEL_TEXT = ("FULL proof for the model, all n>=1 and all 1<=s<=n: allocated width = circuit width = declared width = "
              "(s+1)*2^(n-s)-1, DCSP 2^n-1, default split ceil(n/2) (C11_width); allocation injective, wires n-1..0 down the left "
              "spine then the ancilla register reversed, every .qubit read hits an allocated node, top-down multiplexers sit on "
              "the chain ancestors' wires with 2^d angles (C11_alloc); s=n allocates no ancilla and emits only the top-down "
              "cascade (C11_s_eq_n) and the prepared amplitude is e^{-i rootArg} a_k, i.e. the vector up to one global phase "
              "(C11_s_eq_n_state). C11_marginal (BdspInitialize, every split) and C11_marginal_dcsp (DcspInitialize): for every "
              "unit vector incl. zeros / zero sub-trees / phases and every input state whose circuit wires are |0> (spectators "
              "arbitrary), summing |amplitude|^2 of the model's gate list over all ancilla assignments gives |a_k|^2 for the k "
              "read on the output wires - exact real/complex arithmetic, `angle != 0.0` and the 1e-8 leaf test modelled as "
              "`angle = 0`. C11_topdown_block: the top-down cascade on a complete block prepares the path-product amplitude "
              "(reusable for C01). Tie: allocation tables, widths and full flattened gate lists of the real "
              "BdspInitialize/DcspInitialize vs the model for every (n<=5 quick / <=6 thorough, every s and the default) over nine "
              "vector families; oracle: exact output marginals vs |a_k|^2 (every s), three-way width equality, s=n state vs vector "
              "up to phase.")
LEVEL_NOTE = ("Trusted: Lean kernel (standard axioms); hand model <-> code beyond the explored sizes (recursions uniform in n); the "
              "builtins abs/cmath.phase (leaf values are read from the real state tree and cross-checked in the driver); libm "
              "sqrt/pow/asin; qiskit ry/rz/cx/cswap matrices (validated each run); IEEE floats vs exact reals (the tests "
              "`angle != 0.0` and ucr's `abs(angle) > 1e-8` are exact zero tests in the theorems; generated amplitudes are exact "
              "zeros or well away from 0).")
LEAN_TARGETS = ["QclibModel.Props.C11"]
THEOREMS = ["Qclib.C11_width", "Qclib.C11_alloc", "Qclib.C11_s_eq_n", "Qclib.C11_s_eq_n_state", "Qclib.C11_marginal",
            "Qclib.C11_marginal_dcsp", "Qclib.C11_topdown_block", "Qclib.C11_marginal_ingredients",
            "Qclib.C11_split_src", "Qclib.C11_declared_src", "Qclib.C11_dcsp_src"]
TRUSTED = [
    "abs(complex) and cmath.phase: leaf (mag,arg) are taken from the real state tree and re-checked against sqrt(re^2+im^2), atan2 to 1e-12",
    "qiskit ry/rz/cx/cswap matrices equal matRY/matRZ/X/controlled swapBits of Sem/Denote.lean (validated numerically each run)",
    "float: `x != 0.0`, `mag > 1.0` are exact comparisons in the theorem; generated amplitudes are exact zeros or >= 1e-3",
    "tools/py2lean.py: the default-split statements of BdspInitialize.__init__ and both _get_num_qubits are re-translated from "
    "the source on every run (Gen/TreeWidth.lean) and proved equal to the hand models bdspDefaultSplit/bdspDeclared/"
    "dcspDeclared (C11_split_src, C11_declared_src, C11_dcsp_src); the translator is kept honest by the second tie "
    "(generated definitions run by the driver vs the real constructors, every (len, opt_params) with len <= 2^7)",
]
ASSUMPTIONS = ["exact real arithmetic in the theorems; implementation compared to 1e-7 (tie) / 1e-7 (oracle)",
               "all tree wires start in |0>"]
RULE = ("tie: (class, n, split-or-default, vector) whose allocation table, widths and flattened gate list were diffed against the "
        "Lean model; oracle: exact marginal of qubits 0..n-1 vs |a_k|^2, width three-way equality, s=n overlap; non-trivial = "
        "n>=2 and at least two non-zero amplitudes")
DRIVER = "Drivers/C11.lean"

GEN_FILE = os.path.join(framework.LEAN, "QclibModel", "Gen", "TreeWidth.lean")
GEN_SOURCES = ["qclib/state_preparation/bdsp.py", "qclib/state_preparation/dcsp.py"]
SRC_THEOREMS = ["Qclib.C11_split_src", "Qclib.C11_declared_src", "Qclib.C11_dcsp_src"]


def generate(ctx):
    """Re-translate the width arithmetic of bdsp.py / dcsp.py from the current source (a refusal raises: broken obligation)."""
    import py2lean
    import srctie
    py2lean.ensure_prelude(framework.LEAN)
    ns = "Qclib.Gen.TreeWidth"
    b, d = GEN_SOURCES

    def tb(rel, *a, **k):
        return py2lean.translate_block(os.path.join(framework.REPO, rel), *a, relpath=rel, **k)
    blocks = [
        # everything of __init__ before `self._name = ...` that binds self.split
        tb(b, "BdspInitialize.__init__", "bdsp_split", ns, result="self.split", stop=r"^self\._name\b",
           views={"len(params)": "len_params", "opt_params is None": ("opt_none", "Bool"),
                  "opt_params.get('split')": ("opt_split", "OptInt")}),
        tb(b, "BdspInitialize._get_num_qubits", "bdsp_num_qubits", ns, result="self.num_qubits",
           params=[("self.split", "Int")], views={"len(params)": "len_params"}),
        tb(d, "DcspInitialize._get_num_qubits", "dcsp_num_qubits", ns, result="self.num_qubits",
           views={"len(params)": "len_params"}),
    ]
    text = py2lean.write_module(GEN_FILE, blocks, GEN_SOURCES)
    srctie.verify(ctx, "QclibModel.Props.C11", SRC_THEOREMS)
    return {"file": os.path.relpath(GEN_FILE, framework.VERIF), "bytes": len(text),
            "translated": ["BdspInitialize.__init__ (self.split)", "BdspInitialize._get_num_qubits",
                           "DcspInitialize._get_num_qubits"]}


def gen_width_tie(ctx):
    """Second tie of the translation: the generated definitions, run by the driver, against the REAL constructors for every
    length 2..2^7 (powers of two and not) and every way of (not) passing a split."""
    from qclib.state_preparation.bdsp import BdspInitialize
    from qclib.state_preparation.dcsp import DcspInitialize
    lens = [2, 3, 4, 5, 6, 7, 8, 12, 16, 17, 31, 32, 33, 64, 100, 128]
    for ln in lens:
        v = np.zeros(ln, dtype=complex)
        v[0] = 1.0
        nq = int(math.log2(ln))
        opts = [("none", None), ("empty", {}), ("split-none", {"split": None})] + [(f"s={s}", {"split": s}) for s in range(1, nq + 1)]
        try:
            dc = DcspInitialize(v).num_qubits
        except Exception as e:
            dc = f"raised-{type(e).__name__}"
        for tag, opt in opts:
            try:
                g = BdspInitialize(v, opt_params=opt)
                lines = [f"split {g.split} ;", f"declared {g.num_qubits} ;", f"dcsp {dc} ;"]
            except Exception as e:
                lines = [f"raised {type(e).__name__} ;"]
            has = opt is not None and opt.get("split") is not None
            ctx.tie({"op": "gen_widths", "len": ln, "opt_none": opt is None, "has_split": bool(has),
                     "s": int(opt["split"]) if has else 0}, lines, label=f"translated widths len={ln} opt={tag}",
                    compare=lambda op, impl, model: None if impl == model else f"impl={impl!r} generated={model!r}")
            ctx.count("gen-widths")


TOL = 1e-7
DENSE_CAP = 11      # qiskit Statevector
OWN_CAP_QUICK = 15  # own numpy state-vector propagation of the flattened gate list
OWN_CAP_THOROUGH = 23


# ------------------------------------------------------------------------------------------------
# vectors
# ------------------------------------------------------------------------------------------------

FAMILIES = ["complex", "real_signed", "nonneg", "sparse", "zero_subtree", "left_zero", "basis", "uniform", "phases"]


def make_vector(ctx, n, family):
    r = ctx.nprng()
    dim = 2 ** n

    def amp(cplx):
        m = r.uniform(0.2, 1.0)
        if cplx:
            return m * np.exp(1j * r.uniform(-3.0, 3.0))
        return m * r.choice([-1.0, 1.0])

    v = np.zeros(dim, dtype=complex)
    if family == "complex":
        v = np.array([amp(True) for _ in range(dim)])
    elif family == "real_signed":
        v = np.array([amp(False) for _ in range(dim)], dtype=complex)
    elif family == "nonneg":
        v = np.array([r.uniform(0.2, 1.0) for _ in range(dim)], dtype=complex)
    elif family == "sparse":
        k = max(1, int(r.integers(1, max(2, dim // 2 + 1))))
        for i in r.choice(dim, size=k, replace=False):
            v[i] = amp(bool(r.integers(2)))
    elif family == "zero_subtree":
        v = np.array([amp(True) for _ in range(dim)])
        # zero out one or two aligned blocks (entire sub-trees), never everything
        for _ in range(int(r.integers(1, 3))):
            lev = int(r.integers(0, n)) if n > 0 else 0
            size = 2 ** lev
            start = int(r.integers(0, dim // size)) * size
            w = v.copy()
            w[start:start + size] = 0
            if np.any(w != 0):
                v = w
    elif family == "left_zero":
        v = np.array([amp(True) if i % 2 else 0.0 for i in range(dim)], dtype=complex)
    elif family == "basis":
        v[int(r.integers(dim))] = r.choice([1.0, -1.0, 1j, np.exp(1j * r.uniform(-3, 3))])
    elif family == "uniform":
        v = np.ones(dim, dtype=complex)
    elif family == "phases":
        v = np.array([np.exp(1j * r.uniform(-3.0, 3.0)) for _ in range(dim)])
    else:
        raise ValueError(family)
    v = v / np.linalg.norm(v)
    # no negative zeros (the JSON channel to the Lean driver does not carry the sign of zero)
    return np.array([complex(float(a.real) + 0.0, float(a.imag) + 0.0) for a in v])


# ------------------------------------------------------------------------------------------------
# running the real code
# ------------------------------------------------------------------------------------------------

@contextlib.contextmanager
def capture(mod):
    """Wrap `add_register` / `state_decomposition` as imported by bdsp.py / dcsp.py to look at the
    trees the real `_define_initialize` works on (no source hook)."""
    cap = {}
    orig_add, orig_sd = mod.add_register, mod.state_decomposition

    def add_register(circuit, angle_tree, start_level):
        res = orig_add(circuit, angle_tree, start_level)
        cap["angle_tree"], cap["circuit"], cap["start_level"] = angle_tree, circuit, start_level
        return res

    def state_decomposition(nqubits, data):
        t = orig_sd(nqubits, data)
        cap["state_tree"] = t
        return t

    mod.add_register, mod.state_decomposition = add_register, state_decomposition
    try:
        yield cap
    finally:
        mod.add_register, mod.state_decomposition = orig_add, orig_sd


FORMS = ["plain", "empty-opt", "split-none", "label", "ndarray", "static", "static-qubits"]


def declared_width(kind, n, s):
    if kind == "dcsp":
        return 2 ** n - 1
    seff = math.ceil(n / 2) if s is None else s
    return (seff + 1) * 2 ** (n - seff) - 1


def build(kind, v, s, form="plain", wires=None):
    """Returns (gate, definition, captured trees).  `form` selects the way the gate is requested (same
    gate, different entry path of bdsp.py / dcsp.py); for the static forms cap["host"] is the circuit the
    gate was appended to and cap["wires"] the wires asked for."""
    from qiskit import QuantumCircuit
    n = int(round(math.log2(len(v))))
    if kind == "bdsp":
        import qclib.state_preparation.bdsp as mod
        cls = mod.BdspInitialize
        opt = None if s is None else {"split": s}
        if form == "empty-opt":
            opt = {}
        elif form == "split-none":
            opt = {"split": None}
        kw = {"opt_params": opt}
    else:
        import qclib.state_preparation.dcsp as mod
        cls = mod.DcspInitialize
        kw = {}
    with capture(mod) as cap:
        if form == "label":
            gate = cls(list(v), label="psi", **kw)
        elif form == "ndarray":
            gate = cls(np.asarray(v), **kw)
        elif form == "ndarray-refill":
            # the caller's complex128 buffer is refilled between construction and the lazy definition:
            # the gate must prepare the vector it was built from (its params), not the buffer's later content
            buf = np.array(v, dtype=complex)
            gate = cls(buf, **kw)
            buf[:] = np.roll(np.conj(buf), 1) * 1j if len(buf) > 1 else -buf
            if len(buf) > 1 and np.allclose(np.abs(buf), np.abs(np.asarray(v, dtype=complex))):
                buf[:] = 0
                buf[0] = 1
        elif form in ("static", "static-qubits"):
            w = declared_width(kind, n, s)
            host = QuantumCircuit(w if form == "static" else w + 1)
            if form == "static":
                cls.initialize(host, list(v), **kw)
                wires = list(range(w))
            else:
                cls.initialize(host, list(v), qubits=list(wires), **kw)
            gate = host.data[0].operation
            cap["host"], cap["wires"] = host, list(wires)
        else:
            gate = cls(list(v), **kw)
        d = gate.definition
    return gate, d, cap


def leaves_of(state_tree):
    out = []

    def walk(t):
        if t.left is None and t.right is None:
            out.append((t.index, float(t.mag), float(t.arg)))
        else:
            walk(t.left)
            walk(t.right)
    walk(state_tree)
    out.sort()
    return [m for _, m, _ in out], [a for _, _, a in out]


def alloc_lines(cap):
    circ = cap["circuit"]
    lines, used = [], 0

    def walk(t):
        nonlocal used
        if t is None:
            return
        q = getattr(t, "qubit", None)
        qi = -1 if q is None else circ.find_bit(q).index
        used += q is not None
        lines.append(f"alloc {t.level} {t.index} {qi} ;")
        walk(t.left)
        walk(t.right)
    walk(cap["angle_tree"])
    return lines, used


def impl_dump(kind, gate, d, cap):
    from flatten import flatten, to_lines
    split = gate.split if kind == "bdsp" else 1
    noutput = [r.size for r in d.qregs if r.name == "output"]
    al, used = alloc_lines(cap)
    return ([f"split {split} ;", f"declared {gate.num_qubits} ;", f"circwidth {d.num_qubits} ;",
             f"noutput {noutput[0] if noutput else -1} ;", f"unused {d.num_qubits - used} ;", "readsok 1 ;"]
            + al + to_lines(flatten(d)))


def compare(op, impl, model):
    import framework
    model = [l for l in model if not l.startswith("nqubits ")]
    return framework.diff_lines(impl, model, tol=TOL)


# ------------------------------------------------------------------------------------------------
# oracle
# ------------------------------------------------------------------------------------------------

def own_statevector(gates, nq):
    """Independent propagation of |0..0> through a flattened gate list over {ry, rz, cx, cswap}."""
    psi = np.zeros((2,) * nq, dtype=complex)
    psi[(0,) * nq] = 1.0
    ax = lambda q: nq - 1 - q      # axis of qubit q (qubit 0 = least significant = last axis)

    def one(m, q):
        nonlocal psi
        psi = np.moveaxis(np.tensordot(m, psi, axes=([1], [ax(q)])), 0, ax(q))

    for name, qs, ps in gates:
        if name == "ry":
            c, s = math.cos(ps[0] / 2), math.sin(ps[0] / 2)
            one(np.array([[c, -s], [s, c]], dtype=complex), qs[0])
        elif name == "rz":
            one(np.diag([cmath.exp(-0.5j * ps[0]), cmath.exp(0.5j * ps[0])]), qs[0])
        elif name == "cx":
            c, t = qs
            idx = [slice(None)] * nq
            idx[ax(c)] = 1
            sub = psi[tuple(idx)]
            a = ax(t) - (1 if ax(t) > ax(c) else 0)
            psi[tuple(idx)] = np.flip(sub, axis=a)
        elif name == "cswap":
            c, a, b = qs
            idx = [slice(None)] * nq
            idx[ax(c)] = 1
            sub = psi[tuple(idx)]
            aa = ax(a) - (1 if ax(a) > ax(c) else 0)
            bb = ax(b) - (1 if ax(b) > ax(c) else 0)
            psi[tuple(idx)] = np.swapaxes(sub, aa, bb)
        elif name == "gphase":
            psi = psi * cmath.exp(1j * ps[0])
        else:
            raise NotImplementedError(name)
    return psi.reshape(-1)


def final_state(ctx, d, cap_own):
    from flatten import flatten
    nq = d.num_qubits
    if nq <= DENSE_CAP:
        from qiskit.quantum_info import Statevector
        ctx.count("oracle:qiskit-statevector")
        return Statevector(d).data
    if nq <= cap_own:
        ctx.count("oracle:own-propagation")
        return own_statevector(flatten(d), nq)
    return None


def oracle_case(ctx, kind, v, s, family, cap_own=None, form="plain", wires=None, builder=None, rep_extra=None):
    """`v`: the input as a complex array (the harness's own conversion of what the user passed); `builder`: optional
    callable returning (gate, definition, capture) for call forms that `build` does not know (diversity section)."""
    cap_own = cap_own or (OWN_CAP_QUICK if ctx.quick else OWN_CAP_THOROUGH)
    n = int(round(math.log2(len(v))))
    stag = "default" if s is None else str(s)
    base = f"{kind}:n={n}:s={stag}:{family}" + ("" if form == "plain" else f":form={form}")
    rep = {"class": "BdspInitialize" if kind == "bdsp" else "DcspInitialize", "kind": kind, "n": n, "s": s,
           "family": family, "re": [float(a.real) for a in v], "im": [float(a.imag) for a in v], "form": form, "wires": wires}
    rep.update(rep_extra or {})
    try:
        gate, d, cap = builder() if builder else build(kind, v, s, form, wires)
    except Exception as e:  # construction must never fail on a valid input
        ctx.fail(base + ":raises", f"{type(e).__name__}: {e}", rep)
        return
    if form != "plain" and builder is None:
        ctx.count("branch:call-form:" + kind + ":" + form)
    # tree_register.output: the library's own list of output qubits is wires 0..n-1 of the definition, in order
    try:
        from qclib.state_preparation.util.tree_register import output as output_helper
        outq = []
        output_helper(cap["angle_tree"], outq)
        out_idx = [cap["circuit"].find_bit(q).index for q in outq]
    except Exception as e:
        out_idx = f"{type(e).__name__}: {e}"
    if out_idx != list(range(n)):
        ctx.fail(base + ":output-helper", f"tree_register.output lists wires {out_idx}, expected 0..{n - 1}", rep)
        return
    ctx.count("branch:tree_register.output")
    want = np.abs(v) ** 2
    want = want / want.sum()     # == |a_k|^2 for a unit vector (float32 inputs are unit only to 1e-7)
    if "host" in cap:
        host = cap["host"]
        wires_list = cap.get("wires_list") or [cap["wires"]]
        got = [[host.find_bit(q).index for q in inst.qubits] for inst in host.data]
        if got != [list(w) for w in wires_list]:
            ctx.fail(base + ":static-wiring", f"gate appended on wires {got}, asked {wires_list}", rep)
            return
        if host.num_qubits <= DENSE_CAP:
            # marginal of the host circuit on the wires that carry the gate's output qubits 0..n-1
            from qiskit.quantum_info import Statevector
            hsv = Statevector(host)
            for wl in wires_list:
                pr = hsv.probabilities([wl[k] for k in range(n)])
                err = float(np.abs(pr - want).max())
                if err > TOL:
                    ctx.fail(base + ":static-marginal", f"host-circuit marginal on wires {wl[:n]} off by {err:.3e}", rep)
                    return
            ctx.count("branch:static-host-marginal-checked")
    seff = gate.split if kind == "bdsp" else 1
    # the ideal width comes from the REQUESTED split (or ceil(n/2)), not from what the gate says it used
    formula = declared_width(kind, n, s)
    if kind == "bdsp" and seff != gate_split(n, s):
        ctx.fail(base + (":default-split" if s is None else ":split"),
                 f"gate.split = {seff!r}, requested {'default ceil(n/2) = ' + str(math.ceil(n / 2)) if s is None else s}", rep)
        return
    if not (gate.num_qubits == d.num_qubits == formula):
        ctx.fail(base + ":width", f"declared {gate.num_qubits}, circuit {d.num_qubits}, formula {formula}",
                 dict(rep, declared=gate.num_qubits, circuit=d.num_qubits, formula=formula))
        return
    psi = final_state(ctx, d, cap_own)
    if psi is None:
        ctx.count("oracle:width-only")
        ctx.ok(base + ":width", nontrivial=False)
        return
    probs = (np.abs(psi) ** 2).reshape(-1, 2 ** n).sum(axis=0)
    err = float(np.abs(probs - want).max())
    nz = int(np.sum(np.abs(v) > 0))
    if err > TOL:
        k = int(np.argmax(np.abs(probs - want)))
        ctx.fail(base + ":marginal", f"P(output={k}) = {probs[k]:.9f}, |a_k|^2 = {want[k]:.9f} (max err {err:.3e})",
                 dict(rep, observed=probs.tolist(), expected=want.tolist()))
        return
    # light entries (|a_k|^2 <= 1e-6, i.e. amplitudes 1e-3 .. 0): the same marginal compared to 1e-9 absolute and
    # as a modulus sqrt(P) vs |a_k| to 1e-7 (a dropped amplitude of 1e-6 is a modulus error of 1e-6; the float
    # noise of 2*asin next to 1 is <= 3e-8 on the angle, <= 1.5e-8 on a modulus)
    light = want <= 1e-6
    lerr = float(np.abs(probs - want)[light].max()) if light.any() else 0.0
    merr = float(np.abs(np.sqrt(probs) - np.sqrt(want)).max())
    if lerr > 1e-9 or merr > TOL:
        k = int(np.argmax(np.abs(np.sqrt(probs) - np.sqrt(want))))
        ctx.fail(base + ":marginal-light", f"sqrt P(output={k}) = {math.sqrt(probs[k]):.3e}, |a_k| = {math.sqrt(want[k]):.3e} "
                 f"(light-entry probability err {lerr:.3e}, modulus err {merr:.3e})",
                 dict(rep, observed=probs.tolist(), expected=want.tolist()))
        return
    if light.any() and float(want[light].max()) > 0:
        ctx.count("oracle:light-entries-checked")
    if kind == "bdsp" and gate_split(n, s) == n:
        vn = v / np.linalg.norm(v)
        ip = np.vdot(vn, psi)
        ov = abs(ip)
        # entrywise: psi = e^{i g} v with ONE phase g (the overlap alone is second order in an amplitude error)
        dev = float(np.abs(psi - (ip / ov) * vn).max()) if ov > 0 and d.num_qubits == n else 1.0
        if d.num_qubits != n or abs(ov - 1) > TOL or dev > TOL:
            ctx.fail(base + ":s=n-state", f"|<v|psi>| = {ov:.9f}, max |psi_k - e^(ig) a_k| = {dev:.3e}, width {d.num_qubits}",
                     dict(rep, overlap=float(ov)))
            return
        ctx.count("oracle:s=n-entrywise-checked")
    ctx.ok(base, nontrivial=n >= 2 and nz >= 2,
           sample={"class": rep["class"], "n": n, "s": s, "family": family, "width": d.num_qubits,
                   "nonzeros": nz, "max_marginal_err": err})
    return cap


def tie_case(ctx, kind, v, s, family, form="plain", wires=None, builder=None):
    try:
        gate, d, cap = builder() if builder else build(kind, v, s, form, wires)
    except Exception:
        return  # reported by the oracle as `:raises`
    mag, arg = leaves_of(cap["state_tree"])
    op = {"op": kind, "default": s is None, "s": 0 if s is None else s, "family": family,
          "re": [float(a.real) for a in v], "im": [float(a.imag) for a in v], "mag": mag, "arg": arg}
    n = int(round(math.log2(len(v))))
    ctx.tie(op, impl_dump(kind, gate, d, cap), label=f"{kind} n={n} s={'default' if s is None else s} {family}"
            + ("" if form == "plain" else " form=" + form))
    ctx.count(f"tie:{kind}")


def gate_conventions(ctx):
    """K4: qiskit's cswap / ry / rz / cx are the matrices the Lean denotation uses, and the own
    propagation agrees with qiskit's Statevector."""
    from qiskit import QuantumCircuit
    from qiskit.quantum_info import Statevector, Operator
    from flatten import flatten
    qc = QuantumCircuit(3)
    qc.cswap(2, 0, 1)
    m = Operator(qc).data
    want = np.eye(8)
    want[[5, 6]] = want[[6, 5]]     # |1 01> <-> |1 10>  (qubit 2 = control = most significant)
    ctx.assumption_checks += 1
    if np.abs(m - want).max() > 1e-12:
        ctx.fail("assumption:cswap-matrix", "cswap convention changed", kind="assumption")
    r = ctx.nprng()
    qc = QuantumCircuit(4)
    for _ in range(12):
        a, b, c = (int(x) for x in r.choice(4, size=3, replace=False))
        qc.ry(float(r.uniform(-3, 3)), a)
        qc.rz(float(r.uniform(-3, 3)), b)
        qc.cx(a, b)
        qc.cswap(c, a, b)
    ctx.assumption_checks += 1
    e = np.abs(Statevector(qc).data - own_statevector(flatten(qc), 4)).max()
    if e > 1e-12:
        ctx.fail("assumption:own-propagation", f"own simulator differs from qiskit by {e}", kind="assumption")


def cases(ctx, nmax, reps):
    for n in range(1, nmax + 1):
        for fam in FAMILIES:
            for _ in range(reps if fam in ("complex", "sparse", "zero_subtree") else 1):
                v = make_vector(ctx, n, fam)
                for s in [None] + list(range(1, n + 1)):
                    yield "bdsp", n, v, s, fam
                yield "dcsp", n, v, None, fam


def form_cases(ctx):
    """Entry paths of bdsp.py / dcsp.py that the (vector, split) grid does not take: opt_params {} and
    {'split': None} (default split computed in the else-branch), a label, ndarray params, the static
    `initialize` with qubits=None and with an explicit permuted wire list on a wider host circuit; a complex128
    buffer that the caller refills between construction and the lazy definition (seeded change C11i)."""
    r = ctx.rng
    for n in (1, 2, 3, 4, 5):
        fam = r.choice(["complex", "sparse", "zero_subtree", "real_signed"])
        v = make_vector(ctx, n, fam)
        for form in ("empty-opt", "split-none"):
            # bdsp.py:56,59: opt_params None (the grid) / {} / {'split': None}, odd and even n
            yield "bdsp", n, v, None, fam, form, None
        if n > 3:
            continue
        for kind in ("bdsp", "dcsp"):
            ss = [None] if kind == "dcsp" else [None, r.randint(1, n)]
            for s in ss:
                for form in ("label", "ndarray", "ndarray-refill", "static", "static-qubits"):
                    wires = None
                    if form == "static-qubits":
                        w = declared_width(kind, n, s)
                        wires = r.sample(range(w + 1), w)
                    yield kind, n, v, s, fam, form, wires


# ------------------------------------------------------------------------------------------------
# boundary-value cases (every comparison of the anchored files on a size / level / threshold)
# ------------------------------------------------------------------------------------------------

def _clean(v):
    v = np.asarray(v, dtype=complex)
    v = v / np.linalg.norm(v)
    return np.array([complex(float(a.real) + 0.0, float(a.imag) + 0.0) for a in v])


def _dense(ctx, n):
    r = ctx.nprng()
    return np.array([r.uniform(0.3, 1.0) * np.exp(1j * r.uniform(-1.0, 1.0)) for _ in range(2 ** n)])


def _nodes(n):
    """(level, node index) pairs: every level, first and last node of the level."""
    for lev in range(n):
        for j in sorted({0, 2 ** lev - 1}):
            yield lev, j


def zero_node_vectors(ctx, n):
    """`state_tree.mag != 0.0` (angle_tree_preparation.py:53), `angle_y != 0.0` (tree_walk.py:32,89),
    `any(angles_y)` (tree_walk.py:65): at every level the first / last node gets norm exactly 0 on its left
    child, its right child, or both."""
    for lev, j in _nodes(n):
        size = 2 ** (n - lev)
        for which in ("left", "right", "both"):
            if lev == 0 and which == "both":
                continue
            v = _dense(ctx, n)
            lo = j * size + (size // 2 if which == "right" else 0)
            hi = j * size + (size // 2 if which == "left" else size)
            v[lo:hi] = 0.0
            yield _clean(v), f"bnd-zero:l={lev}:j={'first' if j == 0 else 'last'}:{which}", f"zero-node:{which}"


# relative magnitudes eps of one child: angle_y = 2*asin(eps/sqrt(1+eps^2)) ~ 2*eps, on both sides of
# `!= 0.0` (exact 0 is zero_node_vectors; 1e-12 is the nearest value used) and of ucr's `abs(angle) > 1e-8`
# (3e-9 below, 3e-8 above); 1e-3 is the next "ordinary" size.
TINY = [("1e-12", 1e-12), ("3e-9", 1.5e-9), ("3e-8", 1.5e-8), ("2e-3", 1e-3)]


def tiny_child_vectors(ctx, n):
    """One child of a node carries a relative magnitude eps: the right child tiny puts angle_y just above 0
    (bottom-up `!= 0.0`, top-down `any`, and ucr's single-angle 1e-8 test when the node is a top-down
    sub-tree root, i.e. level == n - s); the left child tiny puts mag/parent one ulp below / at 1.0
    (angle_tree_preparation.py:61 `mag > 1.0`) and makes `state_tree.mag` of the left child tiny but != 0."""
    for lev, j in _nodes(n):
        size = 2 ** (n - lev)
        for side in ("left", "right"):
            for tag, eps in TINY:
                v = _dense(ctx, n)
                a, m, b = j * size, j * size + size // 2, (j + 1) * size
                v[a:m] /= np.linalg.norm(v[a:m])
                v[m:b] /= np.linalg.norm(v[m:b])
                if side == "left":
                    v[a:m] *= eps
                else:
                    v[m:b] *= eps
                yield _clean(v), f"bnd-tiny:l={lev}:j={'first' if j == 0 else 'last'}:{side}:{tag}", \
                    f"tiny-child:{side}:{tag}"


def from_angles(n, ys, zs):
    """Vector whose angle tree is (ys, zs): ys[l][j], zs[l][j] for node j of level l.  amplitude_k =
    prod_l cos|sin(y/2), phase_k = sum_l -+ z/2 (then angle_z = right.arg - left.arg = z exactly up to 1e-16)."""
    v = np.zeros(2 ** n, dtype=complex)
    for k in range(2 ** n):
        mag, ph = 1.0, 0.0
        for lev in range(n):
            j = k >> (n - lev)
            bit = (k >> (n - lev - 1)) & 1
            y, z = ys[lev][j], zs[lev][j]
            # exact zeros for y == 0 (right child vanishes); never use y == pi here
            mag *= (math.sin(y / 2) if bit else math.cos(y / 2))
            ph += (z / 2 if bit else -z / 2)
        v[k] = mag * cmath.exp(1j * ph) if mag != 0.0 else 0.0
    return v


def angle_pattern_vectors(ctx, n):
    """tree_walk.py:65-70 `any(angles_y)` / `any(angles_z)` / `last_control=not any(..)`: per level of the
    top-down multiplexer all four (anyY, anyZ) combinations, and `any` carried by a single entry (first / last
    angle of the level, the others exactly 0).  An exactly-zero angle_z needs bit-equal arguments of the two
    children (1e-17 rounding dust counts as non-zero in the real code), so the z-free levels are built from
    positive reals times powers of i; the pattern actually present in the real angle tree is what is counted."""
    r = ctx.nprng()

    def rnd(lev, lo, hi):
        return [float(r.uniform(lo, hi)) for _ in range(2 ** lev)]

    def zeros():
        return [[0.0] * 2 ** l for l in range(n)]

    for lev in range(n):
        width, size = 2 ** lev, 2 ** (n - lev)
        for pat in ("y-only", "z-only", "none", "both"):
            ys = [rnd(l, 0.6, 2.2) for l in range(n)]
            zs = [rnd(l, -0.5, 0.5) for l in range(n)]
            if pat in ("z-only", "none"):
                ys[lev] = [0.0] * width     # the right children of this level vanish
            if pat in ("y-only", "none"):
                zs = zeros()
            v = from_angles(n, ys, zs)
            if pat == "y-only":
                # phases only between the sub-trees of this level: angle_z exactly 0 at this level and below
                for j in range(width):
                    v[j * size:(j + 1) * size] *= 1j ** (j % 4)
            yield _clean(v), f"bnd-any:l={lev}:{pat}", "any-pattern"
        if width >= 2:
            for what in ("y", "z"):
                for pos in (0, width - 1):
                    ys = [rnd(l, 0.6, 2.2) for l in range(n)]
                    if what == "y":
                        keep = ys[lev][pos]
                        ys[lev] = [0.0] * width
                        ys[lev][pos] = keep
                        v = from_angles(n, ys, [rnd(l, -0.5, 0.5) for l in range(n)])
                    else:
                        v = from_angles(n, ys, zeros())
                        v[pos * size + size // 2:(pos + 1) * size] *= cmath.exp(0.7j)
                    yield _clean(v), f"bnd-any:l={lev}:single-{what}:{'first' if pos == 0 else 'last'}", "any-single"


def ucr_leaf_vectors(ctx, n):
    """ucr.py:48 `abs(angles[0]) > 1e-8` on the multiplexed combinations (a0 +- a1)/2 of one level with two
    or four angles: the combination is 3e-9 (dropped) / 3e-8 (kept), positive and (for z) negative, the other
    combination ordinary or exactly 0."""
    r = ctx.nprng()
    for lev in range(1, n):
        width = 2 ** lev
        for what in ("y", "z"):
            for tag, d in (("3e-9", 3e-9), ("3e-8", 3e-8)):
                for mode in ("diff+", "diff-", "sum"):
                    ys = [[float(r.uniform(0.6, 2.2)) for _ in range(2 ** l)] for l in range(n)]
                    zs = [[float(r.uniform(-0.5, 0.5)) for _ in range(2 ** l)] for l in range(n)]
                    tgt = ys if what == "y" else zs
                    base = tgt[lev][0]
                    if mode == "sum":
                        # all angles of the level equal to the small value: the sum combination is d, all
                        # difference combinations are exactly 0
                        tgt[lev] = [d] * width
                    else:
                        sgn = 1.0 if mode == "diff+" else -1.0
                        # first half `base`, second half `base - 2*sgn*d`: top-level difference combination
                        # = sgn*d, inner differences exactly 0
                        tgt[lev] = [base] * (width // 2) + [base - 2 * sgn * d] * (width // 2)
                    yield _clean(from_angles(n, ys, zs)), f"bnd-ucr:l={lev}:{what}:{mode}:{tag}", \
                        f"ucr-leaf:{what}:{mode}:{tag}"


def boundary_cases(ctx):
    """(kind, n, vector, split, family key, counter) — every split 1..n, the default and DCSP for each vector."""
    gens = [(zero_node_vectors, (1, 2, 3, 4)), (tiny_child_vectors, (1, 2, 3)),
            (angle_pattern_vectors, (1, 2, 3)), (ucr_leaf_vectors, (2, 3))]
    for gen, ns in gens:
        for n in ns:
            for v, fam, counter in gen(ctx, n):
                for s in [None] + list(range(1, n + 1)):
                    yield "bdsp", n, v, s, fam, counter
                yield "dcsp", n, v, None, fam, counter


def gate_split(n, s):
    return math.ceil(n / 2) if s is None else s


def level_pattern(angle_tree, lev):
    """(any angle_y != 0, any angle_z != 0) over the nodes of one level of the REAL angle tree."""
    nodes = [angle_tree]
    for _ in range(lev):
        nodes = [c for t in nodes for c in (t.left, t.right) if c is not None]
    ny = sum(1 for t in nodes if t.angle_y != 0.0)
    nz = sum(1 for t in nodes if t.angle_z != 0.0)
    f = lambda c: "0" if c == 0 else "1" if c == 1 else "all" if c == len(nodes) else "some"
    return f"y{f(ny)}-z{f(nz)}"


def split_counters(ctx, kind, n, s):
    """bdsp.py:83-86 start_level = n - split against every `level < start_level` (tree_walk.py:30,46,
    tree_register.py:33) and `level_nodes[:start_level]`, `nancilla > 0` (tree_register.py:57-68)."""
    if kind == "dcsp":
        ctx.count(f"boundary:dcsp-width:n={n}")
        return
    if s is None:
        ctx.count(f"boundary:default-split:n={'odd' if n % 2 else 'even'}")
        return
    for name, val in (("1", 1), ("2", 2), ("n-1", n - 1), ("n", n)):
        if s == val:
            ctx.count(f"boundary:split:s={name}")
    ctx.count(f"boundary:start_level={'0' if s == n else '1' if s == n - 1 else 'n-1' if s == 1 else 'mid'}")
    ctx.count("boundary:nancilla=0" if s == n else "boundary:nancilla>0")


UNREACHED_JUSTIFIED = {
    "qclib/state_preparation/bdsp.py:92->93": "invalid length (the Exception is built but not raised); rejection is not C11",
    "qclib/state_preparation/dcsp.py:77->78": "invalid length, as above",
    "qclib/state_preparation/util/angle_tree_preparation.py:59->60": "dead: magnitudes are non-negative",
    "qclib/state_preparation/util/angle_tree_preparation.py:61->62": "numerical guard that IEEE arithmetic never triggers: the parent magnitude "
                                                                    "sqrt(l^2 + r^2) >= sqrt(r^2) = r, so r / parent <= 1.0 (2e6 random trials: 0 hits)",
    "qclib/state_preparation/util/angle_tree_preparation.py:__str__": "debug printing",
    "qclib/state_preparation/util/state_tree_preparation.py:__str__": "debug printing",
    "qclib/state_preparation/util/tree_utils.py:remove_leafs,node_index,root_node,length,level_length,height,left_view,subtree_level_index,"
    "subtree_level_leftmost,subtree_level_nodes,tree_visual_representation": "helpers not used by BdspInitialize/DcspInitialize (plotting and "
                                                                              "the sparse/other initializers)",
}


# ------------------------------------------------------------------------------------------------
# input-diversity section: element types / scale structure / sign-phase structure / call forms / sizes
# ------------------------------------------------------------------------------------------------
# Every case: the ORIGINAL user object `x` (list / tuple / ndarray of some dtype / list of numpy scalars) goes to the
# real entry point under one call form; the ideal is computed from a = np.asarray(x, dtype=complex) by the harness
# itself (|a_k|^2 / sum |a|^2, widths from the requested split); tie (allocation table, widths, gate list vs the
# Lean model) wherever the JSON channel carries the input (everything but negative zeros).

REAL_ELEMS = ["list-float", "tuple-float", "list-np-f64", "list-np-f32", "f64", "f32", "c128", "c64",
              "list-np-c128", "list-mixed"]
CPLX_ELEMS = ["list-complex", "tuple-complex", "c128", "c64", "list-np-c128", "list-np-c64", "list-mixed"]
INT_ELEMS = ["list-int", "tuple-int", "i64", "list-np-i64", "list-mixed", "list-float", "f32", "c64"]


def _div_input(a, elem):
    """The user-side object holding the values `a` (complex array) in container / element type `elem`."""
    a = [complex(z) for z in a]
    re_ = [z.real for z in a]
    if elem == "list-complex":
        return list(a)
    if elem == "tuple-complex":
        return tuple(a)
    if elem == "list-float":
        return [float(z) for z in re_]
    if elem == "tuple-float":
        return tuple(float(z) for z in re_)
    if elem == "list-int":
        return [int(round(z)) for z in re_]
    if elem == "tuple-int":
        return tuple(int(round(z)) for z in re_)
    if elem == "list-mixed":
        # a different scalar type per position: python int/float, numpy int64/float64, python complex, numpy complex128
        out = []
        for k, z in enumerate(a):
            if z.imag != 0:
                out.append(z if k % 2 == 0 else np.complex128(z))
            elif z.real == int(z.real):
                out.append([int(z.real), np.int64(int(z.real)), complex(z.real, 0.0)][k % 3])
            else:
                out.append([float(z.real), np.float64(z.real), complex(z.real, 0.0)][k % 3])
        return out
    if elem == "list-np-f64":
        return [np.float64(z) for z in re_]
    if elem == "list-np-f32":
        return [np.float32(z) for z in re_]
    if elem == "list-np-i64":
        return [np.int64(int(round(z))) for z in re_]
    if elem == "list-np-c128":
        return [np.complex128(z) for z in a]
    if elem == "list-np-c64":
        return [np.complex64(z) for z in a]
    if elem in ("f64", "f32"):
        return np.array(re_, dtype=np.float64 if elem == "f64" else np.float32)
    if elem == "i64":
        return np.array([int(round(z)) for z in re_], dtype=np.int64)
    if elem in ("c128", "c64"):
        return np.array(a, dtype=np.complex128 if elem == "c128" else np.complex64)
    raise ValueError(elem)


# any form that passes {'split': s} may carry the suffix ":np-int64" / ":np-int32": the split is then that numpy scalar
DIV_SPLIT_TYPES = {"np-int64": np.int64, "np-int32": np.int32,
                   # flag-form pass: further integer forms; the code converts with int(...), so an integral float is taken too
                   "np-uint8": np.uint8, "np-intp": np.intp, "py-float": float, "np-float64": np.float64}
DIV_CTOR_CALLS = ["ctor", "ctor-omit", "ctor-positional", "ctor-label", "opt-empty", "opt-split-none",
                  "opt-reused-first", "opt-reused-second", "opt-reused-same", "copy-before-def", "copy-after-def", "twice"]
DIV_STATIC_CALLS = ["static-none", "static-none-kw", "static-ints", "static-desc", "static-tuple", "static-qobj",
                    "static-regs", "static-positional", "static-omit-opt"]


def _div_build(kind, x, s, call, wires=None, other=None):
    """(gate, definition, capture) for the user object `x` under call form `call`.  `wires`: wire list for the static /
    twice forms; `other`: the other split value written into the shared opt_params dict (opt-reused-*)."""
    from qiskit import QuantumCircuit, QuantumRegister
    n = int(round(math.log2(len(x))))
    w = declared_width(kind, n, s)
    if kind == "bdsp":
        import qclib.state_preparation.bdsp as mod
        cls = mod.BdspInitialize
    else:
        import qclib.state_preparation.dcsp as mod
        cls = mod.DcspInitialize
    if call == "opt-npint":        # name used by older replay payloads
        call = "ctor:np-int64"
    styp = int
    if ":" in call:
        call, suffix = call.split(":")
        styp = DIV_SPLIT_TYPES[suffix]
        assert s is not None and kind == "bdsp"
    opt = None if s is None else {"split": styp(s)}

    def ctor(**extra):
        return cls(x, **extra) if kind == "dcsp" else cls(x, opt_params=opt, **extra)

    with capture(mod) as cap:
        host = None
        if call == "ctor":
            gate = ctor()
        elif call == "ctor-omit":          # opt_params not passed at all
            assert s is None
            gate = cls(x)
        elif call == "ctor-positional":
            gate = cls(x, None, opt) if kind == "bdsp" else cls(x, None)
        elif call == "ctor-label":
            gate = ctor(label="psi")
        elif call == "opt-empty":
            gate = cls(x, opt_params={})
        elif call == "opt-split-none":
            gate = cls(x, opt_params={"split": None})
        elif call == "opt-reused-first":
            # the dict is changed and used for a second gate BEFORE the first gate's definition is built
            dct = {"split": styp(s)}
            gate = cls(x, opt_params=dct)
            dct["split"] = other
            g2 = cls(x, opt_params=dct)
            _ = g2.definition
        elif call == "opt-reused-second":
            dct = {"split": other}
            g0 = cls(x, opt_params=dct)
            _ = g0.definition
            dct["split"] = styp(s)
            gate = cls(x, opt_params=dct)
            dct["split"] = other
        elif call == "opt-reused-same":
            # one dict object, unchanged, used for two gates (other is None); the second gate is the one observed
            dct = {"split": styp(s)}
            g0 = cls(x, opt_params=dct)
            gate = cls(x, opt_params=dct)
        elif call == "copy-before-def":
            gate = ctor().copy()
        elif call == "copy-after-def":
            g0 = ctor()
            _ = g0.definition
            gate = g0.copy()
        elif call == "twice":
            gate = ctor()
            host = QuantumCircuit(2 * w)
            w1, w2 = list(wires[:w]), list(wires[w:])
            host.append(gate, w1)
            host.append(gate, w2)
            cap["host"], cap["wires"], cap["wires_list"] = host, w1, [w1, w2]
        elif call.startswith("static"):
            kw = {} if kind == "dcsp" else {"opt_params": opt}
            if call in ("static-none", "static-none-kw", "static-desc"):
                host = QuantumCircuit(w)
            elif call == "static-regs":
                host = QuantumCircuit(QuantumRegister(w // 2 + 1, "b"), QuantumRegister(w - w // 2, "a"))
            else:
                host = QuantumCircuit(max(wires) + 1)
            if call == "static-none":
                cls.initialize(host, x, **kw)
                wires = list(range(w))
            elif call == "static-none-kw":
                cls.initialize(host, x, qubits=None, **kw)
                wires = list(range(w))
            elif call in ("static-ints", "static-desc"):
                cls.initialize(host, x, qubits=list(wires), **kw)
            elif call == "static-tuple":
                cls.initialize(host, x, qubits=tuple(wires), **kw)
            elif call in ("static-qobj", "static-regs"):
                cls.initialize(host, x, qubits=[host.qubits[i] for i in wires], **kw)
            elif call == "static-positional":
                if kind == "bdsp":
                    cls.initialize(host, x, list(wires), opt)
                else:
                    cls.initialize(host, x, list(wires))
            elif call == "static-omit-opt":
                assert s is None
                cls.initialize(host, x, qubits=list(wires))
            else:
                raise ValueError(call)
            gate = host.data[0].operation
            cap["host"], cap["wires"] = host, list(wires)
        else:
            raise ValueError(call)
        d = gate.definition
    return gate, d, cap


def _div_wires(call, kind, n, s, r):
    call = call.split(":")[0]
    w = declared_width(kind, n, s)
    if call == "twice":
        return r.sample(range(2 * w), 2 * w)
    if call == "static-desc":
        return list(range(w - 1, -1, -1))
    if call == "static-regs":
        return r.sample(range(w + 1), w)
    if call in ("static-ints", "static-tuple", "static-qobj", "static-positional", "static-omit-opt"):
        ws = r.sample(range(w + 2), w)
        if w > 1 and ws == sorted(ws):
            ws = ws[::-1]
        return ws
    return None


def _diversity_case(ctx, kind, a, s, fam, elem="list-complex", call="ctor", wires=None, other=None, tie=True,
                    counters=()):
    """One diversity case: user object of element type `elem` holding the values `a`, call form `call`."""
    x = _div_input(a, elem)
    v = np.asarray(x, dtype=complex)        # the harness's own conversion of the ORIGINAL input
    if len(v) != len(a) or np.abs(v - np.asarray(a, dtype=complex)).max() > 1e-6:
        raise AssertionError(f"harness: element type {elem} does not hold the values")
    form = f"div:{elem}:{call}"
    builder = lambda: _div_build(kind, x, s, call, wires, other)
    extra = {"div": {"elem": elem, "call": call, "other": other, "tie": bool(tie)}}
    if tie:
        tie_case(ctx, kind, v, s, fam, form=form, wires=wires, builder=builder)
    cap = oracle_case(ctx, kind, v, s, fam, form=form, wires=wires, builder=builder, rep_extra=extra)
    n = int(round(math.log2(len(v))))
    for c in counters:
        ctx.count("diversity:" + c)
    ctx.count(f"diversity:elem:{elem}")
    ctx.count(f"diversity:call:{kind}:{call}")
    ctx.count(f"diversity:size:{kind}:n={n}:s={'default' if s is None else 'n' if s == n else s}")
    return cap


def _ph(r, cplx=True):
    return cmath.exp(1j * r.uniform(-3.0, 3.0)) if cplx else complex(r.choice([-1.0, 1.0]))


def _diversity_vectors(ctx, n):
    """(values, family key, counters, tie-able): scale structure and sign / phase structure, all valid unit vectors."""
    r = ctx.nprng()
    dim = 2 ** n
    unit = lambda v: np.asarray(v, dtype=complex) / np.linalg.norm(np.asarray(v, dtype=complex))
    light = [1e-3, 1e-4, 1e-5, 1e-6]

    def tail(cplx, start=0):
        return np.array([light[(start + k) % 4] * r.uniform(0.7, 1.3) * _ph(r, cplx) for k in range(dim)])

    # --- scale: heavy head + light tail 1e-3 .. 1e-6
    v = tail(True); v[0] = _ph(r)
    yield unit(v), "div-head-start", ["scale:head-start"], True
    v = tail(True, 1); v[dim - 1] = _ph(r)
    yield unit(v), "div-head-end", ["scale:head-end"], True
    v = tail(False, 2); v[dim // 2] = -0.8
    if dim > 2:
        v[dim // 2 + 1] = 0.6
    yield unit(v), "div-head-mid-real", ["scale:head-mixed-real"], True
    if n >= 2:
        v = tail(True, 3); v[1] = _ph(r); v[dim - 2] = 0.7 * _ph(r)
        yield unit(v), "div-two-heads", ["scale:two-heads"], True
        # light tail with exact zeros between
        v = tail(True); v[::2] = 0.0; v[dim - 1] = 1.0
        yield unit(v), "div-head-end-sparse-tail", ["scale:head-light-sparse"], True
    # one light magnitude m everywhere but the head: every angle that separates the head from light mass is ~2m
    # (head first: RY angles just above 0; head last: just below pi), and heavy / light alternating: a whole level of
    # such angles (the multiplexed combinations (a0 +- a1)/2 of the top-down part are then all ~m or below)
    for tag, m in (("1e-3", 1e-3), ("1e-4", 1e-4), ("1e-5", 1e-5), ("1e-6", 1e-6)):
        if n == 4 and tag in ("1e-4", "1e-5"):
            continue
        lt = lambda: m * r.uniform(0.7, 1.3) * _ph(r)
        v = np.array([lt() for _ in range(dim)]); v[0] = _ph(r)
        yield unit(v), f"div-head-start:m={tag}", [f"scale:head-start:tail={tag}"], True
        v = np.array([lt() for _ in range(dim)]); v[dim - 1] = _ph(r)
        yield unit(v), f"div-head-end:m={tag}", [f"scale:head-end:tail={tag}"], True
        if tag in ("1e-4", "1e-6"):
            v = np.array([r.uniform(0.5, 1.0) * _ph(r) if k % 2 == 0 else lt() for k in range(dim)])
            yield unit(v), f"div-alt-heavy-light:m={tag}", [f"scale:alternating-heavy-light:{tag}"], True
            v = np.array([r.uniform(0.5, 1.0) * _ph(r, False) if k % 2 == 1 else m * r.uniform(0.7, 1.3) * _ph(r, False)
                          for k in range(dim)])
            yield unit(v), f"div-alt-light-heavy-real:m={tag}", [f"scale:alternating-light-heavy:{tag}"], True
    # --- all-equal moduli, phases exactly +-1, +-i
    units = [1, -1, 1j, -1j]
    yield unit([units[int(r.integers(4))] for _ in range(dim)]), "div-equal-mod-pm1-pmi", ["phase:equal-moduli-+-1+-i"], True
    yield unit([-1.0] * dim), "div-all-minus", ["phase:global--1", "scale:all-equal"], True
    yield unit([1j] * dim), "div-all-i", ["phase:global-i", "scale:all-equal"], True
    yield unit([(-1.0) ** k for k in range(dim)]), "div-alternating", ["phase:alternating-sign"], True
    # --- exactly repeated values
    aa, bb = r.uniform(0.3, 1.0) * _ph(r), r.uniform(0.3, 1.0) * _ph(r)
    yield unit([aa if (k // 2) % 2 == 0 else bb for k in range(dim)] if dim > 2 else [aa, aa]), "div-repeated", ["scale:repeated-values"], True
    # --- all negative reals / purely imaginary / global phase -1, i on a positive vector
    pos = np.array([r.uniform(0.2, 1.0) for _ in range(dim)])
    yield unit(-pos), "div-all-negative", ["phase:all-negative-real"], True
    yield unit(1j * pos * np.array([r.choice([-1.0, 1.0]) for _ in range(dim)])), "div-pure-imag", ["phase:purely-imaginary"], True
    yield unit(1j * pos), "div-global-i", ["phase:global-i"], True
    sg = np.array([r.choice([-1.0, 1.0]) for _ in range(dim)])
    yield unit(-(pos * sg)), "div-real-signed", ["phase:real-signed-zero-imag"], True
    # --- almost real: imaginary parts 1e-4 .. 1e-6 of either sign (relative phases just off 0 / pi; seen at s = n)
    for tag, m in (("1e-4", 1e-4), ("1e-6", 1e-6)):
        v = pos * sg + 1j * np.array([m * r.uniform(0.7, 1.3) * r.choice([-1.0, 1.0]) for _ in range(dim)])
        yield unit(v), f"div-tiny-imag:{tag}", [f"phase:tiny-imaginary-parts:{tag}"], True
    # --- norm carried by a single sub-tree
    if n >= 2:
        v = np.zeros(dim, dtype=complex); q = dim // 4
        v[3 * q:] = [r.uniform(0.3, 1.0) * _ph(r) for _ in range(q)]
        yield unit(v), "div-last-quarter", ["scale:single-subtree"], True
        v = np.zeros(dim, dtype=complex)
        v[q:2 * q] = [r.uniform(0.3, 1.0) * _ph(r) for _ in range(q)]
        yield unit(v), "div-second-quarter", ["scale:single-subtree"], True
    # --- an output qubit constant |0> / |1> in every branch (a level with all RY = 0 resp. pi, RZ != 0)
    for q in range(n):
        for bit in (0, 1):
            v = np.array([r.uniform(0.3, 1.0) * _ph(r) if ((k >> q) & 1) == bit else 0.0 for k in range(dim)])
            yield unit(v), f"div-qubit{q}-const{bit}", [f"phase:output-qubit-constant-{bit}"], True
    # --- negative zeros (oracle only: the JSON channel to the Lean driver does not carry the sign of zero)
    v = np.array([complex(r.uniform(0.3, 1.0) * r.choice([-1, 1]), -0.0) if k % 2 else complex(-0.0, 0.0) for k in range(dim)])
    yield _negzero_unit(v), "div-negzero-a", ["elem:negative-zero"], False
    v = np.array([complex(-0.0, r.uniform(0.3, 1.0)) if k % 2 == 0 else complex(0.0, -0.0) for k in range(dim)])
    yield _negzero_unit(v), "div-negzero-b", ["elem:negative-zero"], False


def _negzero_unit(v):
    """Normalise by a positive real factor applied to real and imaginary parts separately (keeps the signs of zeros)."""
    nrm = float(np.linalg.norm(v))
    return np.array([complex(z.real / nrm, z.imag / nrm) for z in v])


def _basis_vectors(n):
    """A single amplitude of modulus exactly 1 at each index, phases 1, -1, i, -i."""
    dim = 2 ** n
    idx = range(dim) if n <= 3 else (0, 5, 10, dim - 1)
    phs = [1, -1, 1j, -1j]
    for k in idx:
        for t in (range(4) if n == 1 else (k % 4, (k + 1 + k // 4) % 4) if n == 2 else (k % 4,)):
            v = np.zeros(dim, dtype=complex)
            v[k] = phs[t]
            yield v, f"div-basis:k={k}:ph={['1', '-1', 'i', '-i'][t]}"


def _splits(n):
    return [("bdsp", None)] + [("bdsp", s) for s in range(1, n + 1)] + [("dcsp", None)]


def _diversity_values(ctx):
    """Families 2, 3, 5: scale and phase structure, every n = 1..4 (5 for a few), every split + default + DCSP."""
    for n in (1, 2, 3, 4):
        for a, fam, counters, tie in _diversity_vectors(ctx, n):
            if n == 4 and fam.startswith(("div-qubit1", "div-qubit2", "div-negzero-b", "div-alternating", "div-global-i")):
                continue
            for kind, s in _splits(n):
                _diversity_case(ctx, kind, a, s, fam, tie=tie, counters=counters)
        for a, fam in _basis_vectors(n):
            for kind, s in _splits(n):
                _diversity_case(ctx, kind, a, s, fam, counters=["scale:single-amplitude-modulus-1"])
    # n = 5: default split 3 (odd n), s = n-1, s = n (the wider splits and DCSP are width-only)
    n = 5
    for a, fam, counters, tie in _diversity_vectors(ctx, n):
        if fam in ("div-head-end", "div-two-heads", "div-qubit0-const0", "div-qubit3-const1", "div-last-quarter"):
            for kind, s in (("bdsp", None), ("bdsp", 4), ("bdsp", 5), ("bdsp", 1), ("dcsp", None)):
                _diversity_case(ctx, kind, a, s, fam, tie=tie, counters=counters)


def _diversity_elements(ctx):
    """Family 1: element types / containers, for both classes; s = n (phases observed), default, s = 1, DCSP."""
    r = ctx.nprng()
    for n in (1, 2, 3):
        dim = 2 ** n
        cfgs = [("bdsp", n), ("bdsp", None), ("dcsp", None)] + ([("bdsp", 1)] if n > 1 else []) + ([("bdsp", 2)] if n > 2 else [])
        # real, signed (negative entries, zero imaginary part in the complex dtypes)
        real = np.array([r.uniform(0.2, 1.0) * r.choice([-1.0, 1.0]) for _ in range(dim)])
        real[int(r.integers(dim))] *= -1.0 if np.all(real > 0) else 1.0
        real = real / np.linalg.norm(real)
        # dyadic: exactly representable in float32, exactly normalised
        # n >= 2: dyadic entries, exactly representable in float32 and exactly normalised; n = 1: 0.6 / -0.8 (rounded by float32)
        dy = np.array([0.6, -0.8] if n == 1 else [r.choice([-0.5, 0.5]) for _ in range(4)] if n == 2 else
                      [r.choice([-0.25, 0.25]) for _ in range(4)] + [0.5, -0.5, 0.5, 0.0])
        for vals, fam in ((real, "div-elem-real"), (dy, "div-elem-dyadic")):
            for elem in REAL_ELEMS:
                for kind, s in cfgs:
                    _diversity_case(ctx, kind, vals, s, fam, elem=elem, counters=["elem-family:real-signed"])
        cp = np.array([r.uniform(0.2, 1.0) * _ph(r) for _ in range(dim)])
        cp = cp / np.linalg.norm(cp)
        for elem in CPLX_ELEMS:
            for kind, s in cfgs:
                _diversity_case(ctx, kind, cp, s, "div-elem-complex", elem=elem, counters=["elem-family:complex"])
        # integer basis vectors [0, 1, 0, 0], [0, 0, 0, -1], ...
        for k, sign in ((1 % dim, 1), (dim - 1, -1), (0, -1)):
            iv = np.zeros(dim)
            iv[k] = sign
            for elem in INT_ELEMS:
                for kind, s in cfgs:
                    _diversity_case(ctx, kind, iv, s, f"div-elem-int:k={k}:sign={sign}", elem=elem,
                                    counters=["elem-family:integer-basis"])


def _diversity_calls(ctx):
    """Family 4: call forms of the constructor and of the static `initialize` helper (every keyword, every split)."""
    r = ctx.rng
    for n in (1, 2, 3):
        vecs = [(a, fam, tie) for a, fam, _, tie in _diversity_vectors(ctx, n)
                if fam in ("div-head-end", "div-real-signed", "div-qubit0-const0", "div-equal-mod-pm1-pmi")]
        pick = lambda: vecs[r.randrange(len(vecs))]
        for kind, s in _splits(n):
            calls = ["ctor-positional", "ctor-label", "copy-before-def", "copy-after-def", "twice",
                     "static-none", "static-none-kw", "static-ints", "static-desc", "static-tuple", "static-qobj",
                     "static-regs", "static-positional"]
            if s is None:
                calls += ["ctor-omit", "static-omit-opt"] + (["opt-empty", "opt-split-none"] if kind == "bdsp" else [])
            for call in calls:
                a, fam, tie = pick()
                if call == "twice" and 2 * declared_width(kind, n, s) > DENSE_CAP:
                    continue
                _diversity_case(ctx, kind, a, s, fam, call=call, wires=_div_wires(call, kind, n, s, r), tie=tie)
            if kind == "bdsp" and s is not None:
                # the split as a numpy integer (e.g. taken from np.arange(1, n + 1)): constructor and static helper
                for call in ("ctor:np-int64", "ctor:np-int32", "ctor-positional:np-int32", "copy-before-def:np-int64",
                             "opt-reused-same:np-int32", "static-none:np-int64", "static-none-kw:np-int32",
                             "static-ints:np-int32", "static-qobj:np-int64", "static-positional:np-int64"):
                    a, fam, tie = pick()
                    _diversity_case(ctx, kind, a, s, fam, call=call, wires=_div_wires(call, kind, n, s, r), tie=tie)
                a, fam, tie = pick()
                _diversity_case(ctx, kind, a, s, fam, call="opt-reused-same", tie=tie)
                for other in [o for o in range(1, n + 1) if o != s]:
                    for call in ("opt-reused-first", "opt-reused-second"):
                        a, fam, tie = pick()
                        _diversity_case(ctx, kind, a, s, fam, call=call, other=other, tie=tie)
    # n = 4: the static helper and the reused dict at every split (widths up to 15/16: own propagation / width only)
    n = 4
    a, fam, tie = [(a, fam, tie) for a, fam, _, tie in _diversity_vectors(ctx, n) if fam == "div-two-heads"][0]
    for s in (1, 2, 3, 4):
        _diversity_case(ctx, "bdsp", a, s, fam, call="static-qobj", wires=_div_wires("static-qobj", "bdsp", n, s, r))
        _diversity_case(ctx, "bdsp", a, s, fam, call="opt-reused-second", other=1 + s % 4)
    _diversity_case(ctx, "dcsp", a, None, fam, call="static-ints", wires=_div_wires("static-ints", "dcsp", n, None, r))


def _diversity_flag_forms(ctx):
    """flag-form pass.  BdspInitialize(params, label, opt_params={'split': s}) / initialize(q_circuit, state, qubits,
    opt_params); DcspInitialize has no option.  No boolean option.  `split` is the one integer option (documented range
    1 <= s <= n; its falsy value 0 is OUTSIDE the range: probed and counted, never judged): both ends s = 1, s = n and a middle
    level, as Python int, np.int64, np.int32, np.uint8, np.intp and integral float / np.float64 (the code applies int(...)),
    through the constructor (keyword / positional), a copy, and the static helper (qubits None / permuted ints / positional),
    n = 1 (both ends coincide), 2, 3, 4.  Oracle: widths from the REQUESTED level and the marginals; tie: allocation table,
    widths, gate list vs the model asked with the Python int.  Falsy-but-valid arguments: label '' (must be kept)."""
    import qclib.state_preparation.bdsp as bmod
    r = ctx.rng
    calls = ("ctor", "ctor-positional", "static-none", "static-ints", "static-positional", "copy-before-def", "static-none-kw")
    j = 0
    for n in (1, 2, 3, 4):
        vecs = [(a, fam, tie) for a, fam, _, tie in _diversity_vectors(ctx, n)
                if fam in ("div-head-end", "div-real-signed", "div-two-heads", "div-equal-mod-pm1-pmi")]
        levels = [("low", 1)] + ([("high", n)] if n >= 2 else []) + ([("middle", 1 + r.randrange(1, n - 1))] if n >= 3 else [])
        for where, s in levels:
            for suffix in DIV_SPLIT_TYPES:
                if n == 4 and s == 1 and suffix in ("np-intp", "py-float"):
                    continue        # width 31: width / own-propagation only, two forms less
                j += 1
                call = calls[j % len(calls)]
                a, fam, tie = vecs[j % len(vecs)]
                if "float" in suffix:
                    # documented type is int; an integral float is taken only because the code converts with int(...).
                    # A clean refusal of that form is not a violation.
                    try:
                        bmod.BdspInitialize(list(a), opt_params={"split": DIV_SPLIT_TYPES[suffix](s)})
                    except (TypeError, ValueError) as e:
                        ctx.count(f"flagforms:split:{suffix}:{where}:unsupported-{type(e).__name__}")
                        continue
                ctx.count(f"flagforms:split:{suffix}:{where}")
                _diversity_case(ctx, "bdsp", a, s, fam, call=f"{call}:{suffix}", wires=_div_wires(call, "bdsp", n, s, r),
                                tie=tie and n <= 3)
    # split = 0: falsy and outside 1 <= s <= n.  The constructor takes it and the definition cannot be built (IndexError in
    # add_register); what must NOT happen silently is part of no property, so this is a counter only.
    import qclib.state_preparation.bdsp as mod
    for n in (1, 2, 3):
        a = next(iter(_diversity_vectors(ctx, n)))[0]
        for form, val in (("int", 0), ("np-int64", np.int64(0))):
            try:
                g = mod.BdspInitialize(list(a), opt_params={"split": val})
                d = g.definition
                ctx.count(f"flagforms:split:{form}:zero:accepted(split={g.split},width={d.num_qubits})")
            except Exception as e:  # noqa: BLE001 -- outside the documented range
                ctx.count(f"flagforms:split:{form}:zero:unsupported-{type(e).__name__}")
    # label '' must be kept (both classes)
    import qclib.state_preparation.dcsp as dmod
    for n in (1, 2):
        a = next(iter(_diversity_vectors(ctx, n)))[0]
        for kind, cls, dflt in (("bdsp", mod.BdspInitialize, "BDSP"), ("dcsp", dmod.DcspInitialize, "DCSP")):
            for lab, how in (("", "kw"), ("", "pos"), (None, "kw")):
                key = f"{kind}:flagforms:label={lab!r}:{how}:n={n}"
                rep = {"kind": kind, "s": None, "family": "flagforms-label", "re": [float(z.real) for z in a], "im": [float(z.imag) for z in a]}
                ctx.count(f"flagforms:label:{'empty' if lab == '' else 'none'}:{kind}")
                try:
                    g = cls(list(a), lab) if how == "pos" else cls(list(a), label=lab)
                    got = g.label
                except Exception as e:  # noqa: BLE001
                    ctx.fail(key + ":raises", f"{type(e).__name__}: {e}", rep)
                    continue
                want = lab if lab is not None else (dflt if kind == "bdsp" else got)
                if got != want:
                    ctx.fail(key, f"label {lab!r} requested, the gate carries {got!r}", rep)
                else:
                    ctx.ok(key, nontrivial=False)


def _diversity_all(ctx):
    _diversity_values(ctx)
    _diversity_elements(ctx)
    _diversity_calls(ctx)
    _diversity_flag_forms(ctx)


def run(ctx, nmax=None):
    gate_conventions(ctx)
    gen_width_tie(ctx)
    nmax = nmax or (5 if ctx.quick else 6)
    ctx.notes.append("amplitudes are exact zeros or have modulus >= 0.2/sqrt(2^n) before normalisation: nothing near the "
                     "`!= 0.0` tests; angles compared to 1e-7 (2*asin near 1 amplifies one ulp to 3e-8)")
    for kind, n, v, s, fam in cases(ctx, nmax, 1 if ctx.quick else 3):
        tie_case(ctx, kind, v, s, fam)
        oracle_case(ctx, kind, v, s, fam)
        split_counters(ctx, kind, n, s)
    for kind, n, v, s, fam, form, wires in form_cases(ctx):
        tie_case(ctx, kind, v, s, fam, form, wires)
        oracle_case(ctx, kind, v, s, fam, form=form, wires=wires)
        if form in ("empty-opt", "split-none"):
            ctx.count(f"boundary:default-split:{form}:n={'odd' if n % 2 else 'even'}")
    ctx.notes.append("boundary cases: a child's relative magnitude / an angle combination is exactly 0, 1e-12, 3e-9, 3e-8 "
                     "or 2e-3; the band (5e-9, 2e-8) around ucr's `abs(angle) > 1e-8` is excluded (there the gate "
                     "list is legitimately discontinuous, the state is not)")
    for kind, n, v, s, fam, counter in boundary_cases(ctx):
        tie_case(ctx, kind, v, s, fam)
        cap = oracle_case(ctx, kind, v, s, fam)
        if cap is None:
            continue
        lev = int(fam.split("l=")[1].split(":")[0])
        sl = n if kind == "dcsp" else n - (gate_split(n, s))
        tag = "bottom-up" if lev < sl else "top-down-root" if lev == sl else "top-down-inner"
        if counter.startswith("any-"):
            ctx.count(f"boundary:{counter}:{level_pattern(cap['angle_tree'], lev)}")
            ctx.count(f"boundary:{counter}:level-is-{tag}")
        elif counter.startswith("ucr-leaf"):
            ctx.count(f"boundary:{counter}")
            ctx.count(f"boundary:ucr-leaf:level-is-{tag}")
        else:
            ctx.count(f"boundary:{counter}:{tag}")
    ctx.notes.append("diversity cases: the user object (list / tuple / ndarray int64, float32/64, complex64/128 / list of numpy "
                     "scalars / negative zeros) goes to the constructor or the static helper under each call form; ideal "
                     "|a_k|^2 / sum|a|^2 from np.asarray(x, dtype=complex); light-tail amplitudes are 1e-3 .. 1e-6 (x 0.7..1.3), "
                     "far above the `!= 0.0` / 1e-8 tests; negative-zero inputs are oracle-only")
    _diversity_all(ctx)


def search(ctx, hints):
    for h in hints:
        op = h["op"]
        if op.get("op") == "gen_widths":
            # a disagreement of the translated width arithmetic: evaluate the property at that length / split
            ln = int(op["len"])
            if ln >= 2 and ln & (ln - 1) == 0 and ln <= 2 ** 6:
                n = ln.bit_length() - 1
                v = make_vector(ctx, n, "complex")
                s_req = int(op["s"]) if op.get("has_split") else None
                oracle_case(ctx, "bdsp", v, s_req, "hint-gen-widths", cap_own=OWN_CAP_THOROUGH)
                oracle_case(ctx, "dcsp", v, None, "hint-gen-widths", cap_own=OWN_CAP_THOROUGH)
            continue
        v = np.array(op["re"]) + 1j * np.array(op["im"])
        oracle_case(ctx, op["op"], v, None if op["default"] else op["s"], op.get("family", "hint"),
                    cap_own=OWN_CAP_THOROUGH)
    for kind, n, v, s, fam in cases(ctx, 5, 1):
        oracle_case(ctx, kind, v, s, fam, cap_own=OWN_CAP_QUICK)
    _diversity_all(ctx)


def replay(ctx, payload):
    r = payload["replay"]
    if r.get("div"):
        dv = r["div"]
        # complex(re, im) keeps the signs of zeros (re + 1j * im would not)
        a = np.array([complex(x, y) for x, y in zip(r["re"], r["im"])])
        _diversity_case(ctx, r["kind"], a, r["s"], r.get("family", "replay"), elem=dv["elem"], call=dv["call"],
                        wires=r.get("wires"), other=dv.get("other"), tie=dv.get("tie", True))
        return
    v = np.array(r["re"]) + 1j * np.array(r["im"])
    tie_case(ctx, r["kind"], v, r["s"], r.get("family", "replay"), r.get("form", "plain"), r.get("wires"))
    oracle_case(ctx, r["kind"], v, r["s"], r.get("family", "replay"), cap_own=OWN_CAP_THOROUGH,
                form=r.get("form", "plain"), wires=r.get("wires"))
