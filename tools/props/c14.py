"""C14 — MixedInitialize (qclib/state_preparation/mixed.py, qclib/gates/initialize_mixed.py)."""
import ast
import hashlib
import math
import os
import struct
import types
import numpy as np

CLAIMED = True
TECHNIQUE = ("Lean 4 proofs over star rings / ordered fields (finite sums, bit arithmetic, all n and k) about an executable model "
             "of the validation chain, the width formula, the kron-accumulation purification and the in-circuit plan; model tied to "
             "the source by an AST fingerprint of the validation statements plus decision / purification-vector / plan diffs "
             "against the real code; partial-trace oracle on the real circuits")
LEVEL_TEXT = ("Proved for all n, all k>=1 (incl. non powers of two): tracing the aux index out of the model's purification vector "
              "w[x*2^a+i] gives sum_i p_i psi_i[x] conj psi_i[y], padding entries are 0, aux qubits are the low wires (C14_reduced, "
              "C14_index); the in-circuit plan (aux = sqrt(p) zero-padded, step i controlled on the literals of f'{i:0ab}') yields "
              "the same w under the explicit hypothesis that each controlled sub-initializer prepares psi_i iff aux reads i "
              "(C14_incircuit, C14_ctrl); the decision function accepts iff all p_i in [0,1] and |sum-1| <= 1e-9*max(|sum|,1) and "
              "rejects each kind with the exception the code raises (C14_reject); num_qubits = n + ceil(log2 k) with 2^a >= k "
              "minimal (C14_width); uniform default is valid (C14_uniform). Tied: decisions on a malformed stream for both modes "
              "(IEEE doubles on both sides, NaN/inf included), pure_state / aux_state / per-step controls as seen by the "
              "sub-initializer of the REAL code, widths for k up to 2^40+1, AST fingerprint of the validation code. Tested only: "
              "partial_trace of the real circuit vs the ensemble (n<=3, k<=6; thorough n<=4, k<=9).")
LEVEL_NOTE = ("Trusted: Lean kernel (standard axioms); the sub-initializer (LowRankInitialize, C01) and qiskit .control / compose / "
              "reset / DensityMatrix / partial_trace (K4, exercised by the oracle); float vs exact arithmetic (isclose threshold "
              "modelled with the same constants; builtin sum modelled as a left fold, inputs within 5e-10..2e-9 of the threshold "
              "excluded); hand model <-> code beyond the explored inputs (AST fingerprint flags any change of the validation code).")
LEAN_TARGETS = ["QclibModel.Props.C14"]
THEOREMS = ["Qclib.C14_reduced", "Qclib.C14_index", "Qclib.C14_incircuit", "Qclib.C14_ctrl", "Qclib.C14_reject",
            "Qclib.C14_reject_kinds", "Qclib.C14_uniform", "Qclib.C14_width", "Qclib.C14_width_src"]
TRUSTED = [
    "sub-initializer meets C01 (prepares the vector it is given from |0..0>) and qiskit .control(ctrl_state) acts iff the controls read ctrl_state (hypotheses of C14_incircuit; exercised by the oracle each run)",
    "np.kron index convention kron(A,B)[x*len(B)+j] = A[x]*B[j] and qiskit little-endian wire order (checked numerically each run)",
    "math.isclose = CPython math_isclose_impl (modelled statement by statement, tied on doubles incl. NaN/inf); builtin sum ~ left fold",
    "int(ceil(log2(k))) = least a with k <= 2^a for k < 2^48 (tied for k <= 4096 and 2^m-1, 2^m, 2^m+1, m <= 40)",
    "tools/py2lean.py: InitializeMixed._get_num_qubits and the _num_ctrl_qubits statement of MixedInitialize.__init__ are "
    "re-translated from the source on every run (Gen/MixedWidth.lean) and proved equal to numQubits / clog2 for all d, k >= 1 "
    "(C14_width_src); second tie: the generated definitions run by the driver vs the real code (same k range as the width tie, "
    "real constructors for k <= 33)",
]
ASSUMPTIONS = ["exact arithmetic in the theorems; implementation compared to 1e-9 (tie) / 1e-7 (oracle)",
               "in-circuit purification requires n>=2 and k>=2 (property precondition; smaller cases raise inside qiskit/.control)",
               "length of the probability vector is not validated by the code (not part of the property); zip truncation is modelled"]
RULE = ("tie: decision cases (dims, probabilities, mode), (n,k,states,probs) purification vectors and in-circuit plans diffed against "
        "the Lean model; oracle: partial trace of the real circuit vs sum_i p_i|psi_i><psi_i| and reject/accept of probability "
        "vectors; non-trivial = k>=2 with at least two non-zero probabilities, or a rejected vector")

# ----------------------------------------------------------------------------------------------
# AST fingerprint of the validation code the model was written against
# ----------------------------------------------------------------------------------------------
EXPECTED_FINGERPRINT = "2616dc400fd288261defbb362476dd21712aa5482bb527b21f4db293ccaff205"


def _fingerprint_parts():
    import framework
    parts = []
    p1 = os.path.join(framework.REPO, "qclib/state_preparation/mixed.py")
    p2 = os.path.join(framework.REPO, "qclib/gates/initialize_mixed.py")
    t1, t2 = ast.parse(open(p1).read()), ast.parse(open(p2).read())

    def math_imports(t):
        out = []
        for node in t.body:
            if isinstance(node, ast.ImportFrom) and node.module == "math":
                out.append(ast.dump(node))
        return out

    parts += math_imports(t1) + math_imports(t2)
    init = getnq = None
    for node in ast.walk(t1):
        if isinstance(node, ast.ClassDef) and node.name == "MixedInitialize":
            for f in node.body:
                if isinstance(f, ast.FunctionDef) and f.name == "__init__":
                    init = f
    for node in ast.walk(t2):
        if isinstance(node, ast.FunctionDef) and node.name == "_get_num_qubits":
            getnq = node
    if init is None or getnq is None:
        raise RuntimeError("C14 fingerprint: MixedInitialize.__init__ / InitializeMixed._get_num_qubits not found")
    parts.append(ast.dump(init.args))
    for st in init.body:
        s = ast.unparse(st)
        keep = isinstance(st, ast.If) and "label" not in s
        keep = keep or any(w in s for w in ("_get_num_qubits", "self._probabilities", "self._num_ctrl_qubits",
                                            "self._num_data_qubits", "self._list_params", "self._classical",
                                            "self._reset"))
        if keep:
            parts.append(ast.dump(st))
    for st in getnq.body:
        parts.append(ast.dump(st))
    return parts


def fingerprint():
    parts = _fingerprint_parts()
    return hashlib.sha256("\n".join(parts).encode()).hexdigest(), parts


GEN_FILE_REL = "lean/QclibModel/Gen/MixedWidth.lean"
GEN_SOURCES = ["qclib/gates/initialize_mixed.py", "qclib/state_preparation/mixed.py"]


def generate_widths(ctx):
    """Source tie of the width arithmetic: re-translate it (tools/py2lean.py) and re-check C14_width_src."""
    import framework
    import py2lean
    import srctie
    py2lean.ensure_prelude(framework.LEAN)
    ns = "Qclib.Gen.MixedWidth"
    a, m = GEN_SOURCES

    def tb(rel, *args, **k):
        return py2lean.translate_block(os.path.join(framework.REPO, rel), *args, relpath=rel, **k)
    blocks = [
        tb(a, "InitializeMixed._get_num_qubits", "mixed_num_qubits", ns, result="self.num_qubits",
           views={"len(params[0])": "len_params_0", "len(params)": "len_params"}),
        tb(m, "MixedInitialize.__init__", "mixed_num_ctrl", ns, result="self._num_ctrl_qubits",
           views={"len(params)": "len_params"}),
    ]
    text = py2lean.write_module(os.path.join(framework.VERIF, GEN_FILE_REL), blocks, GEN_SOURCES)
    srctie.verify(ctx, "QclibModel.Props.C14", ["Qclib.C14_width_src"])
    return {"file": GEN_FILE_REL, "bytes": len(text),
            "translated": ["InitializeMixed._get_num_qubits", "MixedInitialize.__init__ (self._num_ctrl_qubits)"]}


def generate(ctx):
    """Tie (b): the validation statements of the current source must be the ones the hand model
    mirrors.  A change raises (→ broken obligation → failing-input search).  The width arithmetic is
    additionally re-translated from the source (generate_widths) — first, so that its own broken obligation is
    recorded even when the fingerprint raises."""
    gen = generate_widths(ctx)
    h, parts = fingerprint()
    if h != EXPECTED_FINGERPRINT:
        import framework
        txt = []
        for p in ("qclib/state_preparation/mixed.py",):
            src = open(os.path.join(framework.REPO, p)).read().split("\n")
            txt = [l for l in src[60:100] if l.strip()]
        raise RuntimeError("C14: validation code of MixedInitialize.__init__/_get_num_qubits changed "
                           f"(fingerprint {h[:16]} != {EXPECTED_FINGERPRINT[:16]}); the hand model "
                           "Model/Mixed.lean no longer mirrors the source. Current text:\n" + "\n".join(txt)[:1500])
    return dict(gen, validation_ast_fingerprint=h, statements=len(parts))


# ----------------------------------------------------------------------------------------------
# helpers
# ----------------------------------------------------------------------------------------------
def fbits(x):
    return "f" + str(struct.unpack("<Q", struct.pack("<d", float(x)))[0])


def bits(x):
    return struct.unpack("<Q", struct.pack("<d", float(x)))[0]


def clog2(k):
    a = 0
    while (1 << a) < k:
        a += 1
    return a


def classify(e):
    n, m = type(e).__name__, str(e)
    if n == "TypeError" and "initializer" in m:
        return "TypeError:initializer"
    if n == "ZeroDivisionError":
        return "ZeroDivisionError"
    if n == "IndexError":
        return "IndexError"
    if n == "ValueError":
        if "greater than or equal to 0" in m:
            return "ValueError:neg"
        if "less than or equal to 1" in m:
            return "ValueError:gt1"
        if "sum of the probabilities" in m:
            return "ValueError:sum"
        if "math domain" in m or "expected a positive input" in m:
            return "ValueError:mathdomain"
        if "positive power of 2" in m:
            return "ValueError:notpow2"
    return f"Other:{n}:{m[:60]}"


def rand_state(r, n, kind, i=0):
    dim = 2 ** n
    if kind == "complex":
        v = r.normal(size=dim) + 1j * r.normal(size=dim)
    elif kind == "real":
        v = r.normal(size=dim) + 0j
    elif kind == "basis":
        v = np.zeros(dim, dtype=complex)
        v[(i * 3 + 1) % dim] = [1, -1, 1j, -1j][i % 4]
    elif kind == "rational":      # product of Pythagorean one-qubit states: exact rational unit vector
        qs = [(3 / 5, 4 / 5), (5 / 13, 12 / 13), (8 / 17, 15 / 17), (4 / 5, -3 / 5), (1.0, 0.0), (0.0, 1.0)]
        v = np.array([1.0 + 0j])
        for _ in range(n):
            a, b = qs[int(r.integers(len(qs)))]
            v = np.kron(v, np.array([a, b * (1j if r.integers(3) == 0 else 1)]))
    elif kind == "sparse":
        v = np.zeros(dim, dtype=complex)
        for j in r.choice(dim, size=max(1, dim // 2), replace=False):
            v[j] = r.normal() + 1j * r.normal()
    elif kind == "npint":         # integer ndarray: entries are np.int64 (np.number, not int/float/complex)
        v = np.zeros(dim, dtype=np.int64)
        v[(i * 3 + 1) % dim] = [1, -1][i % 2]
        return v
    elif kind == "f32":           # float32 ndarray, uniform over a power-of-four number of entries (norm exactly 1 in float32)
        cnt = 4 ** (n // 2)
        v = np.zeros(dim, dtype=np.float32)
        v[r.choice(dim, size=cnt, replace=False)] = np.float32(1.0 / math.sqrt(cnt)) * (-1 if i % 2 else 1)
        return v
    else:
        raise ValueError(kind)
    return v / np.linalg.norm(v)


def make_states(r, n, k, kind):
    if kind == "identical":
        s = rand_state(r, n, "complex")
        return [s.copy() for _ in range(k)]
    if kind == "mixed":
        kinds = ["complex", "real", "basis", "rational", "sparse"]
        return [rand_state(r, n, kinds[i % len(kinds)], i) for i in range(k)]
    return [rand_state(r, n, kind, i) for i in range(k)]


def make_probs(r, k, kind):
    """valid probability vectors (python floats), or None for the uniform default"""
    if kind == "none":
        return None
    if kind == "random":
        p = r.random(k) + 0.05
    elif kind == "zeros":
        p = r.random(k) + 0.05
        if k >= 2:
            for j in r.choice(k, size=max(1, k // 3), replace=False):
                p[j] = 0.0
        if p.sum() == 0:
            p[0] = 1.0
    elif kind == "onehot":
        p = np.zeros(k)
        p[int(r.integers(k))] = 1.0
    elif kind == "dyadic":
        p = np.array([float(r.integers(1, 8)) for _ in range(k)])
        p = p / p.sum()
    else:
        raise ValueError(kind)
    p = p / p.sum()
    return [float(x) for x in p]


def jstates(states):
    out = []
    for s in states:
        row = []
        for z in s:
            row += [float(np.real(z)), float(np.imag(z))]
        out.append(row)
    return out


def recorder():
    from qclib.state_preparation import LowRankInitialize

    class Rec(LowRankInitialize):
        log = []

        def __init__(self, params, label=None, opt_params=None):
            Rec.log.append(np.array(params, dtype=complex).copy())
            super().__init__(params, label=label, opt_params=opt_params)
    return Rec


# ----------------------------------------------------------------------------------------------
# assumptions (K4 conventions the theorems' reading of the code relies on)
# ----------------------------------------------------------------------------------------------
def conventions(ctx):
    from qiskit.circuit.library import XGate
    from qiskit.quantum_info import Operator, Statevector
    from qiskit import QuantumCircuit
    # ctrl_state string: rightmost character <-> control qubit 0; controls first, then target
    op = Operator(XGate().control(2, ctrl_state="01")).data
    exp = np.eye(8)
    exp[[1, 5]] = exp[[5, 1]]
    ctx.assumption_checks += 1
    if np.abs(op - exp).max() > 1e-12:
        ctx.fail("assumption:ctrl_state-convention", "XGate().control(2,'01') is not 'q0=1,q1=0'", kind="assumption")
    # kron index convention
    a, b = np.array([1.0, 2.0, 3.0]), np.array([5.0, 7.0])
    kr = np.kron(a, b)
    ctx.assumption_checks += 1
    if any(kr[x * 2 + j] != a[x] * b[j] for x in range(3) for j in range(2)):
        ctx.fail("assumption:kron-convention", "np.kron index convention changed", kind="assumption")
    # little endian statevector
    qc = QuantumCircuit(3)
    qc.x(1)
    ctx.assumption_checks += 1
    if abs(Statevector(qc).data[2] - 1) > 1e-12:
        ctx.fail("assumption:little-endian", "Statevector index bit j is not qubit j", kind="assumption")
    # math.isclose: the C implementation on a few boundary points (model = same statements)
    ctx.assumption_checks += 4
    if not (math.isclose(1 + 1e-10, 1.0) and not math.isclose(1 + 1e-8, 1.0)
            and not math.isclose(float("nan"), 1.0) and not math.isclose(float("inf"), 1.0)):
        ctx.fail("assumption:isclose", "math.isclose defaults changed", kind="assumption")


# ----------------------------------------------------------------------------------------------
# tie: decisions
# ----------------------------------------------------------------------------------------------
def decision_impl(states, probs, classical, init_ok=True):
    from qclib.state_preparation.mixed import MixedInitialize
    kw = {} if init_ok else {"initializer": int}
    try:
        g = MixedInitialize(states, probabilities=probs, classical=classical, **kw)
    except Exception as e:  # noqa: BLE001 -- the decision IS the exception class
        return ["raise " + classify(e)], None
    pr = " ".join(" " + fbits(x) for x in g._probabilities)
    return [f"accept {g.num_qubits} {g._num_ctrl_qubits} {g._num_data_qubits} ;{pr}"], g


def tie_decision(ctx, states, probs, classical, label, init_ok=True):
    impl, g = decision_impl(states, probs, classical, init_ok)
    op = {"op": "decide", "initOk": init_ok, "dims": [len(s) for s in states], "none": probs is None,
          "probs": [] if probs is None else [bits(x) for x in probs], "classical": classical, "label": label}
    ctx.tie(op, impl, label=f"decide {label} dims={op['dims']} probs={probs} classical={classical}")
    ctx.count("decision:" + impl[0].split(" ;")[0].split(" ")[0] + (":" + impl[0].split(" ")[1] if impl[0].startswith("raise") else ""))
    return impl[0], g


OFFS = [1e-12, 1e-11, 1e-10, 3e-10, 3e-9, 1e-8, 1e-6, 1e-3, 0.1]
NAN, INF = float("nan"), float("inf")


def malformed_stream(r, k):
    """(label, probs, expected) — expected in {'neg','gt1','sum','accept', None(unspecified)}"""
    out = []
    base = make_probs(r, k, "random")
    big = max(range(k), key=lambda i: base[i])
    small = min(range(k), key=lambda i: base[i])
    # negative entries
    p = list(base); p[small] = -0.2
    if k >= 2:
        p[big] += 0.2 + base[small]
    out.append(("neg", p, "neg"))
    p = list(base); p[small] = -1e-6
    out.append(("neg-small", p, "neg"))
    p = list(base); p[small] = -1e-300
    out.append(("neg-tiny", p, None))
    p = list(base); p[small] = -INF
    out.append(("neg-inf", p, "neg"))
    if k >= 2:
        p = [0.0] * k; p[big] = 1.0; p[small] = -0.0
        out.append(("neg-zero", p, "accept"))
    # > 1
    p = [0.0] * k; p[big] = 1.5
    out.append(("gt1", p, "gt1"))
    p = [0.0] * k; p[big] = 1.0 + 2 ** -52
    out.append(("gt1-ulp", p, None))
    p = [0.0] * k; p[big] = INF
    out.append(("gt1-inf", p, "gt1"))
    if k >= 2:
        p = list(base); p[small] = 1.000001
        out.append(("gt1-sum-too", p, "gt1"))
        p = [0.0] * k; p[big] = 1.7; p[small] = -0.7
        out.append(("neg-before-gt1", p, "neg"))
    # sums
    for d in OFFS:
        p = list(base); p[big] -= d
        out.append((f"sum-{d:g}", p, "sum" if d >= 1e-6 else None))
        if k >= 2:
            p = list(base); p[small] += d
            out.append((f"sum+{d:g}", p, "sum" if d >= 1e-6 else None))
    if k >= 2:
        out.append(("sum=2", [1.0, 1.0] + [0.0] * (k - 2), "sum"))
    out.append(("sum=0", [0.0] * k, "sum"))
    out.append(("half", [x / 2 for x in base], "sum"))
    # NaN
    p = list(base); p[int(r.integers(k))] = NAN
    out.append(("nan", p, "sum"))
    out.append(("all-nan", [NAN] * k, "sum"))
    # exactly representable valid ones
    out.append(("onehot", make_probs(r, k, "onehot"), "accept"))
    out.append(("valid", base, "accept"))
    out.append(("valid-zeros", make_probs(r, k, "zeros"), "accept"))
    out.append(("none", None, "accept"))
    return out


def run_decisions(ctx, kmax, ns):
    r = ctx.nprng()
    for classical in (True, False):
        for n in ns:
            for k in range(1, kmax + 1):
                states = make_states(r, n, k, "complex")
                for label, probs, expected in malformed_stream(r, k):
                    got, _ = tie_decision(ctx, states, probs, classical, label)
                    reject_oracle(ctx, got, label, probs, expected, n, k, classical)
                # wrong lengths (the code does not validate the length: modelled as coded)
                for dl in (-1, 1, 2):
                    kk = k + dl
                    if kk >= 1:
                        tie_decision(ctx, states, make_probs(r, kk, "random"), classical, f"len{dl:+d}")
                tie_decision(ctx, states, [], classical, "empty-probs")
        # structural
        s2 = make_states(r, 2, 2, "real")
        tie_decision(ctx, [], None, classical, "no-states-none")
        tie_decision(ctx, [], [], classical, "no-states-empty")
        tie_decision(ctx, [], [1.0], classical, "no-states-1")
        tie_decision(ctx, [[]], [1.0], classical, "empty-state")
        tie_decision(ctx, [[]], None, classical, "empty-state-none")
        tie_decision(ctx, [[1.0]], None, classical, "dim1")
        tie_decision(ctx, [[1.0, 0, 0]], None, classical, "dim3")
        tie_decision(ctx, [[1.0, 0, 0, 0, 0, 0]] * 2, [0.5, 0.5], classical, "dim6")
        tie_decision(ctx, s2, None, classical, "bad-initializer", init_ok=False)
        tie_decision(ctx, s2, [-1.0, 2.0], classical, "bad-initializer-bad-probs", init_ok=False)
        tie_decision(ctx, [], None, classical, "bad-initializer-no-states", init_ok=False)


def expected_of(probs, k):
    """What the property demands for a probability vector, decided away from the tolerance band."""
    if probs is None:
        return "accept"
    if len(probs) != k:
        return None
    if any(p <= -1e-6 for p in probs):
        return "neg"
    if any(p < 0 for p in probs):
        return None
    if any(p >= 1 + 1e-6 for p in probs):
        return "gt1"
    if any(p > 1 for p in probs):
        return None
    s = sum(probs)
    if s != s or abs(s - 1) >= 1e-6:
        return "sum"
    if abs(s - 1) <= 1e-12:
        return "accept"
    return None


def reject_oracle(ctx, got, label, probs, expected, n, k, classical):
    """Property sentence 2, evaluated on the real code independently of the model."""
    if expected is None:
        return
    key = f"reject:{label}:n={n}:k={k}:classical={int(classical)}"
    rep = {"kind": "reject", "n": n, "k": k, "probs": [repr(x) for x in probs] if probs is not None else None,
           "classical": classical, "expected": expected, "observed": got}
    if expected == "accept":
        if got.startswith("accept"):
            ctx.ok(key, nontrivial=False)
        else:
            ctx.fail(f"accept:{label}:valid-vector-rejected", f"valid probability vector raised: {got}", rep)
    else:
        if got.startswith("raise ValueError"):
            ctx.ok(key, nontrivial=True, sample={"rejected": label, "k": k, "how": got})
        else:
            ctx.fail(f"reject:{expected}:invalid-vector-accepted" if got.startswith("accept")
                     else f"reject:{expected}:wrong-exception",
                     f"probabilities {probs} ({label}) gave '{got}', expected ValueError", rep)


# ----------------------------------------------------------------------------------------------
# tie: widths
# ----------------------------------------------------------------------------------------------
class FakeParams:
    def __init__(self, k, d):
        self.k, self.d = k, d

    def __len__(self):
        return self.k

    def __getitem__(self, i):
        return range(self.d)


def run_widths(ctx, kdense):
    from qclib.gates.initialize_mixed import InitializeMixed
    ks = list(range(1, kdense + 1))
    for m in range(1, 41):
        ks += [2 ** m - 1, 2 ** m, 2 ** m + 1]
    ks = sorted(set(k for k in ks if k >= 1))
    for d in (1, 2, 3, 4, 5, 8, 16, 17, 1024, 2 ** 20):
        lines = []
        for k in ks:
            o = types.SimpleNamespace()
            InitializeMixed._get_num_qubits(o, FakeParams(k, d))
            a = int(math.ceil(math.log2(k)))        # the expression assigned to _num_ctrl_qubits
            lines.append(f"nq {k} {o.num_qubits} {a} ;")
        ctx.tie({"op": "width", "dim": d, "ks": ks}, lines, label=f"width dim={d} ks=1..{kdense},2^m±1")
        # second tie of the translation (Gen/MixedWidth.lean): num_qubits of the real _get_num_qubits; the control count of
        # the real constructor is compared below for small k (a wide k needs k real state vectors)
        ctx.tie({"op": "gen_width", "dim": d, "ks": ks}, [" ".join(l.split()[:3]) for l in lines],
                label=f"translated width dim={d}",
                compare=lambda op, impl, model: None if impl == [" ".join(l.split()[:3]) for l in model] else
                next((f"impl={a!r} generated={b!r}" for a, b in zip(impl, model) if a != " ".join(b.split()[:3])), "length"))
    from qclib.state_preparation.mixed import MixedInitialize
    for d in (2, 4, 8):
        ks2 = list(range(1, 34))
        lines = []
        for k in ks2:
            st = np.zeros(d)
            st[0] = 1.0
            try:
                g = MixedInitialize([st] * k)
                lines.append(f"nq {k} {g.num_qubits} {g._num_ctrl_qubits} ;")
            except Exception as e:
                lines.append(f"nq {k} raised {type(e).__name__} ;")
        ctx.tie({"op": "gen_width", "dim": d, "ks": ks2}, lines, label=f"translated width / control count, real constructor dim={d}",
                compare=lambda op, impl, model: None if impl == model else
                next((f"impl={a!r} generated={b!r}" for a, b in zip(impl, model) if a != b), "length"))


# ----------------------------------------------------------------------------------------------
# tie: purification vector / in-circuit plan as produced by the REAL code
# ----------------------------------------------------------------------------------------------
def _tie_purification(ctx, n, k, states, probs, reset, stage):
    from qclib.state_preparation.mixed import MixedInitialize
    Rec = recorder()
    eff = probs if probs is not None else [1 / k] * k
    # classical: what is handed to the initializer IS pure_state
    stage.append("classical")
    g = MixedInitialize(states, initializer=Rec, probabilities=probs, classical=True, reset=reset)
    Rec.log.clear()
    d = g.definition
    w = Rec.log[0]
    ctx.tie({"op": "purif", "k": k, "n": n, "states": jstates(states), "probs": list(eff)},
            [f"w {i} ; {fbits(z.real)} {fbits(z.imag)}" for i, z in enumerate(w)],
            label=f"purif n={n} k={k} lenP={len(eff)}")
    impl_wrap = wrap_lines(d)
    a = clog2(k)
    ctx.tie({"op": "wrap", "k": k, "n": n, "reset": reset}, impl_wrap, label=f"wrap n={n} k={k} reset={reset}")
    if n >= 2 and k >= 2 and len(eff) <= 2 ** a:
        stage.append("incircuit")
        g = MixedInitialize(states, initializer=Rec, probabilities=probs, classical=False, reset=reset)
        Rec.log.clear()
        d = g.definition
        pur = d.data[0].operation.definition
        lines = []
        log = list(Rec.log)
        first = pur.data[0]
        qs = [pur.find_bit(q).index for q in first.qubits]
        lines.append("aux " + " ".join(map(str, qs)) + " ;" +
                     " ".join(f" {fbits(z.real)} {fbits(z.imag)}" for z in log[0]))
        for idx, inst in enumerate(pur.data[1:]):
            op = inst.operation
            qs = [pur.find_bit(q).index for q in inst.qubits]
            nc = op.num_ctrl_qubits
            cs = op.ctrl_state
            lits = [(cs >> j) & 1 for j in range(nc)]
            amps = log[1 + idx]
            lines.append(f"cstep {idx} " + " ".join(map(str, qs[:nc])) + " " + " ".join(map(str, lits)) + " " +
                         " ".join(map(str, qs[nc:])) + " ;" +
                         " ".join(f" {fbits(z.real)} {fbits(z.imag)}" for z in amps))
        lines += wrap_lines(d)
        ctx.tie({"op": "incirc", "k": k, "n": n, "reset": reset, "states": jstates(states), "probs": list(eff)},
                lines, label=f"incirc n={n} k={k} lenP={len(eff)} reset={reset}")


def tie_purification(ctx, n, k, states, probs, reset=True):
    """Dump what the REAL code hands to its sub-initializer.  The ensembles generated here are valid
    (except deliberately short probability lists), so an exception out of qclib is a violation of
    the property ("construction never fails"), not a harness error."""
    stage = []
    try:
        _tie_purification(ctx, n, k, states, probs, reset, stage)
    except Exception as e:  # noqa: BLE001
        mode = stage[-1] if stage else "classical"
        rep = {"kind": "ensemble", "n": n, "k": k, "classical": mode == "classical", "reset": reset, "static": False,
               "states": [[[float(z.real), float(z.imag)] for z in s] for s in states],
               "probs": None if probs is None else [repr(x) for x in probs]}
        ctx.fail(f"ensemble:{mode}:n={n}:k={k}:tie:construct-raises",
                 f"valid ensemble raised {type(e).__name__}: {str(e)[:200]}", rep)


def wrap_lines(d):
    """outer definition: registers, the 'purified state' instruction, resets"""
    regs = " ".join(f"{len(r)}" for r in d.qregs)
    lines = []
    resets = []
    for inst in d.data:
        qs = [d.find_bit(q).index for q in inst.qubits]
        if inst.operation.name == "reset":
            resets += qs
        else:
            lines.append("wrap " + regs + " " + " ".join(map(str, qs)) + " ;")
    lines.append("reset " + " ".join(map(str, resets)) + " ;")
    return lines


def run_purifications(ctx, nmax, kmax):
    r = ctx.nprng()
    skinds = ["complex", "real", "basis", "identical", "rational", "mixed"]
    pkinds = ["none", "random", "zeros", "onehot", "dyadic"]
    for n in range(1, nmax + 1):
        for k in range(1, kmax + 1):
            combos = [(s, p) for s in skinds for p in pkinds]
            if ctx.quick:
                combos = [combos[int(i)] for i in r.choice(len(combos), size=6, replace=False)]
            for j, (sk, pk) in enumerate(combos):
                tie_purification(ctx, n, k, make_states(r, n, k, sk), make_probs(r, k, pk), reset=bool(j % 2))
            # zip truncation: fewer probabilities than states (accepted by the code)
            if k >= 2:
                tie_purification(ctx, n, k, make_states(r, n, k, "complex"), make_probs(r, k - 1, "random"))


# ----------------------------------------------------------------------------------------------
# oracle: reduced state of the real circuit
# ----------------------------------------------------------------------------------------------
def oracle_case(ctx, n, k, states, probs, classical, reset, skind, pkind, via_static=False):
    from qclib.state_preparation.mixed import MixedInitialize
    from qiskit.quantum_info import DensityMatrix, Statevector, partial_trace
    from qiskit import QuantumCircuit
    mode = "classical" if classical else "incircuit"
    key = f"ensemble:{mode}:n={n}:k={k}:{skind}:{pkind}:reset={int(reset)}" + (":static" if via_static else "")
    eff = probs if probs is not None else [1 / k] * k
    rep = {"kind": "ensemble", "n": n, "k": k, "classical": classical, "reset": reset, "static": via_static,
           "states": [[[float(z.real), float(z.imag)] for z in s] for s in states],
           "probs": None if probs is None else [repr(x) for x in probs]}
    a = clog2(k)
    try:
        if via_static:
            circ = QuantumCircuit(n + a)
            MixedInitialize.initialize(circ, states, probabilities=probs)
            circ = circ.decompose(reps=1)
            nq = circ.num_qubits
        else:
            g = MixedInitialize(states, probabilities=probs, classical=classical, reset=reset)
            circ = g.definition
            nq = g.num_qubits
    except Exception as e:  # noqa: BLE001
        ctx.fail(key + ":construct-raises", f"valid ensemble raised {type(e).__name__}: {str(e)[:200]}", rep)
        return
    if nq != n + a or circ.num_qubits != n + a:
        ctx.fail(key + ":width", f"num_qubits {nq} / circuit {circ.num_qubits} != n + ceil(log2 k) = {n + a}", rep)
        return
    ideal = sum(p * np.outer(s, np.conj(s)) for p, s in zip(eff, states))
    has_reset = any(i.operation.name == "reset" for i in circ.data)
    if has_reset != ((reset or via_static) and a > 0):
        ctx.fail(key + ":reset-flag", f"reset={reset} but definition has_reset={has_reset}", rep)
        return
    if has_reset:
        dm = DensityMatrix(circ)
        rho = partial_trace(dm, list(range(a))).data if a else dm.data
        # after reset the auxiliaries are |0>
        auxr = partial_trace(dm, list(range(a, a + n))).data if a else np.array([[1.0]])
        e_aux = abs(auxr[0, 0] - 1)
    else:
        sv = Statevector(circ)
        rho = partial_trace(sv, list(range(a))).data if a else np.outer(sv.data, sv.data.conj())
        e_aux = 0.0
    err = float(np.abs(rho - ideal).max())
    ctx.count(f"{mode}:{'reset' if has_reset else 'noreset'}")
    nz = sum(1 for p in eff if p > 0)
    if err > 1e-7:
        ctx.fail(key + ":reduced-state", f"max |Tr_aux(out) - sum p_i|psi_i><psi_i|| = {err:.3e}", dict(rep, err=err))
    elif e_aux > 1e-7:
        ctx.fail(key + ":aux-not-reset", f"aux register not |0> after reset ({e_aux:.3e})", rep)
    else:
        ctx.ok(key, nontrivial=k >= 2 and nz >= 2,
               sample={"mode": mode, "n": n, "k": k, "states": skind, "probs": pkind, "reset": reset, "err": err})


def run_oracle(ctx, nmax, kmax, per_cell):
    r = ctx.nprng()
    skinds = ["complex", "real", "basis", "identical", "rational", "mixed", "sparse"]
    pkinds = ["none", "random", "zeros", "onehot", "dyadic"]
    excluded = 0
    for n in range(1, nmax + 1):
        for k in range(1, kmax + 1):
            combos = [(s, p) for s in skinds for p in pkinds]
            if per_cell and per_cell < len(combos):
                # always keep the uniform default and a zero-containing vector
                combos = [("complex", "none"), ("mixed", "zeros")] + \
                         [combos[int(i)] for i in r.choice(len(combos), size=per_cell - 2, replace=False)]
            for j, (sk, pk) in enumerate(combos):
                states = make_states(r, n, k, sk)
                probs = make_probs(r, k, pk)
                for classical in (True, False):
                    if not classical and (n < 2 or k < 2):
                        excluded += 1
                        continue
                    oracle_case(ctx, n, k, states, probs, classical, bool((j + classical) % 2), sk, pk)
            st = make_states(r, n, k, "complex")
            oracle_case(ctx, n, k, st, make_probs(r, k, "random"), True, True, "complex", "random", via_static=True)
    ctx.notes.append(f"in-circuit cases with n<2 or k<2 are outside the property's quantifier and were skipped ({excluded})")


# ----------------------------------------------------------------------------------------------
# generator-quality audit: options and entry points the sweeps above leave at their defaults
# ----------------------------------------------------------------------------------------------
UNREACHED_JUSTIFIED = {
    "qclib/gates/initialize_mixed.py:21 initialize": "body-less base-class stub (`pass`), overridden by "
                                                     "MixedInitialize.initialize; nothing calls it",
    "qclib/gates/initialize_mixed.py:41": "raise for an ensemble entry that is not a number: invalid input, not one of the "
                                          "rejections the property lists (probability vectors)",
}


def permute_state(s, pos):
    """state over bits 0..n-1 -> the same state with old bit j moved to bit pos[j]"""
    s = np.asarray(s, dtype=complex)
    n = len(pos)
    out = np.zeros_like(s)
    for idx in range(len(s)):
        j2 = 0
        for j in range(n):
            if (idx >> j) & 1:
                j2 |= 1 << pos[j]
        out[j2] = s[idx]
    return out


def option_case(ctx, n, k, states, probs, tag, classical=True, ctor_kw=None):
    """constructor options the sweeps leave at their defaults (label, initializer, ensemble entry types): same observable"""
    from qclib.state_preparation.mixed import MixedInitialize
    from qiskit.quantum_info import Statevector, partial_trace
    mode = "classical" if classical else "incircuit"
    key = f"ensemble:{mode}:n={n}:k={k}:option:{tag}"
    rep = {"kind": "option", "tag": tag}
    a = clog2(k)
    eff = probs if probs is not None else [1 / k] * k
    try:
        g = MixedInitialize(states, probabilities=probs, classical=classical, reset=False, **(ctor_kw or {}))
        circ = g.definition
        sv = Statevector(circ)
    except Exception as e:  # noqa: BLE001
        if "initializer" in (ctor_kw or {}) and not classical:
            # the property quantifies over ensembles, probabilities and the two modes with the default sub-initializer;
            # a non-default `initializer` whose definition cannot be controlled is outside it: recorded, not judged
            ctx.count("outside-quantifier:incircuit with non-default initializer raises")
            ctx.notes.append(f"outside the quantifier: MixedInitialize(..., {tag}, classical=False).definition raises "
                             f"{type(e).__name__}: {str(e)[:120]}")
            return None
        ctx.fail(key + ":construct-raises", f"valid ensemble / option raised {type(e).__name__}: {str(e)[:200]}", rep)
        return None
    ideal = sum(p * np.outer(np.asarray(s, dtype=complex), np.conj(np.asarray(s, dtype=complex))) for p, s in zip(eff, states))
    rho = partial_trace(sv, list(range(a))).data if a else np.outer(sv.data, sv.data.conj())
    err = float(np.abs(rho - ideal).max())
    want = (ctor_kw or {}).get("label")
    if g.num_qubits != n + a or circ.num_qubits != n + a:
        ctx.fail(key + ":width", f"num_qubits {g.num_qubits} / circuit {circ.num_qubits} != {n + a}", rep)
    elif err > 1e-7:
        ctx.fail(key + ":reduced-state", f"max |Tr_aux(out) - sum p_i|psi_i><psi_i|| = {err:.3e}", dict(rep, err=err))
    elif g.label != (want if want is not None else "Mixed"):
        ctx.fail(key + ":label", f"label {g.label!r}, requested {want!r}", rep)
    else:
        ctx.ok(key, nontrivial=k >= 2, sample={"mode": mode, "n": n, "k": k, "option": tag, "err": err})
    return g


def run_options(ctx):
    from qclib.state_preparation.mixed import MixedInitialize
    from qclib.state_preparation import TopDownInitialize, UCGInitialize
    from qiskit import QuantumCircuit
    from qiskit.quantum_info import DensityMatrix, Statevector, partial_trace
    r = ctx.nprng()
    # (1) explicit label (constructor branch `label is None` -> False) and inverse(): gate . inverse = identity, "_dg" label
    for n, k, classical in ((1, 2, True), (2, 3, True), (2, 2, False), (2, 3, False)):
        states, probs = make_states(r, n, k, "complex"), make_probs(r, k, "random")
        for lab in (None, "rho15"):
            ctx.count("branch:label " + ("given" if lab else "default") + " + inverse")
            g = option_case(ctx, n, k, states, probs, f"label={lab}", classical, {"label": lab} if lab else None)
            if g is None:
                continue
            key = f"inverse:{'classical' if classical else 'incircuit'}:n={n}:k={k}:label={lab}"
            try:
                inv = g.inverse()
                both = g.definition.compose(inv.definition)
                back = Statevector(both).data
            except Exception as e:  # noqa: BLE001
                ctx.fail(key + ":raises", f"MixedInitialize(reset=False).inverse() raised {type(e).__name__}: {str(e)[:200]}",
                         {"kind": "option", "tag": "inverse"})
                continue
            e0 = abs(abs(back[0]) - 1)
            if e0 > 1e-7:
                ctx.fail(key + ":not-identity", f"gate followed by its inverse leaves |0..0> with overlap off by {e0:.3e}",
                         {"kind": "option", "tag": "inverse"})
            elif inv.label != (lab or "Mixed") + "_dg" or g.label != (lab or "Mixed"):
                ctx.fail(key + ":label", f"inverse label {inv.label!r}, gate label {g.label!r}", {"kind": "option", "tag": "inverse"})
            else:
                ctx.ok(key)
    # (2) ensembles whose entries are numpy scalars other than float64/complex128 (second branch of validate_parameter)
    for kind in ("npint", "f32"):
        for n, k, classical in ((1, 2, True), (2, 3, True), (2, 4, False), (3, 2, True)):
            ctx.count("branch:ensemble entry type " + kind)
            states = make_states(r, n, k, kind)
            probs = make_probs(r, k, "dyadic")
            option_case(ctx, n, k, states, probs, f"entries={kind}", classical)
            if classical:
                tie_purification(ctx, n, k, states, probs, reset=False)
    # (3) another sub-initializer class (documented option `initializer`)
    for init, nm in ((TopDownInitialize, "TopDown"), (UCGInitialize, "UCG")):
        for n, k, classical in ((2, 3, True), (2, 2, False)):
            ctx.count("branch:initializer=" + nm)
            option_case(ctx, n, k, make_states(r, n, k, "mixed"), make_probs(r, k, "zeros"), f"initializer={nm}", classical,
                        {"initializer": init})
    # (4) static entry point with an explicit ordered qubit list inside a larger circuit
    for n, k in ((1, 2), (2, 3), (2, 4), (1, 5)):
        a = clog2(k)
        w = n + a
        m = w + 1
        qs = [int(q) for q in r.permutation(m)[:w]]
        states, probs = make_states(r, n, k, "complex"), make_probs(r, k, "random")
        key = f"ensemble:static:n={n}:k={k}:qubits={qs}"
        ctx.count("branch:initialize(qubits=list)")
        try:
            host = QuantumCircuit(m)
            MixedInitialize.initialize(host, states, qubits=qs, probabilities=probs)
            dm = DensityMatrix(host)
        except Exception as e:  # noqa: BLE001
            ctx.fail(key + ":construct-raises", f"MixedInitialize.initialize(circuit, ensemble, qubits={qs}) raised "
                     f"{type(e).__name__}: {str(e)[:200]}", {"kind": "option", "tag": "static-qubits"})
            continue
        data = qs[a:]                                    # gate qubit a + j (data qubit j) sits on host wire qs[a + j]
        keep = sorted(data)
        rho = partial_trace(dm, [q for q in range(m) if q not in keep]).data
        pos = [keep.index(h) for h in data]
        ideal = sum(p * np.outer(permute_state(s, pos), np.conj(permute_state(s, pos))) for p, s in zip(probs, states))
        others = partial_trace(dm, keep).data           # aux (reset) and the spectator: all |0>
        err = float(np.abs(rho - ideal).max())
        e_rest = abs(others[0, 0] - 1)
        if err > 1e-7:
            ctx.fail(key + ":reduced-state", f"data qubits {data}: max |rho - sum p_i|psi_i><psi_i|| = {err:.3e}",
                     {"kind": "option", "tag": "static-qubits"})
        elif e_rest > 1e-7:
            ctx.fail(key + ":other-qubits", f"auxiliary / untouched qubits are not |0> afterwards ({e_rest:.3e})",
                     {"kind": "option", "tag": "static-qubits"})
        else:
            ctx.ok(key, nontrivial=True, sample={"static": True, "n": n, "k": k, "qubits": qs, "err": err})


# ----------------------------------------------------------------------------------------------
# boundary-value cases: every comparison of mixed.py / initialize_mixed.py on a count, a position or a threshold
# ----------------------------------------------------------------------------------------------
def _positions(k):
    return sorted({("first", 0), ("middle", k // 2), ("last", k - 1)}, key=lambda t: t[1]) if k >= 3 else \
        ([("first", 0), ("last", 1)] if k == 2 else [("first", 0)])


def _fixed_probs(k):
    """a valid vector of dyadic rationals (sum exactly 1 in floating point, every entry in (0, 1) for k >= 2)"""
    w = [float(1 + (i % 3)) for i in range(k)]
    tot = sum(w)
    m = 1
    while m < tot:
        m *= 2
    w[0] += m - tot          # integers summing to a power of two: the quotients are exact
    return [x / m for x in w]


def _outcome(got):
    w = got.split(" ")
    return w[0] if w[0] == "accept" else "raise:" + w[1].split(":")[-1]


def boundary_decisions(ctx):
    """mixed.py:76 `any(i < 0.0 ..)`, :78 `any(i > 1.0 ..)`, :80 `isclose(sum, 1.0)`: the offending entry at the first /
    middle / last position with the other two tests passing (MC/DC), at distance 0, 1e-12 and 1e-3 from the bound."""
    r = ctx.nprng()
    for classical in (True, False):
        for k in (1, 2, 3, 5):
            states = make_states(r, 1 if classical else 2, k, "rational")
            n = 1 if classical else 2
            base = _fixed_probs(k)
            for pname, pos in _positions(k):
                other = (pos + 1) % k
                # (a) negative entry, sum kept at 1 (only the `< 0.0` test can reject)
                for tag, d, exp in (("-1e-3", 1e-3, "neg"), ("-1e-12", 1e-12, None), ("-0.0", None, "accept"),
                                    ("0.0", 0.0, "accept"), ("+1e-12", -1e-12, None)):
                    if k == 1 and d is not None and d != 0.0:
                        p = [-d]                    # a single entry: the sum cannot be kept
                        exp = "neg" if d >= 1e-6 else None
                        if d < 0:
                            continue
                    elif k == 1:
                        continue
                    else:
                        p = list(base)
                        p[other] += p[pos]
                        p[pos] = -0.0 if d is None else -d
                        p[other] += 0.0 if d is None else d
                    label = f"bnd-neg:{pname}:{tag}"
                    got, _ = tie_decision(ctx, states, p, classical, label)
                    ctx.count(f"boundary:negative:{tag}:{pname}:{_outcome(got)}")
                    reject_oracle(ctx, got, label, p, exp, n, k, classical)
                # (b) entry above 1, the others 0: for 1e-12 and one ulp the sum still passes isclose, only `> 1.0` rejects
                for tag, d, exp in (("1.0", 0.0, "accept"), ("1+ulp", 2.0 ** -52, None), ("1+1e-12", 1e-12, None),
                                    ("1+1e-3", 1e-3, "gt1")):
                    p = [0.0] * k
                    p[pos] = 1.0 + d
                    label = f"bnd-gt1:{pname}:{tag}"
                    got, _ = tie_decision(ctx, states, p, classical, label)
                    ctx.count(f"boundary:above-one:{tag}:{pname}:{_outcome(got)}")
                    reject_oracle(ctx, got, label, p, exp, n, k, classical)
                # (c) sum off on both sides of isclose's 1e-9 (3e-10 inside, 3e-9 outside; 5e-10..2e-9 excluded), every
                # entry inside [0, 1]
                if k >= 2:
                    for tag, d, exp in (("-3e-9", -3e-9, None), ("-3e-10", -3e-10, None), ("+3e-10", 3e-10, None),
                                        ("+3e-9", 3e-9, None), ("-1e-3", -1e-3, "sum"), ("+1e-3", 1e-3, "sum")):
                        p = list(base)
                        p[pos] += d
                        label = f"bnd-sum:{pname}:{tag}"
                        got, _ = tie_decision(ctx, states, p, classical, label)
                        ctx.count(f"boundary:sum-tolerance:{tag}:{_outcome(got)}")
                        reject_oracle(ctx, got, label, p, exp, n, k, classical)


def boundary_ensembles(ctx):
    """mixed.py:92 ceil(log2 k) at k = 1, 2, 3, 4, 5, 7, 8, 9 (padding 2^a - k = 0, 1, maximal at :128), n = 1, 2, 3;
    probabilities omitted vs given; an entry exactly 0 or exactly 1 at the first / middle / last position (:111 zip,
    :140 enumerate / :150 ctrl_state index); `reset` on/off incl. a = 0 (:162); both purification modes."""
    r = ctx.nprng()
    # (1) aux-count boundaries
    for n in (1, 2, 3):
        for k in (1, 2, 3, 4, 5, 7, 8, 9):
            a = clog2(k)
            for pk in ("none", "random"):
                if n == 3 and (k > 5 or pk == "none") and k != 8:
                    continue
                states, probs = make_states(r, n, k, "complex" if pk == "none" else "mixed"), make_probs(r, k, pk)
                tie_purification(ctx, n, k, states, probs, reset=bool(k % 2))
                for classical in (True, False):
                    if not classical and (n < 2 or k < 2 or (n == 3 and k > 5)):
                        continue
                    oracle_case(ctx, n, k, states, probs, classical, bool(k % 2), "bnd-k", pk)
                    ctx.count(f"boundary:aux-count:k={k}:a={a}:padding={2 ** a - k}:{'classical' if classical else 'incircuit'}")
                    ctx.count(f"boundary:probabilities-{'omitted' if probs is None else 'given'}:n={n}")
    # (2) probability exactly 0 / exactly 1 by position
    for n in (1, 2):
        for k in (2, 3, 4, 5):
            for pname, pos in _positions(k):
                for what in ("zero", "one"):
                    if what == "zero":
                        p = np.array(make_probs(r, k, "random"))
                        p[pos] = 0.0
                        probs = [float(x) for x in p / p.sum()]
                    else:
                        probs = [0.0] * k
                        probs[pos] = 1.0
                    states = make_states(r, n, k, "complex")
                    tie_purification(ctx, n, k, states, probs, reset=False)
                    for classical in (True, False):
                        if not classical and n < 2:
                            continue
                        oracle_case(ctx, n, k, states, probs, classical, False, f"bnd-p-{what}", pname)
                        ctx.count(f"boundary:probability-exactly-{what}:{pname}:{'classical' if classical else 'incircuit'}")
    # (3) reset on / off at a = 0 and a = 1, both modes and the static entry point
    for n, k in ((1, 1), (2, 1), (1, 2), (2, 2)):
        states, probs = make_states(r, n, k, "complex"), make_probs(r, k, "random")
        for reset in (True, False):
            for classical in (True, False):
                if not classical and (n < 2 or k < 2):
                    continue
                oracle_case(ctx, n, k, states, probs, classical, reset, "bnd-reset", "random")
                ctx.count(f"boundary:reset={int(reset)}:aux={clog2(k)}:{'classical' if classical else 'incircuit'}")
        oracle_case(ctx, n, k, states, probs, True, True, "bnd-reset", "random", via_static=True)
    # (4) the smallest sizes of the in-circuit mode: n = 2, k = 2 is inside the quantifier (checked above); n = 1 or
    # k = 1 is outside it - whatever the code does there is recorded, and if it builds a circuit the circuit must be right
    from qclib.state_preparation.mixed import MixedInitialize
    for n, k in ((1, 1), (2, 1), (1, 2), (1, 3)):
        states, probs = make_states(r, n, k, "complex"), make_probs(r, k, "random")
        try:
            MixedInitialize(states, probabilities=probs, classical=False).definition
        except Exception as e:  # noqa: BLE001
            ctx.count(f"boundary:incircuit-below-minimum:n={n}:k={k}:raises {type(e).__name__}")
            continue
        ctx.count(f"boundary:incircuit-below-minimum:n={n}:k={k}:builds")
        oracle_case(ctx, n, k, states, probs, False, False, "bnd-min", "random")


# ----------------------------------------------------------------------------------------------
def compare(op, impl, model):
    import framework
    if any(l.startswith(("raise", "UNKNOWN", "PARSE")) for l in list(impl) + list(model)):
        return None if list(impl) == list(model) else f"decision: impl={impl!r} model={model!r}"
    return framework.diff_lines(impl, model)


def run(ctx):
    conventions(ctx)
    if ctx.quick:
        run_decisions(ctx, kmax=5, ns=(1, 2))
        run_widths(ctx, 300)
        run_purifications(ctx, 3, 6)
        run_oracle(ctx, 3, 6, per_cell=6)
    else:
        run_decisions(ctx, kmax=9, ns=(1, 2, 3))
        run_widths(ctx, 4096)
        run_purifications(ctx, 3, 9)
        run_oracle(ctx, 3, 6, per_cell=0)
        run_oracle(ctx, 4, 9, per_cell=4)
    run_options(ctx)
    boundary_decisions(ctx)
    boundary_ensembles(ctx)
    ctx.notes.append("boundary cases: an entry is exactly at the bound (0.0, -0.0, 1.0), 1e-12 / one ulp beyond it (decided "
                     "by the tie only: the property leaves rounding-size excesses open) or 1e-3 beyond it (tie and oracle)")
    ctx.notes.append("sum offsets within 5e-10..2e-9 of 1 are not generated (builtin sum is compensated in CPython>=3.12, "
                     "the model folds left; the decision can legitimately differ there)")
    ctx.notes.append("probability vectors whose length differs from the number of states are NOT rejected by the code "
                     "(zip truncation / extra aux amplitude); modelled as coded, not part of the property")


def search(ctx, hints):
    """A proof / fingerprint / tie went red: look for an input on which the REAL code violates C14."""
    r = ctx.nprng()
    for h in hints[:20]:
        op = h.get("op", {})
        if op.get("op") == "decide" and op.get("dims") and all(d == op["dims"][0] and d >= 2 and (d & (d - 1)) == 0
                                                                for d in op["dims"]):
            k, n = len(op["dims"]), int(math.log2(op["dims"][0]))
            probs = None if op["none"] else [struct.unpack("<d", struct.pack("<Q", b))[0] for b in op["probs"]]
            got, _ = decision_impl(make_states(r, n, k, "complex"), probs, op.get("classical", True))
            exp = expected_of(probs, k)
            if exp is not None:
                reject_oracle(ctx, got[0], op.get("label", "hint"), probs, exp, n, k, op.get("classical", True))
        if op.get("op") in ("purif", "incirc"):
            n, k = op["n"], op["k"]
            states = [np.array([complex(s[2 * i], s[2 * i + 1]) for i in range(len(s) // 2)]) for s in op["states"]]
            if len(op["probs"]) == k:
                for classical in (True, False):
                    if classical or (n >= 2 and k >= 2):
                        oracle_case(ctx, n, k, states, op["probs"], classical, False, "hint", "hint")
    # structured search, larger than run()
    for classical in (True, False):
        for n in (1, 2):
            for k in range(1, 8):
                states = make_states(r, n, k, "complex")
                for label, probs, expected in malformed_stream(r, k):
                    got, _ = decision_impl(states, probs, classical)
                    reject_oracle(ctx, got[0], label, probs, expected, n, k, classical)
    run_oracle(ctx, 3, 9, per_cell=8)


def replay(ctx, payload):
    rp = payload["replay"]
    if rp.get("kind") == "reject":
        probs = None if rp["probs"] is None else [float(x) for x in rp["probs"]]
        r = ctx.nprng()
        got, _ = decision_impl(make_states(r, rp["n"], rp["k"], "complex"), probs, rp["classical"])
        reject_oracle(ctx, got[0], "replay", probs, rp["expected"], rp["n"], rp["k"], rp["classical"])
    elif rp.get("kind") == "option":
        run_options(ctx)
    elif rp.get("kind") == "ensemble":
        states = [np.array([complex(a, b) for a, b in s]) for s in rp["states"]]
        probs = None if rp["probs"] is None else [float(x) for x in rp["probs"]]
        oracle_case(ctx, rp["n"], rp["k"], states, probs, rp["classical"], rp["reset"], "replay", "replay",
                    via_static=rp.get("static", False))
    else:
        raise RuntimeError("replay payload names an obligation, not an input: " + str(payload.get("broken_obligations"))[:500])
