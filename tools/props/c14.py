"""C14 — MixedInitialize (qclib/state_preparation/mixed.py, qclib/gates/initialize_mixed.py)."""
import ast
import hashlib
import math
import os
import struct
import types
import numpy as np

CLAIMED = True
TECHNIQUE = ("Lean 4 proofs over star rings / ordered fields (finite sums, bit arithmetic, all n and k) about an executable model "
             "of the validation chain, the width formula, the kron-accumulation purification and the in-circuit plan; model tied to "
             "the source by an AST fingerprint of the validation statements plus decision / purification-vector / plan diffs "
             "against the real code; partial-trace oracle on the real circuits")
LEVEL_TEXT = ("Proved for all n, all k>=1 (incl. non powers of two): tracing the aux index out of the model's purification vector "
              "w[x*2^a+i] gives sum_i p_i psi_i[x] conj psi_i[y], padding entries are 0, aux qubits are the low wires (C14_reduced, "
              "C14_index); the in-circuit plan (aux = sqrt(p) zero-padded, step i controlled on the literals of f'{i:0ab}') yields "
              "the same w under the explicit hypothesis that each controlled sub-initializer prepares psi_i iff aux reads i "
              "(C14_incircuit, C14_ctrl); the decision function accepts iff all p_i in [0,1] and |sum-1| <= 1e-9*max(|sum|,1) and "
              "rejects each kind with the exception the code raises (C14_reject); num_qubits = n + ceil(log2 k) with 2^a >= k "
              "minimal (C14_width); uniform default is valid (C14_uniform). Tied: decisions on a malformed stream for both modes "
              "(IEEE doubles on both sides, NaN/inf included), pure_state / aux_state / per-step controls as seen by the "
              "sub-initializer of the REAL code, widths for k up to 2^40+1, AST fingerprint of the validation code. Tested only: "
              "partial_trace of the real circuit vs the ensemble (n<=3, k<=6; thorough n<=4, k<=9).")
LEVEL_NOTE = ("Trusted: Lean kernel (standard axioms); the sub-initializer (LowRankInitialize, C01) and qiskit .control / compose / "
              "reset / DensityMatrix / partial_trace (K4, exercised by the oracle); float vs exact arithmetic (isclose threshold "
              "modelled with the same constants; builtin sum modelled as a left fold, inputs within 5e-10..2e-9 of the threshold "
              "excluded); hand model <-> code beyond the explored inputs (AST fingerprint flags any change of the validation code).")
LEAN_TARGETS = ["QclibModel.Props.C14"]
THEOREMS = ["Qclib.C14_reduced", "Qclib.C14_index", "Qclib.C14_incircuit", "Qclib.C14_ctrl", "Qclib.C14_reject",
            "Qclib.C14_reject_kinds", "Qclib.C14_uniform", "Qclib.C14_width", "Qclib.C14_width_src"]
TRUSTED = [
    "sub-initializer meets C01 (prepares the vector it is given from |0..0>) and qiskit .control(ctrl_state) acts iff the controls read ctrl_state (hypotheses of C14_incircuit; exercised by the oracle each run)",
    "np.kron index convention kron(A,B)[x*len(B)+j] = A[x]*B[j] and qiskit little-endian wire order (checked numerically each run)",
    "math.isclose = CPython math_isclose_impl (modelled statement by statement, tied on doubles incl. NaN/inf); builtin sum ~ left fold",
    "int(ceil(log2(k))) = least a with k <= 2^a for k < 2^48 (tied for k <= 4096 and 2^m-1, 2^m, 2^m+1, m <= 40)",
    "tools/py2lean.py: InitializeMixed._get_num_qubits and the _num_ctrl_qubits statement of MixedInitialize.__init__ are "
    "re-translated from the source on every run (Gen/MixedWidth.lean) and proved equal to numQubits / clog2 for all d, k >= 1 "
    "(C14_width_src); second tie: the generated definitions run by the driver vs the real code (same k range as the width tie, "
    "real constructors for k <= 33)",
]
ASSUMPTIONS = ["exact arithmetic in the theorems; implementation compared to 1e-9 (tie) / 1e-7 (oracle)",
               "in-circuit purification requires n>=2 and k>=2 (property precondition; smaller cases raise inside qiskit/.control)",
               "length of the probability vector is not validated by the code (not part of the property); zip truncation is modelled"]
RULE = ("tie: decision cases (dims, probabilities, mode), (n,k,states,probs) purification vectors and in-circuit plans diffed against "
        "the Lean model; oracle: partial trace of the real circuit vs sum_i p_i|psi_i><psi_i| and reject/accept of probability "
        "vectors; non-trivial = k>=2 with at least two non-zero probabilities, or a rejected vector; input-diversity section "
        "(_diversity_*): the same ensembles / probability vectors / options in every ordinary Python form (list / tuple / ndarray "
        "of int64, float32, float64, complex64, complex128, numpy scalars; heavy head + light tail, exact zeros and ones by "
        "position, global phases, negative zeros; opt_params None / {} / partial / full incl. lr=1 whose effect on the reduced "
        "state is computed independently; static helper on permuted sub-lists of larger hosts with ints / Qubit objects; dict "
        "and gate reuse; k = 1..5, n = 1..3), same observable, keys div:* / div-seq:* / div-reject:*")

# ----------------------------------------------------------------------------------------------
# AST fingerprint of the validation code the model was written against
# ----------------------------------------------------------------------------------------------
EXPECTED_FINGERPRINT = "2616dc400fd288261defbb362476dd21712aa5482bb527b21f4db293ccaff205"


def _fingerprint_parts():
    import framework
    parts = []
    p1 = os.path.join(framework.REPO, "qclib/state_preparation/mixed.py")
    p2 = os.path.join(framework.REPO, "qclib/gates/initialize_mixed.py")
    t1, t2 = ast.parse(open(p1).read()), ast.parse(open(p2).read())

    def math_imports(t):
        out = []
        for node in t.body:
            if isinstance(node, ast.ImportFrom) and node.module == "math":
                out.append(ast.dump(node))
        return out

    parts += math_imports(t1) + math_imports(t2)
    init = getnq = None
    for node in ast.walk(t1):
        if isinstance(node, ast.ClassDef) and node.name == "MixedInitialize":
            for f in node.body:
                if isinstance(f, ast.FunctionDef) and f.name == "__init__":
                    init = f
    for node in ast.walk(t2):
        if isinstance(node, ast.FunctionDef) and node.name == "_get_num_qubits":
            getnq = node
    if init is None or getnq is None:
        raise RuntimeError("C14 fingerprint: MixedInitialize.__init__ / InitializeMixed._get_num_qubits not found")
    parts.append(ast.dump(init.args))
    for st in init.body:
        s = ast.unparse(st)
        keep = isinstance(st, ast.If) and "label" not in s
        keep = keep or any(w in s for w in ("_get_num_qubits", "self._probabilities", "self._num_ctrl_qubits",
                                            "self._num_data_qubits", "self._list_params", "self._classical",
                                            "self._reset"))
        if keep:
            parts.append(ast.dump(st))
    for st in getnq.body:
        parts.append(ast.dump(st))
    return parts


def fingerprint():
    parts = _fingerprint_parts()
    return hashlib.sha256("\n".join(parts).encode()).hexdigest(), parts


GEN_FILE_REL = "lean/QclibModel/Gen/MixedWidth.lean"
GEN_SOURCES = ["qclib/gates/initialize_mixed.py", "qclib/state_preparation/mixed.py"]


def generate_widths(ctx):
    """Source tie of the width arithmetic: re-translate it (tools/py2lean.py) and re-check C14_width_src."""
    import framework
    import py2lean
    import srctie
    py2lean.ensure_prelude(framework.LEAN)
    ns = "Qclib.Gen.MixedWidth"
    a, m = GEN_SOURCES

    def tb(rel, *args, **k):
        return py2lean.translate_block(os.path.join(framework.REPO, rel), *args, relpath=rel, **k)
    blocks = [
        tb(a, "InitializeMixed._get_num_qubits", "mixed_num_qubits", ns, result="self.num_qubits",
           views={"len(params[0])": "len_params_0", "len(params)": "len_params"}),
        tb(m, "MixedInitialize.__init__", "mixed_num_ctrl", ns, result="self._num_ctrl_qubits",
           views={"len(params)": "len_params"}),
    ]
    text = py2lean.write_module(os.path.join(framework.VERIF, GEN_FILE_REL), blocks, GEN_SOURCES)
    srctie.verify(ctx, "QclibModel.Props.C14", ["Qclib.C14_width_src"])
    return {"file": GEN_FILE_REL, "bytes": len(text),
            "translated": ["InitializeMixed._get_num_qubits", "MixedInitialize.__init__ (self._num_ctrl_qubits)"]}


def generate(ctx):
    """Tie (b): the validation statements of the current source must be the ones the hand model
    mirrors.  A change raises (→ broken obligation → failing-input search).  The width arithmetic is
    additionally re-translated from the source (generate_widths) — first, so that its own broken obligation is
    recorded even when the fingerprint raises."""
    gen = generate_widths(ctx)
    h, parts = fingerprint()
    if h != EXPECTED_FINGERPRINT:
        import framework
        txt = []
        for p in ("qclib/state_preparation/mixed.py",):
            src = open(os.path.join(framework.REPO, p)).read().split("\n")
            txt = [l for l in src[60:100] if l.strip()]
        raise RuntimeError("C14: validation code of MixedInitialize.__init__/_get_num_qubits changed "
                           f"(fingerprint {h[:16]} != {EXPECTED_FINGERPRINT[:16]}); the hand model "
                           "Model/Mixed.lean no longer mirrors the source. Current text:\n" + "\n".join(txt)[:1500])
    return dict(gen, validation_ast_fingerprint=h, statements=len(parts))


# ----------------------------------------------------------------------------------------------
# helpers
# ----------------------------------------------------------------------------------------------
def fbits(x):
    return "f" + str(struct.unpack("<Q", struct.pack("<d", float(x)))[0])


def bits(x):
    return struct.unpack("<Q", struct.pack("<d", float(x)))[0]


def clog2(k):
    a = 0
    while (1 << a) < k:
        a += 1
    return a


def classify(e):
    n, m = type(e).__name__, str(e)
    if n == "TypeError" and "initializer" in m:
        return "TypeError:initializer"
    if n == "ZeroDivisionError":
        return "ZeroDivisionError"
    if n == "IndexError":
        return "IndexError"
    if n == "ValueError":
        if "greater than or equal to 0" in m:
            return "ValueError:neg"
        if "less than or equal to 1" in m:
            return "ValueError:gt1"
        if "sum of the probabilities" in m:
            return "ValueError:sum"
        if "math domain" in m or "expected a positive input" in m:
            return "ValueError:mathdomain"
        if "positive power of 2" in m:
            return "ValueError:notpow2"
    return f"Other:{n}:{m[:60]}"


def rand_state(r, n, kind, i=0):
    dim = 2 ** n
    if kind == "complex":
        v = r.normal(size=dim) + 1j * r.normal(size=dim)
    elif kind == "real":
        v = r.normal(size=dim) + 0j
    elif kind == "basis":
        v = np.zeros(dim, dtype=complex)
        v[(i * 3 + 1) % dim] = [1, -1, 1j, -1j][i % 4]
    elif kind == "rational":      # product of Pythagorean one-qubit states: exact rational unit vector
        qs = [(3 / 5, 4 / 5), (5 / 13, 12 / 13), (8 / 17, 15 / 17), (4 / 5, -3 / 5), (1.0, 0.0), (0.0, 1.0)]
        v = np.array([1.0 + 0j])
        for _ in range(n):
            a, b = qs[int(r.integers(len(qs)))]
            v = np.kron(v, np.array([a, b * (1j if r.integers(3) == 0 else 1)]))
    elif kind == "sparse":
        v = np.zeros(dim, dtype=complex)
        for j in r.choice(dim, size=max(1, dim // 2), replace=False):
            v[j] = r.normal() + 1j * r.normal()
    elif kind == "npint":         # integer ndarray: entries are np.int64 (np.number, not int/float/complex)
        v = np.zeros(dim, dtype=np.int64)
        v[(i * 3 + 1) % dim] = [1, -1][i % 2]
        return v
    elif kind == "f32":           # float32 ndarray, uniform over a power-of-four number of entries (norm exactly 1 in float32)
        cnt = 4 ** (n // 2)
        v = np.zeros(dim, dtype=np.float32)
        v[r.choice(dim, size=cnt, replace=False)] = np.float32(1.0 / math.sqrt(cnt)) * (-1 if i % 2 else 1)
        return v
    else:
        raise ValueError(kind)
    return v / np.linalg.norm(v)


def make_states(r, n, k, kind):
    if kind == "identical":
        s = rand_state(r, n, "complex")
        return [s.copy() for _ in range(k)]
    if kind == "mixed":
        kinds = ["complex", "real", "basis", "rational", "sparse"]
        return [rand_state(r, n, kinds[i % len(kinds)], i) for i in range(k)]
    return [rand_state(r, n, kind, i) for i in range(k)]


def make_probs(r, k, kind):
    """valid probability vectors (python floats), or None for the uniform default"""
    if kind == "none":
        return None
    if kind == "random":
        p = r.random(k) + 0.05
    elif kind == "zeros":
        p = r.random(k) + 0.05
        if k >= 2:
            for j in r.choice(k, size=max(1, k // 3), replace=False):
                p[j] = 0.0
        if p.sum() == 0:
            p[0] = 1.0
    elif kind == "onehot":
        p = np.zeros(k)
        p[int(r.integers(k))] = 1.0
    elif kind == "dyadic":
        p = np.array([float(r.integers(1, 8)) for _ in range(k)])
        p = p / p.sum()
    else:
        raise ValueError(kind)
    p = p / p.sum()
    return [float(x) for x in p]


def jstates(states):
    out = []
    for s in states:
        row = []
        for z in s:
            row += [float(np.real(z)), float(np.imag(z))]
        out.append(row)
    return out


def recorder():
    from qclib.state_preparation import LowRankInitialize

    class Rec(LowRankInitialize):
        log = []

        def __init__(self, params, label=None, opt_params=None):
            Rec.log.append(np.array(params, dtype=complex).copy())
            super().__init__(params, label=label, opt_params=opt_params)
    return Rec


# ----------------------------------------------------------------------------------------------
# assumptions (K4 conventions the theorems' reading of the code relies on)
# ----------------------------------------------------------------------------------------------
def conventions(ctx):
    from qiskit.circuit.library import XGate
    from qiskit.quantum_info import Operator, Statevector
    from qiskit import QuantumCircuit
    # ctrl_state string: rightmost character <-> control qubit 0; controls first, then target
    op = Operator(XGate().control(2, ctrl_state="01")).data
    exp = np.eye(8)
    exp[[1, 5]] = exp[[5, 1]]
    ctx.assumption_checks += 1
    if np.abs(op - exp).max() > 1e-12:
        ctx.fail("assumption:ctrl_state-convention", "XGate().control(2,'01') is not 'q0=1,q1=0'", kind="assumption")
    # kron index convention
    a, b = np.array([1.0, 2.0, 3.0]), np.array([5.0, 7.0])
    kr = np.kron(a, b)
    ctx.assumption_checks += 1
    if any(kr[x * 2 + j] != a[x] * b[j] for x in range(3) for j in range(2)):
        ctx.fail("assumption:kron-convention", "np.kron index convention changed", kind="assumption")
    # little endian statevector
    qc = QuantumCircuit(3)
    qc.x(1)
    ctx.assumption_checks += 1
    if abs(Statevector(qc).data[2] - 1) > 1e-12:
        ctx.fail("assumption:little-endian", "Statevector index bit j is not qubit j", kind="assumption")
    # math.isclose: the C implementation on a few boundary points (model = same statements)
    ctx.assumption_checks += 4
    if not (math.isclose(1 + 1e-10, 1.0) and not math.isclose(1 + 1e-8, 1.0)
            and not math.isclose(float("nan"), 1.0) and not math.isclose(float("inf"), 1.0)):
        ctx.fail("assumption:isclose", "math.isclose defaults changed", kind="assumption")


# ----------------------------------------------------------------------------------------------
# tie: decisions
# ----------------------------------------------------------------------------------------------
def decision_impl(states, probs, classical, init_ok=True):
    from qclib.state_preparation.mixed import MixedInitialize
    kw = {} if init_ok else {"initializer": int}
    try:
        g = MixedInitialize(states, probabilities=probs, classical=classical, **kw)
    except Exception as e:  # noqa: BLE001 -- the decision IS the exception class
        return ["raise " + classify(e)], None
    pr = " ".join(" " + fbits(x) for x in g._probabilities)
    return [f"accept {g.num_qubits} {g._num_ctrl_qubits} {g._num_data_qubits} ;{pr}"], g


def tie_decision(ctx, states, probs, classical, label, init_ok=True):
    impl, g = decision_impl(states, probs, classical, init_ok)
    op = {"op": "decide", "initOk": init_ok, "dims": [len(s) for s in states], "none": probs is None,
          "probs": [] if probs is None else [bits(x) for x in probs], "classical": classical, "label": label}
    ctx.tie(op, impl, label=f"decide {label} dims={op['dims']} probs={probs} classical={classical}")
    ctx.count("decision:" + impl[0].split(" ;")[0].split(" ")[0] + (":" + impl[0].split(" ")[1] if impl[0].startswith("raise") else ""))
    return impl[0], g


OFFS = [1e-12, 1e-11, 1e-10, 3e-10, 3e-9, 1e-8, 1e-6, 1e-3, 0.1]
NAN, INF = float("nan"), float("inf")


def malformed_stream(r, k):
    """(label, probs, expected) — expected in {'neg','gt1','sum','accept', None(unspecified)}"""
    out = []
    base = make_probs(r, k, "random")
    big = max(range(k), key=lambda i: base[i])
    small = min(range(k), key=lambda i: base[i])
    # negative entries
    p = list(base); p[small] = -0.2
    if k >= 2:
        p[big] += 0.2 + base[small]
    out.append(("neg", p, "neg"))
    p = list(base); p[small] = -1e-6
    out.append(("neg-small", p, "neg"))
    p = list(base); p[small] = -1e-300
    out.append(("neg-tiny", p, None))
    p = list(base); p[small] = -INF
    out.append(("neg-inf", p, "neg"))
    if k >= 2:
        p = [0.0] * k; p[big] = 1.0; p[small] = -0.0
        out.append(("neg-zero", p, "accept"))
    # > 1
    p = [0.0] * k; p[big] = 1.5
    out.append(("gt1", p, "gt1"))
    p = [0.0] * k; p[big] = 1.0 + 2 ** -52
    out.append(("gt1-ulp", p, None))
    p = [0.0] * k; p[big] = INF
    out.append(("gt1-inf", p, "gt1"))
    if k >= 2:
        p = list(base); p[small] = 1.000001
        out.append(("gt1-sum-too", p, "gt1"))
        p = [0.0] * k; p[big] = 1.7; p[small] = -0.7
        out.append(("neg-before-gt1", p, "neg"))
    # sums
    for d in OFFS:
        p = list(base); p[big] -= d
        out.append((f"sum-{d:g}", p, "sum" if d >= 1e-6 else None))
        if k >= 2:
            p = list(base); p[small] += d
            out.append((f"sum+{d:g}", p, "sum" if d >= 1e-6 else None))
    if k >= 2:
        out.append(("sum=2", [1.0, 1.0] + [0.0] * (k - 2), "sum"))
    out.append(("sum=0", [0.0] * k, "sum"))
    out.append(("half", [x / 2 for x in base], "sum"))
    # NaN
    p = list(base); p[int(r.integers(k))] = NAN
    out.append(("nan", p, "sum"))
    out.append(("all-nan", [NAN] * k, "sum"))
    # exactly representable valid ones
    out.append(("onehot", make_probs(r, k, "onehot"), "accept"))
    out.append(("valid", base, "accept"))
    out.append(("valid-zeros", make_probs(r, k, "zeros"), "accept"))
    out.append(("none", None, "accept"))
    return out


def run_decisions(ctx, kmax, ns):
    r = ctx.nprng()
    for classical in (True, False):
        for n in ns:
            for k in range(1, kmax + 1):
                states = make_states(r, n, k, "complex")
                for label, probs, expected in malformed_stream(r, k):
                    got, _ = tie_decision(ctx, states, probs, classical, label)
                    reject_oracle(ctx, got, label, probs, expected, n, k, classical)
                # wrong lengths (the code does not validate the length: modelled as coded)
                for dl in (-1, 1, 2):
                    kk = k + dl
                    if kk >= 1:
                        tie_decision(ctx, states, make_probs(r, kk, "random"), classical, f"len{dl:+d}")
                tie_decision(ctx, states, [], classical, "empty-probs")
        # structural
        s2 = make_states(r, 2, 2, "real")
        tie_decision(ctx, [], None, classical, "no-states-none")
        tie_decision(ctx, [], [], classical, "no-states-empty")
        tie_decision(ctx, [], [1.0], classical, "no-states-1")
        tie_decision(ctx, [[]], [1.0], classical, "empty-state")
        tie_decision(ctx, [[]], None, classical, "empty-state-none")
        tie_decision(ctx, [[1.0]], None, classical, "dim1")
        tie_decision(ctx, [[1.0, 0, 0]], None, classical, "dim3")
        tie_decision(ctx, [[1.0, 0, 0, 0, 0, 0]] * 2, [0.5, 0.5], classical, "dim6")
        tie_decision(ctx, s2, None, classical, "bad-initializer", init_ok=False)
        tie_decision(ctx, s2, [-1.0, 2.0], classical, "bad-initializer-bad-probs", init_ok=False)
        tie_decision(ctx, [], None, classical, "bad-initializer-no-states", init_ok=False)


def expected_of(probs, k):
    """What the property demands for a probability vector, decided away from the tolerance band."""
    if probs is None:
        return "accept"
    if len(probs) != k:
        return None
    if any(p <= -1e-6 for p in probs):
        return "neg"
    if any(p < 0 for p in probs):
        return None
    if any(p >= 1 + 1e-6 for p in probs):
        return "gt1"
    if any(p > 1 for p in probs):
        return None
    s = sum(probs)
    if s != s or abs(s - 1) >= 1e-6:
        return "sum"
    if abs(s - 1) <= 1e-12:
        return "accept"
    return None


def reject_oracle(ctx, got, label, probs, expected, n, k, classical):
    """Property sentence 2, evaluated on the real code independently of the model."""
    if expected is None:
        return
    key = f"reject:{label}:n={n}:k={k}:classical={int(classical)}"
    rep = {"kind": "reject", "n": n, "k": k, "probs": [repr(x) for x in probs] if probs is not None else None,
           "classical": classical, "expected": expected, "observed": got}
    if expected == "accept":
        if got.startswith("accept"):
            ctx.ok(key, nontrivial=False)
        else:
            ctx.fail(f"accept:{label}:valid-vector-rejected", f"valid probability vector raised: {got}", rep)
    else:
        if got.startswith("raise ValueError"):
            ctx.ok(key, nontrivial=True, sample={"rejected": label, "k": k, "how": got})
        else:
            ctx.fail(f"reject:{expected}:invalid-vector-accepted" if got.startswith("accept")
                     else f"reject:{expected}:wrong-exception",
                     f"probabilities {probs} ({label}) gave '{got}', expected ValueError", rep)


# ----------------------------------------------------------------------------------------------
# tie: widths
# ----------------------------------------------------------------------------------------------
class FakeParams:
    def __init__(self, k, d):
        self.k, self.d = k, d

    def __len__(self):
        return self.k

    def __getitem__(self, i):
        return range(self.d)


def run_widths(ctx, kdense):
    from qclib.gates.initialize_mixed import InitializeMixed
    ks = list(range(1, kdense + 1))
    for m in range(1, 41):
        ks += [2 ** m - 1, 2 ** m, 2 ** m + 1]
    ks = sorted(set(k for k in ks if k >= 1))
    for d in (1, 2, 3, 4, 5, 8, 16, 17, 1024, 2 ** 20):
        lines = []
        for k in ks:
            o = types.SimpleNamespace()
            InitializeMixed._get_num_qubits(o, FakeParams(k, d))
            a = int(math.ceil(math.log2(k)))        # the expression assigned to _num_ctrl_qubits
            lines.append(f"nq {k} {o.num_qubits} {a} ;")
        ctx.tie({"op": "width", "dim": d, "ks": ks}, lines, label=f"width dim={d} ks=1..{kdense},2^m±1")
        # second tie of the translation (Gen/MixedWidth.lean): num_qubits of the real _get_num_qubits; the control count of
        # the real constructor is compared below for small k (a wide k needs k real state vectors)
        ctx.tie({"op": "gen_width", "dim": d, "ks": ks}, [" ".join(l.split()[:3]) for l in lines],
                label=f"translated width dim={d}",
                compare=lambda op, impl, model: None if impl == [" ".join(l.split()[:3]) for l in model] else
                next((f"impl={a!r} generated={b!r}" for a, b in zip(impl, model) if a != " ".join(b.split()[:3])), "length"))
    from qclib.state_preparation.mixed import MixedInitialize
    for d in (2, 4, 8):
        ks2 = list(range(1, 34))
        lines = []
        for k in ks2:
            st = np.zeros(d)
            st[0] = 1.0
            try:
                g = MixedInitialize([st] * k)
                lines.append(f"nq {k} {g.num_qubits} {g._num_ctrl_qubits} ;")
            except Exception as e:
                lines.append(f"nq {k} raised {type(e).__name__} ;")
        ctx.tie({"op": "gen_width", "dim": d, "ks": ks2}, lines, label=f"translated width / control count, real constructor dim={d}",
                compare=lambda op, impl, model: None if impl == model else
                next((f"impl={a!r} generated={b!r}" for a, b in zip(impl, model) if a != b), "length"))


# ----------------------------------------------------------------------------------------------
# tie: purification vector / in-circuit plan as produced by the REAL code
# ----------------------------------------------------------------------------------------------
FLAG_TYPES = {"bool": bool, "npbool": np.bool_, "int": int}     # the types a `reset` / `classical` flag is handed over in


def _mixed_gate(states, initializer, probs, classical, reset, flag="bool", pos=False, **kw):
    """MixedInitialize with `classical` / `reset` (canonical Python bools here) converted to the type `flag` names and passed
    by keyword or - `pos` - with every constructor argument positional (params, initializer, opt_params, probabilities,
    label, reset, classical)."""
    from qclib.state_preparation.mixed import MixedInitialize
    from qclib.state_preparation import LowRankInitialize
    f = FLAG_TYPES[flag]
    if pos:
        return MixedInitialize(states, initializer or LowRankInitialize, kw.get("opt_params"), probs, kw.get("label"),
                               f(reset), f(classical))
    if initializer is not None:
        kw["initializer"] = initializer
    return MixedInitialize(states, probabilities=probs, classical=f(classical), reset=f(reset), **kw)


def _tie_purification(ctx, n, k, states, probs, reset, stage, modes=("classical", "incircuit"), form="", flag="bool", pos=False):
    """`states` / `probs` go to the REAL code in the form given (list / tuple / ndarray of any dtype); the Lean op gets the
    same numbers as doubles.  `flag` / `pos`: type and position of the two boolean options (the op keeps the Python bool)."""
    def MixedInitialize(states, initializer, probabilities, classical, reset):
        return _mixed_gate(states, initializer, probabilities, classical, reset, flag, pos)
    Rec = recorder()
    eff = [float(x) for x in probs] if probs is not None else [1 / k] * k
    a = clog2(k)
    if "classical" in modes:
        # classical: what is handed to the initializer IS pure_state
        stage.append("classical")
        g = MixedInitialize(states, initializer=Rec, probabilities=probs, classical=True, reset=reset)
        Rec.log.clear()
        d = g.definition
        w = Rec.log[0]
        ctx.tie({"op": "purif", "k": k, "n": n, "states": jstates(states), "probs": list(eff)},
                [f"w {i} ; {fbits(z.real)} {fbits(z.imag)}" for i, z in enumerate(w)],
                label=f"purif n={n} k={k} lenP={len(eff)}{form}")
        impl_wrap = wrap_lines(d)
        ctx.tie({"op": "wrap", "k": k, "n": n, "reset": reset}, impl_wrap, label=f"wrap n={n} k={k} reset={reset}{form}")
    if "incircuit" in modes and n >= 2 and k >= 2 and len(eff) <= 2 ** a:
        stage.append("incircuit")
        g = MixedInitialize(states, initializer=Rec, probabilities=probs, classical=False, reset=reset)
        Rec.log.clear()
        d = g.definition
        pur = d.data[0].operation.definition
        lines = []
        log = list(Rec.log)
        first = pur.data[0]
        qs = [pur.find_bit(q).index for q in first.qubits]
        lines.append("aux " + " ".join(map(str, qs)) + " ;" +
                     " ".join(f" {fbits(z.real)} {fbits(z.imag)}" for z in log[0]))
        for idx, inst in enumerate(pur.data[1:]):
            op = inst.operation
            qs = [pur.find_bit(q).index for q in inst.qubits]
            nc = op.num_ctrl_qubits
            cs = op.ctrl_state
            lits = [(cs >> j) & 1 for j in range(nc)]
            amps = log[1 + idx]
            lines.append(f"cstep {idx} " + " ".join(map(str, qs[:nc])) + " " + " ".join(map(str, lits)) + " " +
                         " ".join(map(str, qs[nc:])) + " ;" +
                         " ".join(f" {fbits(z.real)} {fbits(z.imag)}" for z in amps))
        lines += wrap_lines(d)
        ctx.tie({"op": "incirc", "k": k, "n": n, "reset": reset, "states": jstates(states), "probs": list(eff)},
                lines, label=f"incirc n={n} k={k} lenP={len(eff)} reset={reset}{form}")


def tie_purification(ctx, n, k, states, probs, reset=True, modes=("classical", "incircuit"), form="", rep=None, flag="bool",
                     pos=False):
    """Dump what the REAL code hands to its sub-initializer.  The ensembles generated here are valid
    (except deliberately short probability lists), so an exception out of qclib is a violation of
    the property ("construction never fails"), not a harness error."""
    stage = []
    try:
        _tie_purification(ctx, n, k, states, probs, reset, stage, modes, form, flag, pos)
    except Exception as e:  # noqa: BLE001
        mode = stage[-1] if stage else "classical"
        if rep is None:
            rep = {"kind": "ensemble", "n": n, "k": k, "classical": mode == "classical", "reset": reset, "static": False,
                   "states": [[[float(np.real(z)), float(np.imag(z))] for z in s] for s in states],
                   "probs": None if probs is None else [repr(float(x)) for x in probs]}
        ctx.fail(f"ensemble:{mode}:n={n}:k={k}{form}:tie:construct-raises",
                 f"valid ensemble raised {type(e).__name__}: {str(e)[:200]}", rep)


def wrap_lines(d):
    """outer definition: registers, the 'purified state' instruction, resets"""
    regs = " ".join(f"{len(r)}" for r in d.qregs)
    lines = []
    resets = []
    for inst in d.data:
        qs = [d.find_bit(q).index for q in inst.qubits]
        if inst.operation.name == "reset":
            resets += qs
        else:
            lines.append("wrap " + regs + " " + " ".join(map(str, qs)) + " ;")
    lines.append("reset " + " ".join(map(str, resets)) + " ;")
    return lines


def run_purifications(ctx, nmax, kmax):
    r = ctx.nprng()
    skinds = ["complex", "real", "basis", "identical", "rational", "mixed"]
    pkinds = ["none", "random", "zeros", "onehot", "dyadic"]
    for n in range(1, nmax + 1):
        for k in range(1, kmax + 1):
            combos = [(s, p) for s in skinds for p in pkinds]
            if ctx.quick:
                combos = [combos[int(i)] for i in r.choice(len(combos), size=6, replace=False)]
            for j, (sk, pk) in enumerate(combos):
                tie_purification(ctx, n, k, make_states(r, n, k, sk), make_probs(r, k, pk), reset=(j % 3 == 0))
            # zip truncation: fewer probabilities than states (accepted by the code)
            if k >= 2:
                tie_purification(ctx, n, k, make_states(r, n, k, "complex"), make_probs(r, k - 1, "random"))


# ----------------------------------------------------------------------------------------------
# oracle: reduced state of the real circuit
# ----------------------------------------------------------------------------------------------
def oracle_case(ctx, n, k, states, probs, classical, reset, skind, pkind, via_static=False, _patched=False):
    from qclib.state_preparation.mixed import MixedInitialize
    from qiskit.quantum_info import DensityMatrix, Statevector, partial_trace
    from qiskit import QuantumCircuit
    mode = "classical" if classical else "incircuit"
    key = f"ensemble:{mode}:n={n}:k={k}:{skind}:{pkind}:reset={int(reset)}" + (":static" if via_static else "")
    eff = probs if probs is not None else [1 / k] * k
    rep = {"kind": "ensemble", "n": n, "k": k, "classical": classical, "reset": reset, "static": via_static,
           "states": [[[float(z.real), float(z.imag)] for z in s] for s in states],
           "probs": None if probs is None else [repr(x) for x in probs]}
    a = clog2(k)
    try:
        if via_static:
            circ = QuantumCircuit(n + a)
            MixedInitialize.initialize(circ, states, probabilities=probs)
            circ = circ.decompose(reps=1)
            nq = circ.num_qubits
        else:
            g = MixedInitialize(states, probabilities=probs, classical=classical, reset=reset)
            circ = g.definition
            nq = g.num_qubits
    except Exception as e:  # noqa: BLE001
        ctx.fail(key + ":construct-raises", f"valid ensemble raised {type(e).__name__}: {str(e)[:200]}", rep)
        return
    if nq != n + a or circ.num_qubits != n + a:
        ctx.fail(key + ":width", f"num_qubits {nq} / circuit {circ.num_qubits} != n + ceil(log2 k) = {n + a}", rep)
        return
    ideal = sum(p * np.outer(s, np.conj(s)) for p, s in zip(eff, states))
    has_reset = any(i.operation.name == "reset" for i in circ.data)
    if has_reset != ((reset or via_static) and a > 0):
        ctx.fail(key + ":reset-flag", f"reset={reset} but definition has_reset={has_reset}", rep)
        return
    if has_reset:
        dm = DensityMatrix(circ)
        rho = partial_trace(dm, list(range(a))).data if a else dm.data
        # after reset the auxiliaries are |0>
        auxr = partial_trace(dm, list(range(a, a + n))).data if a else np.array([[1.0]])
        e_aux = abs(auxr[0, 0] - 1)
    else:
        sv = Statevector(circ)
        rho = partial_trace(sv, list(range(a))).data if a else np.outer(sv.data, sv.data.conj())
        e_aux = 0.0
    err = float(np.abs(rho - ideal).max())
    ctx.count(f"{mode}:{'reset' if has_reset else 'noreset'}")
    nz = sum(1 for p in eff if p > 0)
    if not _patched:
        # precision limit of the trusted layers below mixed.py?  same case with qiskit's synthesis passes bypassed
        import framework

        def rerun():
            sub = framework.Ctx(ctx.pid, ctx.tier, 0)
            oracle_case(sub, n, k, states, probs, classical, reset, skind, pkind, via_static, True)
            return 1.0 if sub.failures else 0.0
        if _classify_precision(ctx, f"{mode}:n={n}:k={k}:{skind}:{pkind}", err, rerun, rep, not classical):
            return
    if err > 1e-7:
        ctx.fail(key + ":reduced-state", f"max |Tr_aux(out) - sum p_i|psi_i><psi_i|| = {err:.3e}", dict(rep, err=err))
    elif e_aux > 1e-7:
        ctx.fail(key + ":aux-not-reset", f"aux register not |0> after reset ({e_aux:.3e})", rep)
    else:
        ctx.ok(key, nontrivial=k >= 2 and nz >= 2,
               sample={"mode": mode, "n": n, "k": k, "states": skind, "probs": pkind, "reset": reset, "err": err})


def run_oracle(ctx, nmax, kmax, per_cell):
    r = ctx.nprng()
    skinds = ["complex", "real", "basis", "identical", "rational", "mixed", "sparse"]
    pkinds = ["none", "random", "zeros", "onehot", "dyadic"]
    excluded = 0
    for n in range(1, nmax + 1):
        for k in range(1, kmax + 1):
            combos = [(s, p) for s in skinds for p in pkinds]
            if per_cell and per_cell < len(combos):
                # always keep the uniform default and a zero-containing vector
                combos = [("complex", "none"), ("mixed", "zeros")] + \
                         [combos[int(i)] for i in r.choice(len(combos), size=per_cell - 2, replace=False)]
            for j, (sk, pk) in enumerate(combos):
                states = make_states(r, n, k, sk)
                probs = make_probs(r, k, pk)
                for classical in (True, False):
                    if not classical and (n < 2 or k < 2):
                        excluded += 1
                        continue
                    oracle_case(ctx, n, k, states, probs, classical, bool((j + classical) % 2), sk, pk)
            st = make_states(r, n, k, "complex")
            oracle_case(ctx, n, k, st, make_probs(r, k, "random"), True, True, "complex", "random", via_static=True)
    ctx.notes.append(f"in-circuit cases with n<2 or k<2 are outside the property's quantifier and were skipped ({excluded})")


# ----------------------------------------------------------------------------------------------
# generator-quality audit: options and entry points the sweeps above leave at their defaults
# ----------------------------------------------------------------------------------------------
UNREACHED_JUSTIFIED = {
    "qclib/gates/initialize_mixed.py:21 initialize": "body-less base-class stub (`pass`), overridden by "
                                                     "MixedInitialize.initialize; nothing calls it",
    "qclib/gates/initialize_mixed.py:41": "raise for an ensemble entry that is not a number: invalid input, not one of the "
                                          "rejections the property lists (probability vectors)",
}


def permute_state(s, pos):
    """state over bits 0..n-1 -> the same state with old bit j moved to bit pos[j]"""
    s = np.asarray(s, dtype=complex)
    n = len(pos)
    out = np.zeros_like(s)
    for idx in range(len(s)):
        j2 = 0
        for j in range(n):
            if (idx >> j) & 1:
                j2 |= 1 << pos[j]
        out[j2] = s[idx]
    return out


def option_case(ctx, n, k, states, probs, tag, classical=True, ctor_kw=None):
    """constructor options the sweeps leave at their defaults (label, initializer, ensemble entry types): same observable"""
    from qclib.state_preparation.mixed import MixedInitialize
    from qiskit.quantum_info import Statevector, partial_trace
    mode = "classical" if classical else "incircuit"
    key = f"ensemble:{mode}:n={n}:k={k}:option:{tag}"
    rep = {"kind": "option", "tag": tag}
    a = clog2(k)
    eff = probs if probs is not None else [1 / k] * k
    try:
        g = MixedInitialize(states, probabilities=probs, classical=classical, reset=False, **(ctor_kw or {}))
        circ = g.definition
        sv = Statevector(circ)
    except Exception as e:  # noqa: BLE001
        if "initializer" in (ctor_kw or {}) and not classical:
            # the property quantifies over ensembles, probabilities and the two modes with the default sub-initializer;
            # a non-default `initializer` whose definition cannot be controlled is outside it: recorded, not judged
            ctx.count("outside-quantifier:incircuit with non-default initializer raises")
            ctx.notes.append(f"outside the quantifier: MixedInitialize(..., {tag}, classical=False).definition raises "
                             f"{type(e).__name__}: {str(e)[:120]}")
            return None
        ctx.fail(key + ":construct-raises", f"valid ensemble / option raised {type(e).__name__}: {str(e)[:200]}", rep)
        return None
    ideal = sum(p * np.outer(np.asarray(s, dtype=complex), np.conj(np.asarray(s, dtype=complex))) for p, s in zip(eff, states))
    rho = partial_trace(sv, list(range(a))).data if a else np.outer(sv.data, sv.data.conj())
    err = float(np.abs(rho - ideal).max())
    want = (ctor_kw or {}).get("label")
    if g.num_qubits != n + a or circ.num_qubits != n + a:
        ctx.fail(key + ":width", f"num_qubits {g.num_qubits} / circuit {circ.num_qubits} != {n + a}", rep)
    elif err > 1e-7:
        ctx.fail(key + ":reduced-state", f"max |Tr_aux(out) - sum p_i|psi_i><psi_i|| = {err:.3e}", dict(rep, err=err))
    elif g.label != (want if want is not None else "Mixed"):
        ctx.fail(key + ":label", f"label {g.label!r}, requested {want!r}", rep)
    else:
        ctx.ok(key, nontrivial=k >= 2, sample={"mode": mode, "n": n, "k": k, "option": tag, "err": err})
    return g


def run_options(ctx):
    from qclib.state_preparation.mixed import MixedInitialize
    from qclib.state_preparation import TopDownInitialize, UCGInitialize
    from qiskit import QuantumCircuit
    from qiskit.quantum_info import DensityMatrix, Statevector, partial_trace
    r = ctx.nprng()
    # (1) explicit label (constructor branch `label is None` -> False) and inverse(): gate . inverse = identity, "_dg" label
    for n, k, classical in ((1, 2, True), (2, 3, True), (2, 2, False), (2, 3, False)):
        states, probs = make_states(r, n, k, "complex"), make_probs(r, k, "random")
        for lab in (None, "rho15"):
            ctx.count("branch:label " + ("given" if lab else "default") + " + inverse")
            g = option_case(ctx, n, k, states, probs, f"label={lab}", classical, {"label": lab} if lab else None)
            if g is None:
                continue
            key = f"inverse:{'classical' if classical else 'incircuit'}:n={n}:k={k}:label={lab}"
            try:
                inv = g.inverse()
                both = g.definition.compose(inv.definition)
                back = Statevector(both).data
            except Exception as e:  # noqa: BLE001
                ctx.fail(key + ":raises", f"MixedInitialize(reset=False).inverse() raised {type(e).__name__}: {str(e)[:200]}",
                         {"kind": "option", "tag": "inverse"})
                continue
            e0 = abs(abs(back[0]) - 1)
            if e0 > 1e-7:
                ctx.fail(key + ":not-identity", f"gate followed by its inverse leaves |0..0> with overlap off by {e0:.3e}",
                         {"kind": "option", "tag": "inverse"})
            elif inv.label != (lab or "Mixed") + "_dg" or g.label != (lab or "Mixed"):
                ctx.fail(key + ":label", f"inverse label {inv.label!r}, gate label {g.label!r}", {"kind": "option", "tag": "inverse"})
            else:
                ctx.ok(key)
    # (2) ensembles whose entries are numpy scalars other than float64/complex128 (second branch of validate_parameter)
    for kind in ("npint", "f32"):
        for n, k, classical in ((1, 2, True), (2, 3, True), (2, 4, False), (3, 2, True)):
            ctx.count("branch:ensemble entry type " + kind)
            states = make_states(r, n, k, kind)
            probs = make_probs(r, k, "dyadic")
            option_case(ctx, n, k, states, probs, f"entries={kind}", classical)
            if classical:
                tie_purification(ctx, n, k, states, probs, reset=False)
    # (3) another sub-initializer class (documented option `initializer`)
    for init, nm in ((TopDownInitialize, "TopDown"), (UCGInitialize, "UCG")):
        for n, k, classical in ((2, 3, True), (2, 2, False)):
            ctx.count("branch:initializer=" + nm)
            option_case(ctx, n, k, make_states(r, n, k, "mixed"), make_probs(r, k, "zeros"), f"initializer={nm}", classical,
                        {"initializer": init})
    # (4) static entry point with an explicit ordered qubit list inside a larger circuit
    for n, k in ((1, 2), (2, 3), (2, 4), (1, 5)):
        a = clog2(k)
        w = n + a
        m = w + 1
        qs = [int(q) for q in r.permutation(m)[:w]]
        states, probs = make_states(r, n, k, "complex"), make_probs(r, k, "random")
        key = f"ensemble:static:n={n}:k={k}:qubits={qs}"
        ctx.count("branch:initialize(qubits=list)")
        try:
            host = QuantumCircuit(m)
            MixedInitialize.initialize(host, states, qubits=qs, probabilities=probs)
            dm = DensityMatrix(host)
        except Exception as e:  # noqa: BLE001
            ctx.fail(key + ":construct-raises", f"MixedInitialize.initialize(circuit, ensemble, qubits={qs}) raised "
                     f"{type(e).__name__}: {str(e)[:200]}", {"kind": "option", "tag": "static-qubits"})
            continue
        data = qs[a:]                                    # gate qubit a + j (data qubit j) sits on host wire qs[a + j]
        keep = sorted(data)
        rho = partial_trace(dm, [q for q in range(m) if q not in keep]).data
        pos = [keep.index(h) for h in data]
        ideal = sum(p * np.outer(permute_state(s, pos), np.conj(permute_state(s, pos))) for p, s in zip(probs, states))
        others = partial_trace(dm, keep).data           # aux (reset) and the spectator: all |0>
        err = float(np.abs(rho - ideal).max())
        e_rest = abs(others[0, 0] - 1)
        if err > 1e-7:
            ctx.fail(key + ":reduced-state", f"data qubits {data}: max |rho - sum p_i|psi_i><psi_i|| = {err:.3e}",
                     {"kind": "option", "tag": "static-qubits"})
        elif e_rest > 1e-7:
            ctx.fail(key + ":other-qubits", f"auxiliary / untouched qubits are not |0> afterwards ({e_rest:.3e})",
                     {"kind": "option", "tag": "static-qubits"})
        else:
            ctx.ok(key, nontrivial=True, sample={"static": True, "n": n, "k": k, "qubits": qs, "err": err})


# ----------------------------------------------------------------------------------------------
# boundary-value cases: every comparison of mixed.py / initialize_mixed.py on a count, a position or a threshold
# ----------------------------------------------------------------------------------------------
def _positions(k):
    return sorted({("first", 0), ("middle", k // 2), ("last", k - 1)}, key=lambda t: t[1]) if k >= 3 else \
        ([("first", 0), ("last", 1)] if k == 2 else [("first", 0)])


def _fixed_probs(k):
    """a valid vector of dyadic rationals (sum exactly 1 in floating point, every entry in (0, 1) for k >= 2)"""
    w = [float(1 + (i % 3)) for i in range(k)]
    tot = sum(w)
    m = 1
    while m < tot:
        m *= 2
    w[0] += m - tot          # integers summing to a power of two: the quotients are exact
    return [x / m for x in w]


def _outcome(got):
    w = got.split(" ")
    return w[0] if w[0] == "accept" else "raise:" + w[1].split(":")[-1]


def boundary_decisions(ctx):
    """mixed.py:76 `any(i < 0.0 ..)`, :78 `any(i > 1.0 ..)`, :80 `isclose(sum, 1.0)`: the offending entry at the first /
    middle / last position with the other two tests passing (MC/DC), at distance 0, 1e-12 and 1e-3 from the bound."""
    r = ctx.nprng()
    for classical in (True, False):
        for k in (1, 2, 3, 5):
            states = make_states(r, 1 if classical else 2, k, "rational")
            n = 1 if classical else 2
            base = _fixed_probs(k)
            for pname, pos in _positions(k):
                other = (pos + 1) % k
                # (a) negative entry, sum kept at 1 (only the `< 0.0` test can reject)
                for tag, d, exp in (("-1e-3", 1e-3, "neg"), ("-1e-12", 1e-12, None), ("-0.0", None, "accept"),
                                    ("0.0", 0.0, "accept"), ("+1e-12", -1e-12, None)):
                    if k == 1 and d is not None and d != 0.0:
                        p = [-d]                    # a single entry: the sum cannot be kept
                        exp = "neg" if d >= 1e-6 else None
                        if d < 0:
                            continue
                    elif k == 1:
                        continue
                    else:
                        p = list(base)
                        p[other] += p[pos]
                        p[pos] = -0.0 if d is None else -d
                        p[other] += 0.0 if d is None else d
                    label = f"bnd-neg:{pname}:{tag}"
                    got, _ = tie_decision(ctx, states, p, classical, label)
                    ctx.count(f"boundary:negative:{tag}:{pname}:{_outcome(got)}")
                    reject_oracle(ctx, got, label, p, exp, n, k, classical)
                # (b) entry above 1, the others 0: for 1e-12 and one ulp the sum still passes isclose, only `> 1.0` rejects
                for tag, d, exp in (("1.0", 0.0, "accept"), ("1+ulp", 2.0 ** -52, None), ("1+1e-12", 1e-12, None),
                                    ("1+1e-3", 1e-3, "gt1")):
                    p = [0.0] * k
                    p[pos] = 1.0 + d
                    label = f"bnd-gt1:{pname}:{tag}"
                    got, _ = tie_decision(ctx, states, p, classical, label)
                    ctx.count(f"boundary:above-one:{tag}:{pname}:{_outcome(got)}")
                    reject_oracle(ctx, got, label, p, exp, n, k, classical)
                # (c) sum off on both sides of isclose's 1e-9 (3e-10 inside, 3e-9 outside; 5e-10..2e-9 excluded), every
                # entry inside [0, 1]
                if k >= 2:
                    for tag, d, exp in (("-3e-9", -3e-9, None), ("-3e-10", -3e-10, None), ("+3e-10", 3e-10, None),
                                        ("+3e-9", 3e-9, None), ("-1e-3", -1e-3, "sum"), ("+1e-3", 1e-3, "sum")):
                        p = list(base)
                        p[pos] += d
                        label = f"bnd-sum:{pname}:{tag}"
                        got, _ = tie_decision(ctx, states, p, classical, label)
                        ctx.count(f"boundary:sum-tolerance:{tag}:{_outcome(got)}")
                        reject_oracle(ctx, got, label, p, exp, n, k, classical)


def boundary_ensembles(ctx):
    """mixed.py:92 ceil(log2 k) at k = 1, 2, 3, 4, 5, 7, 8, 9 (padding 2^a - k = 0, 1, maximal at :128), n = 1, 2, 3;
    probabilities omitted vs given; an entry exactly 0 or exactly 1 at the first / middle / last position (:111 zip,
    :140 enumerate / :150 ctrl_state index); `reset` on/off incl. a = 0 (:162); both purification modes."""
    r = ctx.nprng()
    # (1) aux-count boundaries
    for n in (1, 2, 3):
        for k in (1, 2, 3, 4, 5, 7, 8, 9):
            a = clog2(k)
            for pk in ("none", "random"):
                if n == 3 and (k > 5 or pk == "none") and k != 8:
                    continue
                states, probs = make_states(r, n, k, "complex" if pk == "none" else "mixed"), make_probs(r, k, pk)
                tie_purification(ctx, n, k, states, probs, reset=bool(k % 2))
                for classical in (True, False):
                    if not classical and (n < 2 or k < 2 or (n == 3 and k > 5)):
                        continue
                    oracle_case(ctx, n, k, states, probs, classical, bool(k % 2), "bnd-k", pk)
                    ctx.count(f"boundary:aux-count:k={k}:a={a}:padding={2 ** a - k}:{'classical' if classical else 'incircuit'}")
                    ctx.count(f"boundary:probabilities-{'omitted' if probs is None else 'given'}:n={n}")
    # (2) probability exactly 0 / exactly 1 by position
    for n in (1, 2):
        for k in (2, 3, 4, 5):
            for pname, pos in _positions(k):
                for what in ("zero", "one"):
                    if what == "zero":
                        p = np.array(make_probs(r, k, "random"))
                        p[pos] = 0.0
                        probs = [float(x) for x in p / p.sum()]
                    else:
                        probs = [0.0] * k
                        probs[pos] = 1.0
                    states = make_states(r, n, k, "complex")
                    tie_purification(ctx, n, k, states, probs, reset=False)
                    for classical in (True, False):
                        if not classical and n < 2:
                            continue
                        oracle_case(ctx, n, k, states, probs, classical, False, f"bnd-p-{what}", pname)
                        ctx.count(f"boundary:probability-exactly-{what}:{pname}:{'classical' if classical else 'incircuit'}")
    # (3) reset on / off at a = 0 and a = 1, both modes and the static entry point
    for n, k in ((1, 1), (2, 1), (1, 2), (2, 2)):
        states, probs = make_states(r, n, k, "complex"), make_probs(r, k, "random")
        for reset in (True, False):
            for classical in (True, False):
                if not classical and (n < 2 or k < 2):
                    continue
                oracle_case(ctx, n, k, states, probs, classical, reset, "bnd-reset", "random")
                ctx.count(f"boundary:reset={int(reset)}:aux={clog2(k)}:{'classical' if classical else 'incircuit'}")
        oracle_case(ctx, n, k, states, probs, True, True, "bnd-reset", "random", via_static=True)
    # (4) the smallest sizes of the in-circuit mode: n = 2, k = 2 is inside the quantifier (checked above); n = 1 or
    # k = 1 is outside it - whatever the code does there is recorded, and if it builds a circuit the circuit must be right
    from qclib.state_preparation.mixed import MixedInitialize
    for n, k in ((1, 1), (2, 1), (1, 2), (1, 3)):
        states, probs = make_states(r, n, k, "complex"), make_probs(r, k, "random")
        try:
            MixedInitialize(states, probabilities=probs, classical=False).definition
        except Exception as e:  # noqa: BLE001
            ctx.count(f"boundary:incircuit-below-minimum:n={n}:k={k}:raises {type(e).__name__}")
            continue
        ctx.count(f"boundary:incircuit-below-minimum:n={n}:k={k}:builds")
        oracle_case(ctx, n, k, states, probs, False, False, "bnd-min", "random")


# ================================================================================================
# INPUT-DIVERSITY PASS
#   The same mathematical ensemble / probability vector / option set is handed to the real code in every ordinary Python
#   FORM (container, dtype, scale, sign/phase structure, call form, size); the observable is always the property's own:
#   reduced state of the data qubits vs sum_i p_i |psi_i><psi_i| computed by the harness from the user-side input
#   (np.asarray(member, dtype=complex), float(p_i)), and reject/accept of probability vectors.
#   Every case is a JSON-serialisable dict that `_div_case` / `_div_reject` / `_div_seq` execute (run and replay share them).
# ================================================================================================
DIV_SFORMS_C128 = ["ndarray-list-c128", "ndarray-2d-c128", "ndarray-tuple-c128", "pyseq-list-complex", "pyseq-tuple-complex",
                   "pyseq-list-npcomplex128"]
DIV_SFORMS_REAL = ["ndarray-list-f64", "ndarray-2d-f64", "pyseq-list-float", "pyseq-list-npfloat64"]
DIV_SFORMS_F32 = ["ndarray-list-f32", "ndarray-list-c64", "ndarray-2d-c64", "pyseq-list-npfloat32"]
DIV_SFORMS_INT = ["ndarray-2d-int64", "ndarray-list-int64", "pyseq-list-int", "pyseq-tuple-int", "pyseq-list-npint64"]
DIV_PFORMS = ["omitted", "none", "list", "tuple", "ndarray-f64", "list-npfloat64", "ndarray-f32", "list-npfloat32",
              "list-int", "tuple-int", "ndarray-int64"]


def _div_members(S, sform):
    """the ensemble S (list of complex128 vectors, the mathematical object) in the container / dtype form `sform`"""
    real = all(np.all(s.imag == 0) for s in S)
    integer = real and all(np.all(s.real == np.round(s.real)) for s in S)
    f32 = all(np.all(np.float32(s.real) == s.real) and np.all(np.float32(s.imag) == s.imag) for s in S)
    if (sform in DIV_SFORMS_REAL + DIV_SFORMS_INT + ["ndarray-list-f32", "pyseq-list-npfloat32"] and not real) or \
            (sform in DIV_SFORMS_F32 and not f32) or (sform in DIV_SFORMS_INT and not integer):
        raise RuntimeError(f"harness: ensemble not representable as {sform}")
    if sform in ("ndarray-list-per-member-dtype", "pyseq-list-per-member-type"):
        # every member in the narrowest type that holds it exactly: int64 / float64 / complex128 (python int / float / complex)
        out = []
        for m in S:
            rl = bool(np.all(m.imag == 0))
            it = rl and bool(np.all(m.real == np.round(m.real)))
            if sform.startswith("ndarray"):
                out.append(np.array(m.real, dtype=np.int64) if it else np.array(m.real, dtype=np.float64) if rl
                           else np.array(m, dtype=np.complex128))
            else:
                out.append([int(x) for x in m.real] if it else [float(x) for x in m.real] if rl else [complex(z) for z in m])
        return out
    if sform == "ndarray-list-c128":
        return [np.array(s, dtype=np.complex128) for s in S]
    if sform == "ndarray-2d-c128":
        return np.array(S, dtype=np.complex128)
    if sform == "ndarray-tuple-c128":
        return tuple(np.array(s, dtype=np.complex128) for s in S)
    if sform == "pyseq-list-complex":
        return [[complex(z) for z in s] for s in S]
    if sform == "pyseq-tuple-complex":
        return tuple(tuple(complex(z) for z in s) for s in S)
    if sform == "pyseq-list-npcomplex128":
        return [[np.complex128(z) for z in s] for s in S]
    if sform == "ndarray-list-f64":
        return [np.array(s.real, dtype=np.float64) for s in S]
    if sform == "ndarray-2d-f64":
        return np.array([s.real for s in S], dtype=np.float64)
    if sform == "pyseq-list-float":
        return [[float(x) for x in s.real] for s in S]
    if sform == "pyseq-list-npfloat64":
        return [[np.float64(x) for x in s.real] for s in S]
    if sform == "ndarray-list-f32":
        return [np.array(s.real, dtype=np.float32) for s in S]
    if sform == "pyseq-list-npfloat32":
        return [[np.float32(x) for x in s.real] for s in S]
    if sform == "ndarray-list-c64":
        return [np.array(s, dtype=np.complex64) for s in S]
    if sform == "ndarray-2d-c64":
        return np.array(S, dtype=np.complex64)
    if sform == "ndarray-2d-int64":
        return np.array([s.real for s in S], dtype=np.int64)
    if sform == "ndarray-list-int64":
        return [np.array(s.real, dtype=np.int64) for s in S]
    if sform == "pyseq-list-int":
        return [[int(x) for x in s.real] for s in S]
    if sform == "pyseq-tuple-int":
        return tuple(tuple(int(x) for x in s.real) for s in S)
    if sform == "pyseq-list-npint64":
        return [[np.int64(x) for x in s.real] for s in S]
    raise ValueError(sform)


def _div_probs(P, pform):
    """the probability vector P (python floats) in the container / dtype form `pform` ('omitted' / 'none': P is uniform)"""
    if pform in ("omitted", "none"):
        return None
    if "f32" in pform or "float32" in pform:
        if any(float(np.float32(x)) != x for x in P):
            raise RuntimeError("harness: probabilities not representable in float32")
    if "int" in pform and any(x != int(x) for x in P):
        raise RuntimeError("harness: probabilities not integers")
    return {"list": lambda: [float(x) for x in P], "tuple": lambda: tuple(float(x) for x in P),
            "ndarray-f64": lambda: np.array(P, dtype=np.float64), "list-npfloat64": lambda: [np.float64(x) for x in P],
            "ndarray-f32": lambda: np.array(P, dtype=np.float32), "list-npfloat32": lambda: [np.float32(x) for x in P],
            "list-int": lambda: [int(x) for x in P], "tuple-int": lambda: tuple(int(x) for x in P),
            "ndarray-int64": lambda: np.array([int(x) for x in P], dtype=np.int64)}[pform]()


def _div_states(r, n, k, skind):
    """valid ensembles by structure (complex128 vectors)"""
    dim = 2 ** n
    if skind == "identical":
        s = rand_state(r, n, "complex")
        return [s.copy() for _ in range(k)]
    if skind == "phase-family":                  # members differ by a global phase only: rho = |psi><psi| whatever p is
        s = rand_state(r, n, "complex")
        return [ph * s for ph in ([1, -1, 1j, -1j] * 3)[:k]]
    if skind == "phase-family-real":
        s = rand_state(r, n, "real")
        return [ph * s for ph in ([1, -1] * 5)[:k]]
    if skind == "orthogonal":
        q, _ = np.linalg.qr(r.normal(size=(dim, dim)) + 1j * r.normal(size=(dim, dim)))
        return [q[:, i % dim].copy() for i in range(k)]
    out = []
    for i in range(k):
        v = np.zeros(dim, dtype=complex)
        if skind == "complex":
            v = r.normal(size=dim) + 1j * r.normal(size=dim)
        elif skind == "real-neg":                # zero imaginary part, at least one negative and one positive entry
            v = r.normal(size=dim) + 0j
            v[int(r.integers(dim))] = -1.5
            v[(int(np.argmin(v.real)) + 1) % dim] = 0.7
        elif skind == "all-neg":
            v = -(np.abs(r.normal(size=dim)) + 0.05) + 0j
        elif skind == "imag":
            v = 1j * r.normal(size=dim)
        elif skind in ("dyadic-real", "dyadic-complex"):   # entries 0 / +-2^-j (exact in float32, norm exactly 1)
            cnt = 4 ** (n // 2)
            pos = [int(x) for x in r.choice(dim, size=cnt, replace=False)]
            phs = [1, -1] if skind == "dyadic-real" else [1, -1, 1j, -1j]
            for j in pos:
                v[j] = phs[int(r.integers(len(phs)))] / math.sqrt(cnt)
            v[pos[0]] = (-1 if skind == "dyadic-real" or i % 2 else -1j) / math.sqrt(cnt)
        elif skind == "basis-int":
            v[(3 * i + 1) % dim] = [1, -1][i % 2]
        elif skind == "basis-phase":
            v[(3 * i + 1) % dim] = [1, -1, 1j, -1j][i % 4]
        elif skind in ("light-tail-end", "light-tail-start", "light-tail-mixed"):
            mags = np.array(([1.0, 0.8] + [1e-3, 1e-6, 1e-4, 1e-5] * 2)[:dim]) if dim > 2 else np.array([1.0, 1e-3 if i % 2 else 1e-6])
            if skind == "light-tail-start":
                mags = mags[::-1].copy()
            elif skind == "light-tail-mixed":
                mags = mags[r.permutation(dim)]
            v = mags * np.exp(2j * np.pi * r.random(dim))
        elif skind == "equal-moduli":
            v = np.array([[1, -1, 1j, -1j][int(r.integers(4))] for _ in range(dim)], dtype=complex)
        elif skind == "subtree":                 # the whole norm sits in one half of the amplitude tree
            half = dim // 2
            lo = (i % 2) * half
            v[lo:lo + half] = r.normal(size=half) + 1j * r.normal(size=half)
        elif skind == "sparse":
            for j in r.choice(dim, size=min(dim, 1 + i % 2), replace=False):
                v[j] = r.normal() + 1j * r.normal() + 0.1
        elif skind == "neg-zero":                # real, negative zeros in the empty slots, one negative entry
            v = np.array([complex(-0.0, 0.0)] * dim)
            v[i % dim] = 0.6
            v[(i + 1) % dim] = -0.8
            out.append(v)                        # |v|^2 = 1 up to one ulp; not renormalised (keeps the signed zeros)
            continue
        else:
            raise ValueError(skind)
        out.append(v / np.linalg.norm(v))
    return out


def _div_pvec(r, k, pkind):
    """valid probability vectors by structure (python floats); None when the structure does not exist for this k"""
    def pos_of(name):
        return {"first": 0, "middle": k // 2, "last": k - 1}[name]
    if pkind == "uniform":
        return [1 / k] * k
    if pkind == "dyadic":
        return _fixed_probs(k)
    if pkind == "random":
        return make_probs(r, k, "random")
    if pkind.startswith("onehot-"):
        p = [0.0] * k
        p[pos_of(pkind[7:])] = 1.0
        return p
    if pkind.startswith("zero-") and not pkind.startswith("zero-dyadic-"):
        if k < 2:
            return None
        p = np.array(make_probs(r, k, "random"))
        p[pos_of(pkind[5:])] = 0.0
        p = p / p.sum()
        return [float(x) for x in p]
    if pkind.startswith("zero-dyadic-"):         # an exact zero and float32-exact other entries
        if k < 3:
            return None
        q = _fixed_probs(k - 1)
        j = pos_of(pkind[12:])
        return q[:j] + [0.0] + q[j:]
    if pkind in ("heavy-head", "light-head", "heavy-middle"):
        if k < 2:
            return None
        tail = ([1e-3, 1e-6, 1e-4, 1e-5] * 2)[:k - 1]
        head = 1.0 - sum(tail)
        p = [head] + tail
        if pkind == "light-head":
            p = p[::-1]
        elif pkind == "heavy-middle":
            p = tail[:k // 2] + [head] + tail[k // 2:]
        return p
    if pkind == "f32-sqrt-exact":                # float32 entries whose square roots are float32-exact as well
        return {1: [1.0], 4: [0.25] * 4, 5: [0.25, 0.25, 0.0, 0.25, 0.25]}.get(k)
    if pkind == "f32-inexact":                   # float32 entries whose exact (float64) sum is off 1 by ~1e-8: NOT valid to 1e-9
        base = {2: [0.3, 0.7], 3: [0.3, 0.3, 0.4], 4: [0.1, 0.2, 0.3, 0.4], 5: [0.1, 0.2, 0.3, 0.3, 0.1]}.get(k)
        if base is None:
            return None
        p = [float(np.float32(x)) for x in base]
        return p if abs(sum(p) - 1.0) > 3e-9 else None
    if pkind == "f32-sqrt-inexact":              # float32-exact entries summing to exactly 1, square roots irrational
        return {2: [0.5, 0.5], 3: [0.5, 0.25, 0.25], 4: [0.5, 0.125, 0.25, 0.125], 5: [0.125, 0.5, 0.125, 0.125, 0.125]}.get(k)
    raise ValueError(pkind)


class _DivDegenerate(Exception):
    pass


class _ResetFlag(Exception):
    pass


def _lr1(vec, partition=None):
    """best rank-1 (product) approximation of `vec` across the bipartition (tensor axes in `partition` | the rest),
    normalised: what LowRankInitialize documents for opt_params={'lr': 1}.  Written from the definition."""
    w = np.asarray(vec, dtype=complex)
    nq = int(round(math.log2(len(w))))
    if nq < 2:
        return w
    part = sorted(partition) if partition is not None else list(range(nq // 2 + nq % 2))
    rest = [j for j in range(nq) if j not in part]
    t = w.reshape((2,) * nq).transpose(rest + part).reshape(2 ** len(rest), 2 ** len(part))
    u, s, vh = np.linalg.svd(t)
    if s[0] - s[1] < 1e-3:
        raise _DivDegenerate("leading Schmidt coefficient degenerate: rank-1 truncation not unique")
    m = np.outer(u[:, 0], vh[0])
    return m.reshape((2,) * nq).transpose(list(np.argsort(rest + part))).reshape(-1)


def _div_ideal(S, P, n, k, mode, opt):
    """sum_i p_i |psi_i><psi_i|; for opt_params['lr'] == 1 the documented rank-1 approximation of what is prepared"""
    a = clog2(k)
    exact = sum(p * np.outer(s, np.conj(s)) for p, s in zip(P, S))
    if not opt or opt.get("lr") != 1:
        return exact, exact
    part = opt.get("partition")
    if mode == "classical":
        w = np.zeros(2 ** (n + a), dtype=complex)
        for i, (p, s) in enumerate(zip(P, S)):
            for x in range(2 ** n):
                w[x * 2 ** a + i] = math.sqrt(p) * s[x]
        m = _lr1(w, part).reshape(2 ** n, 2 ** a)
        return m @ m.conj().T, exact
    aux = np.array([math.sqrt(p) for p in P] + [0.0] * (2 ** a - k), dtype=complex)
    aux = _lr1(aux, part)
    rho = np.zeros((2 ** n, 2 ** n), dtype=complex)
    for i in range(2 ** a):
        if i < k:
            t = _lr1(S[i], part)
        else:                                    # no controlled block fires for a padding index: data stays |0..0>
            t = np.zeros(2 ** n, dtype=complex)
            t[0] = 1
        rho += abs(aux[i]) ** 2 * np.outer(t, t.conj())
    return rho, exact


def _div_reduced(circ, data, pure=False):
    """reduced state of the wires `data` (bit j of the index = data[j]) and the deviation of all other wires from |0..0>.
    `pure` only when the caller built the gate with reset=False: a reset may sit inside a composite gate, and Statevector
    would SAMPLE it."""
    from qiskit.quantum_info import DensityMatrix, Statevector, partial_trace
    m = circ.num_qubits
    st = Statevector(circ) if pure else DensityMatrix(circ)
    keep = sorted(data)
    others = [q for q in range(m) if q not in keep]
    rho = partial_trace(st, others).data if others else DensityMatrix(st).data
    perm = [sum(((x >> j) & 1) << keep.index(data[j]) for j in range(len(data))) for x in range(2 ** len(data))]
    rho = rho[np.ix_(perm, perm)]
    rest = partial_trace(st, keep).data if others else np.array([[1.0]])
    return rho, abs(rest[0, 0] - 1)


def _div_host(spec):
    """host circuit + the `qubits` argument of the static helper in the requested form"""
    from qiskit import QuantumCircuit, QuantumRegister
    regs = spec["regs"]
    host = QuantumCircuit(*[QuantumRegister(sz, f"r{j}") for j, sz in enumerate(regs)]) if len(regs) > 1 \
        else QuantumCircuit(regs[0])
    order, as_ = spec["order"], spec["as"]
    if as_ in ("omitted", "none"):
        return host, None, list(range(host.num_qubits))
    q = {"list-int": lambda: [int(x) for x in order], "tuple-int": lambda: tuple(int(x) for x in order),
         "list-qubit": lambda: [host.qubits[x] for x in order], "list-npint64": lambda: [np.int64(x) for x in order],
         "tuple-qubit": lambda: tuple(host.qubits[x] for x in order)}[as_]()
    return host, q, list(order)


def _div_key(c):
    key = f"div:{c['entry']}:{c['mode']}:n={c['n']}:k={c['k']}:ens={c['skind']}/{c['sform']}:p={c['pkind']}/{c['pform']}"
    if c.get("optform", "omitted") != "omitted":
        key += ":opt=" + c["optform"]
    if c["entry"] == "static":
        h = c["host"]
        key += f":q={h['as']}" + ("" if h["order"] is None else "[" + ",".join(map(str, h["order"])) + f"]of{sum(h['regs'])}")
    if c.get("label"):
        key += ":label"
    elif c.get("label") is not None:
        key += ":label=''"
    if c.get("label") == "":
        key = "flagforms:" + key
    if c.get("flagform", "bool") != "bool" or c.get("flagpos"):
        key = "flagforms:" + key + f":flags={c.get('flagform', 'bool')}{'/positional' if c.get('flagpos') else ''}"
    return key + f":reset={int(c.get('reset', True))}"


def _div_mk(entry, mode, n, k, S, skind, sform, P, pkind, pform, reset=True, opt=None, optform="omitted", host=None,
            label=None, tie=False):
    return {"kind": "diversity", "entry": entry, "mode": mode, "n": n, "k": k,
            "states": [[[float(z.real), float(z.imag)] for z in s] for s in S], "skind": skind, "sform": sform,
            "probs": [repr(float(x)) for x in P], "pkind": pkind, "pform": pform, "reset": reset, "opt": opt,
            "optform": optform, "host": host, "label": label, "tie": tie}


def _exact_control(self, num_ctrl_qubits=1, label=None, ctrl_state=None, annotated=False):
    """harness-side stand-in for QuantumCircuit.control: the exactly controlled operator as ONE UnitaryGate (controls = the low
    wires, rightmost ctrl_state character <-> control 0, as checked in `conventions`)"""
    from qiskit import QuantumCircuit
    from qiskit.circuit.library import UnitaryGate
    from qiskit.quantum_info import Operator
    u = Operator(self).data
    nc = num_ctrl_qubits
    cs = int(ctrl_state, 2) if isinstance(ctrl_state, str) else (2 ** nc - 1 if ctrl_state is None else int(ctrl_state))
    dim = u.shape[0]
    m = np.eye(dim * 2 ** nc, dtype=complex)
    idx = [x * 2 ** nc + cs for x in range(dim)]
    m[np.ix_(idx, idx)] = u
    qc = QuantumCircuit(nc + self.num_qubits)
    qc.append(UnitaryGate(m), range(nc + self.num_qubits))
    return qc


def _bypass(fn, control=False):
    """fn() with `qclib.unitary._apply_a2` (qiskit's A.2 diagonal-merging pass inside the dense sub-initializer) replaced by
    the identity and, with control=True, QuantumCircuit.control replaced by the exact controlled operator; None when that
    raises"""
    from unittest import mock
    from qiskit import QuantumCircuit
    import qclib.unitary as qu
    try:
        with mock.patch.object(qu, "_apply_a2", lambda circuit: circuit):
            if control:
                with mock.patch.object(QuantumCircuit, "control", _exact_control):
                    return fn()
            return fn()
    except Exception:  # noqa: BLE001
        return None


def _precision_finding(ctx, tag, err, err2, rep, control=False):
    """Known precision limits of the TRUSTED layers below mixed.py, reported under their own keys, never hidden:
    (a) dense-a2-precision (findings K-C01-1 / K-C07-1 / K-C06-1): LowRankInitialize -> qclib.unitary.unitary(...,
        apply_a2=True) is accurate only to ~1e-5 on some two-qubit blocks; the same construction with the A.2 pass bypassed
        meets the tolerance;
    (b) qiskit-control-precision: QuantumCircuit.control() unrolls the sub-initializer's two-qubit unitaries through qiskit's
        Weyl decomposition (fidelity threshold 1 - 1e-9, i.e. ~1e-5 in amplitude); with the exactly controlled operator in
        its place (and A.2 bypassed) the tolerance is met.
    Either way the deviation is not in the purification / control bookkeeping of mixed.py."""
    name = "qiskit-control-precision" if control else "dense-a2-precision"
    ctx.count(f"precision:{name}")
    ctx.fail(f"mixed:{name}:{tag}",
             f"max |Tr_aux(out) - ideal| = {err:.3e}; with " + ("QuantumCircuit.control replaced by the exact controlled operator "
                                                              "and " if control else "") +
             "qclib.unitary._apply_a2 bypassed " + ("the tolerance is met" if err2 is None else f"{err2:.3e}") +
             ": precision limit of " + ("qiskit's .control() synthesis (Weyl decomposition, fidelity 1-1e-9)" if control else
                                        "qiskit's A.2 pass inside LowRankInitialize (same root cause as K-C01-1)"),
             dict(rep, err=err, err_bypassed=err2))


def _classify_precision(ctx, tag, err, rerun, rep, incircuit):
    """err in (1e-7, 1e-3]: re-run (`rerun()` -> error) with the trusted synthesis passes bypassed; True when attributed"""
    if not 1e-7 < err <= 1e-3:
        return False
    e2 = _bypass(rerun)
    if e2 is not None and e2 <= 1e-7:
        _precision_finding(ctx, tag, err, e2, rep)
        return True
    if incircuit:
        e3 = _bypass(rerun, control=True)
        if e3 is not None and e3 <= 1e-7:
            _precision_finding(ctx, tag, err, e3, rep, control=True)
            return True
    return False


def _div_case(ctx, c, count=True):
    """run one diversity case on the real code; returns the gate (ctor entry) or None"""
    from qclib.state_preparation.mixed import MixedInitialize
    n, k, mode, entry = c["n"], c["k"], c["mode"], c["entry"]
    a = clog2(k)
    S = [np.array([complex(re, im) for re, im in s]) for s in c["states"]]
    P = [float(x) for x in c["probs"]]
    ens = _div_members(S, c["sform"])
    probs = _div_probs(P, c["pform"])
    # the user-side reading of exactly what is handed over
    S_user = [np.asarray(m, dtype=complex) for m in ens]
    P_user = [1 / k] * k if probs is None else [float(x) for x in probs]
    if any(np.abs(x - y).max() > 0 for x, y in zip(S, S_user)) or (probs is not None and P_user != P) or \
            (probs is None and any(abs(x - 1 / k) > 1e-15 for x in P)):
        raise RuntimeError("harness: form conversion changed the input " + _div_key(c))
    opt = None if c.get("opt") is None else dict(c["opt"])        # a fresh dict per case
    key = _div_key(c)
    if count:
        ctx.count(f"diversity:ensemble-form:{c['sform']}:{entry}/{mode}")
        ctx.count(f"diversity:ensemble-structure:{c['skind']}")
        ctx.count(f"diversity:probabilities-form:{c['pform']}:{entry}/{mode}")
        ctx.count(f"diversity:probabilities-structure:{c['pkind']}")
        ctx.count(f"diversity:size:n={n}:k={k}:{entry}/{mode}")
        if c.get("optform", "omitted") != "omitted":
            ctx.count(f"diversity:opt_params:{c['optform']}:{entry}/{mode}")
        if entry == "static":
            ctx.count(f"diversity:static-qubits:{c['host']['as']}:host={sum(c['host']['regs'])}/{len(c['host']['regs'])}reg")
    kw = {}
    if c["pform"] != "omitted":
        kw["probabilities"] = probs
    if c.get("optform", "omitted") != "omitted":
        kw["opt_params"] = opt
    if entry == "ctor" and c.get("label") is not None:
        kw["label"] = c["label"]
    fform, fpos = c.get("flagform", "bool"), bool(c.get("flagpos"))
    if count and (fform != "bool" or fpos):
        ctx.count(f"flagforms:reset:{fform}:{bool(c['reset'])}:{'positional' if fpos else 'keyword'}")
        ctx.count(f"flagforms:classical:{fform}:{mode == 'classical'}:{'positional' if fpos else 'keyword'}")

    def attempt():
        if entry == "ctor":
            g = _mixed_gate(ens, None, kw.get("probabilities"), mode == "classical", c["reset"], fform, fpos,
                            **{x: y for x, y in kw.items() if x != "probabilities"}) if (fform != "bool" or fpos) else \
                MixedInitialize(ens, classical=(mode == "classical"), reset=c["reset"], **kw)
            circ = g.definition
            has_reset = any(i.operation.name == "reset" for i in circ.data)
            if has_reset != (bool(c["reset"]) and a > 0):
                raise _ResetFlag(f"reset={c['reset']!r} ({fform}) but the definition has_reset={has_reset} (aux qubits: {a})")
            data = list(range(a, a + n))
            wd = g.num_qubits
        else:
            g = None
            host, qarg, order = _div_host(c["host"])
            kws = dict(kw)
            if c["host"]["as"] != "omitted":
                kws["qubits"] = qarg
            MixedInitialize.initialize(host, ens, **kws)
            circ = host
            data = order[a:]
            wd = host.data[-1].operation.num_qubits if host.data else -1
        r_, e_ = _div_reduced(circ, data, pure=(entry == "ctor" and not c["reset"]))
        return g, wd, r_, e_
    try:
        gate, width, rho, e_rest = attempt()
    except _ResetFlag as e:
        ctx.fail(key + ":reset-flag", str(e), c)
        return None
    except Exception as e:  # noqa: BLE001 -- every input generated here is a valid ensemble in an ordinary Python form
        if c["pkind"] == "f32-inexact" and isinstance(e, ValueError):
            # not a probability vector to 1e-9: a clean ValueError (validation or the sub-initializer's norm check) is a rejection
            ctx.count("diversity:probabilities-f32-inexact-rejected")
            ctx.ok(key + ":rejected", nontrivial=False)
            return None
        ctx.fail(key + ":construct-raises", f"valid ensemble ({c['sform']}, probabilities {c['pform']}) raised "
                 f"{type(e).__name__}: {str(e)[:200]}", c)
        return None
    if c["pkind"] == "f32-inexact":
        ctx.count("diversity:probabilities-f32-inexact-accepted")
    try:
        ideal, exact = _div_ideal(S_user, P_user, n, k, mode, opt)
    except _DivDegenerate:
        ctx.count("diversity:skipped (rank-1 ideal not unique)")
        return gate
    err = float(np.abs(rho - ideal).max())
    lr1 = bool(opt) and opt.get("lr") == 1
    nz = sum(1 for p in P_user if p > 0)
    if width != n + a:
        ctx.fail(key + ":width", f"gate acts on {width} qubits, n + ceil(log2 k) = {n + a}", c)
    elif err > 1e-7:
        if not _classify_precision(ctx, f"{mode}:n={n}:k={k}:{c['skind']}:{c['pkind']}", err,
                                   lambda: float(np.abs(attempt()[2] - ideal).max()), c, mode == "incircuit"):
            ctx.fail(key + ":reduced-state", f"max |Tr_aux(out) - " + ("rank-1 truncated ideal" if lr1 else "sum p_i|psi_i><psi_i|") +
                     f"| = {err:.3e}", dict(c, err=err))
    elif (c["reset"] or entry == "static") and e_rest > 1e-7:
        ctx.fail(key + ":other-qubits", f"auxiliary / untouched qubits are not |0> afterwards ({e_rest:.3e})", c)
    elif gate is not None and gate.label != ("Mixed" if c.get("label") is None else c["label"]):
        ctx.fail(key + ":label", f"label {gate.label!r}, requested {c.get('label')!r}", c)
    else:
        if lr1:
            seen = float(np.abs(ideal - exact).max())
            ctx.count("diversity:opt_params:lr=1 observable" if seen > 1e-3 else "diversity:opt_params:lr=1 NOT observable")
        ctx.ok(key, nontrivial=k >= 2 and nz >= 2, sample={"diversity": key, "err": err})
    # tie: what the real code hands to its sub-initializer for this form vs the Lean model (only when the oracle got through)
    if c.get("tie") and entry == "ctor" and not lr1:
        tie_purification(ctx, n, k, ens, probs, reset=c["reset"], modes=(mode,),
                         form=f" [{c['skind']}/{c['sform']} p={c['pkind']}/{c['pform']}]" +
                              (f" flags={fform}{'/positional' if fpos else ''}" if (fform != "bool" or fpos) else ""),
                         rep=c, flag=fform, pos=fpos)
    return gate


def _div_sform_kind(sform):
    if sform in DIV_SFORMS_INT:
        return "basis-int"
    if sform in DIV_SFORMS_F32:
        return "dyadic-complex" if "c64" in sform else "dyadic-real"
    if sform in DIV_SFORMS_REAL:
        return "real-neg"
    return "complex"


def _div_modes(n, k):
    return ["classical"] + (["incircuit"] if n >= 2 and k >= 2 else [])


def _diversity_element_types(ctx):
    """(1) every container / dtype of the ensemble and of the probability vector, constructor in both modes"""
    r = ctx.nprng()
    pcycle = ["list", "tuple", "ndarray-f64", "list-npfloat64", "omitted", "none"]
    j = 0
    for (n, k) in ((2, 3), (2, 2), (3, 2), (1, 2)):
        for sform in DIV_SFORMS_C128 + DIV_SFORMS_REAL + DIV_SFORMS_F32 + DIV_SFORMS_INT:
            skind = _div_sform_kind(sform)
            S = _div_states(r, n, k, skind)
            for mode in _div_modes(n, k):
                pform = pcycle[j % len(pcycle)]
                j += 1
                pkind = "uniform" if pform in ("omitted", "none") else "dyadic"
                P = _div_pvec(r, k, pkind)
                _div_case(ctx, _div_mk("ctor", mode, n, k, S, skind, sform, P, pkind, pform, reset=(j % 3 == 0),
                                       tie=(n, k) == (2, 3)))
    # probability vector forms (ensemble as plain ndarrays, so that only the probability form varies)
    for (n, k) in ((2, 2), (2, 3), (2, 4), (2, 5), (1, 1), (1, 3)):
        S = _div_states(r, n, k, "complex")
        for pform in DIV_PFORMS:
            if "int" in pform:
                pkinds = ["onehot-first", "onehot-middle", "onehot-last"]
            elif "32" in pform:
                pkinds = ["f32-sqrt-exact", "f32-sqrt-inexact", "zero-dyadic-middle", "f32-inexact"]
            elif pform in ("omitted", "none"):
                pkinds = ["uniform"]
            else:
                pkinds = ["random", "dyadic"]
            for pkind in pkinds:
                P = _div_pvec(r, k, pkind)
                if P is None:
                    continue
                for mode in _div_modes(n, k):
                    j += 1
                    _div_case(ctx, _div_mk("ctor", mode, n, k, S, "complex", ["ndarray-list-c128", "ndarray-2d-c128"][j % 2],
                                           P, pkind, pform, reset=(j % 3 == 0), tie=(n, k) == (2, 3) and pkind != "f32-inexact"))
    ctx.notes.append("diversity: float32 vectors that are not probability vectors to 1e-9 as real numbers (f32-inexact, e.g. "
                     "float32([0.3, 0.7]): float64 sum off by 1.5e-8) may pass the float32 sum test and be rejected later by the "
                     "sub-initializer's norm check: a clean ValueError is counted as a rejection, an accepted one must be correct")


def _diversity_scale(ctx):
    """(2) scale structure: heavy head + light tail, exact zeros / an exact 1 by position, all equal, sparse, one sub-tree"""
    r = ctx.nprng()
    j = 0
    pforms = ["list", "tuple", "ndarray-f64"]
    for k in (2, 3, 4, 5):
        for pkind in ("uniform", "heavy-head", "light-head", "heavy-middle", "onehot-first", "onehot-middle", "onehot-last",
                      "zero-first", "zero-middle", "zero-last"):
            n = 2 if k != 3 or j % 2 else 1
            P = _div_pvec(r, k, pkind)
            S = _div_states(r, n, k, "complex")
            for mode in _div_modes(n, k):
                j += 1
                _div_case(ctx, _div_mk("ctor", mode, n, k, S, "complex", ["ndarray-list-c128", "ndarray-2d-c128"][j % 2],
                                       P, pkind, pforms[j % 3], reset=(j % 3 == 0), tie=k in (3, 5)))
    for skind in ("light-tail-end", "light-tail-start", "light-tail-mixed", "equal-moduli", "all-neg", "imag", "subtree",
                  "sparse", "basis-phase", "identical", "orthogonal"):
        for (n, k) in ((2, 3), (3, 2), (1, 2), (2, 5)):
            if (n, k) == (2, 5) and skind not in ("orthogonal", "identical", "basis-phase", "light-tail-mixed"):
                continue
            S = _div_states(r, n, k, skind)
            for mode in _div_modes(n, k):
                j += 1
                pkind = ["random", "heavy-head", "dyadic"][j % 3]
                real = all(np.all(s.imag == 0) for s in S)
                sform = (["ndarray-list-f64", "ndarray-2d-f64"] if real else ["ndarray-list-c128", "ndarray-2d-c128"])[j % 2]
                _div_case(ctx, _div_mk("ctor", mode, n, k, S, skind, sform, _div_pvec(r, k, pkind), pkind, pforms[j % 3],
                                       reset=(j % 3 == 0), tie=(n, k) == (2, 3)))


def _diversity_phase(ctx):
    """(3) sign / phase structure: members that differ by a global phase -1 / i only (rho must not change), zero imaginary
    part with negative entries in complex and in real dtype, negative zeros, per-entry phases +-1, +-i"""
    r = ctx.nprng()
    j = 0
    for skind, sforms in (("phase-family", ["ndarray-list-c128", "ndarray-2d-c128", "pyseq-list-complex"]),
                          ("phase-family-real", ["ndarray-list-c128", "ndarray-list-f64", "pyseq-list-float"]),
                          ("real-neg", ["ndarray-list-c128", "ndarray-2d-f64", "pyseq-tuple-complex"]),
                          ("neg-zero", ["ndarray-list-c128", "ndarray-list-f64", "pyseq-list-float"]),
                          ("equal-moduli", ["ndarray-tuple-c128", "pyseq-list-npcomplex128"]),
                          ("dyadic-complex", ["ndarray-list-c64", "ndarray-2d-c128"])):
        for (n, k) in ((2, 2), (2, 3), (2, 4), (1, 2)):
            S = _div_states(r, n, k, skind)
            for mode in _div_modes(n, k):
                for sform in sforms:
                    j += 1
                    if (n, k) in ((2, 4), (1, 2)) and j % 3:
                        continue
                    pkind = ["random", "dyadic", "heavy-head"][j % 3]
                    P = _div_pvec(r, k, pkind)
                    _div_case(ctx, _div_mk("ctor", mode, n, k, S, skind, sform, P, pkind, ["list", "ndarray-f64", "tuple"][j % 3],
                                           reset=(j % 3 == 0), tie=(n, k) == (2, 3)))
                    if skind.startswith("phase-family"):
                        # the family IS one pure state: the harness' ideal must be |psi><psi| (sanity of the generator)
                        rho = sum(p * np.outer(s, s.conj()) for p, s in zip(P, S))
                        if np.abs(rho - np.outer(S[0], S[0].conj())).max() > 1e-12:
                            raise RuntimeError("harness: phase family is not a single ray")


DIV_OPTS = [("none", None), ("empty", {}), ("knill", {"iso_scheme": "knill"}), ("csd", {"unitary_scheme": "csd"}),
            ("svd-regular", {"svd": "regular"}), ("partition=[1]", {"partition": [1]}),
            ("lr=0", {"lr": 0}), ("lr=64-ignored", {"lr": 64}),
            ("full-exact", {"lr": 0, "iso_scheme": "knill", "unitary_scheme": "csd", "partition": [0], "svd": "regular"}),
            ("lr=1", {"lr": 1}), ("lr=1+partition=[1]", {"lr": 1, "partition": [1]}),
            ("lr=1+partition=[0]", {"lr": 1, "partition": [0]}),
            ("full-lr=1", {"lr": 1, "iso_scheme": "knill", "unitary_scheme": "csd", "partition": [1], "svd": "regular"})]


def _div_host_spec(r, w, extra, as_, regs=1):
    """a host of w + extra qubits (in `regs` registers) and a permuted, non-ascending choice of w of its wires"""
    m = w + extra
    if as_ in ("omitted", "none"):
        return {"regs": [m], "order": None, "as": as_}
    while True:
        order = [int(x) for x in r.permutation(m)[:w]]
        if w < 2 or any(order[i] > order[i + 1] for i in range(w - 1)):
            break
    if regs == 1 or m < 2:
        sizes = [m]
    else:
        cut = max(1, m // 2)
        sizes = [cut, m - cut]
    return {"regs": sizes, "order": order, "as": as_}


def _diversity_call_forms(ctx):
    """(4) call forms: opt_params None / {} / partial / full (lr=1 makes forwarding visible in the reduced state), the static
    helper with every keyword non-default on a permuted sub-list of a larger host (ints, Qubit objects, two registers),
    qubits omitted / None, label, dict reuse, gate reuse"""
    r = ctx.nprng()
    j = 0
    # (a) opt_params forms x entry points
    for (n, k) in ((2, 3), (2, 2), (1, 2)):
        S = _div_states(r, n, k, "complex")
        w = n + clog2(k)
        for tag, opt in DIV_OPTS:
            if (n, k) != (2, 3) and not tag.startswith(("lr=1", "full", "none", "empty")):
                continue
            pkind = ["random", "dyadic", "zero-middle" if k >= 3 else "random"][j % 3]
            P = _div_pvec(r, k, pkind)
            for mode in _div_modes(n, k):
                j += 1
                _div_case(ctx, _div_mk("ctor", mode, n, k, S, "complex", "ndarray-list-c128", P, pkind,
                                       ["list", "tuple", "ndarray-f64"][j % 3], reset=(j % 3 == 0), opt=opt, optform=tag,
                                       label="rho-%d" % j if j % 4 == 0 else None))
            for as_, extra, regs in (("none", 0, 1), ("list-int", 2, 1), ("list-qubit", 1, 2)):
                j += 1
                if (n, k) != (2, 3) and as_ == "none" and not tag.startswith("lr=1"):
                    continue
                _div_case(ctx, _div_mk("static", "classical", n, k, S, "complex", ["ndarray-list-c128", "ndarray-2d-c128"][j % 2],
                                       P, pkind, ["list", "tuple", "ndarray-f64"][j % 3], opt=opt, optform=tag,
                                       host=_div_host_spec(r, w, extra, as_, regs)))
    # (b) static helper: qubit-argument forms x sizes x ensemble / probability forms, every keyword given
    sforms = ["ndarray-list-c128", "ndarray-2d-c128", "ndarray-tuple-c128", "pyseq-list-complex", "ndarray-list-f64",
              "pyseq-tuple-int", "ndarray-2d-int64", "ndarray-list-c64"]
    for (n, k) in ((1, 1), (1, 2), (2, 2), (2, 3), (1, 3), (2, 4), (1, 5), (3, 2), (2, 5), (3, 3)):
        w = n + clog2(k)
        for as_, extra, regs in (("omitted", 0, 1), ("none", 0, 1), ("list-int", 2, 1), ("tuple-int", 1, 1), ("list-qubit", 2, 2),
                                 ("tuple-qubit", 1, 2), ("list-npint64", 1, 1), ("list-int", 0, 1)):
            j += 1
            if w + extra > 7 or (as_ in ("tuple-int", "tuple-qubit", "list-npint64", "omitted") and j % 2):
                continue
            sform = sforms[j % len(sforms)]
            skind = _div_sform_kind(sform)
            S = _div_states(r, n, k, skind)
            pkind = ["random", "heavy-head", "zero-first", "dyadic", "onehot-last"][j % 5]
            P = _div_pvec(r, k, pkind) or _div_pvec(r, k, "dyadic")
            if P == _div_pvec(r, k, "dyadic"):
                pkind = "dyadic"
            tag, opt = DIV_OPTS[[2, 3, 5, 8, 4][j % 5]] if w >= 2 else DIV_OPTS[2]
            _div_case(ctx, _div_mk("static", "classical", n, k, S, skind, sform, P, pkind,
                                   ["list", "tuple", "ndarray-f64", "list-npfloat64"][j % 4], opt=opt, optform=tag,
                                   host=_div_host_spec(r, w, extra, as_, regs)))
    # (c) sequences: the same opt_params dict object reused with other contents; the same gate object used repeatedly
    for (n, k) in ((2, 3), (2, 2), (1, 2)):
        S, P = _div_states(r, n, k, "complex"), _div_pvec(r, k, "random")
        for mode in _div_modes(n, k):
            for entry in ("ctor", "static"):
                if entry == "static" and mode != "classical":
                    continue
                _div_seq(ctx, {"kind": "diversity-seq", "name": "opt-reuse", "entry": entry, "mode": mode, "n": n, "k": k,
                               "states": [[[float(z.real), float(z.imag)] for z in s] for s in S],
                               "probs": [repr(x) for x in P]})
            for reset in (False, True):
                _div_seq(ctx, {"kind": "diversity-seq", "name": "gate-reuse", "entry": "ctor", "mode": mode, "n": n, "k": k,
                               "reset": reset, "states": [[[float(z.real), float(z.imag)] for z in s] for s in S],
                               "probs": [repr(x) for x in P]})


def _div_seq(ctx, c, _patched=False):
    from qclib.state_preparation.mixed import MixedInitialize
    from qiskit import QuantumCircuit
    import copy as _copy
    n, k, mode, name = c["n"], c["k"], c["mode"], c["name"]
    a = clog2(k)
    w = n + a
    S = [np.array([complex(re, im) for re, im in s]) for s in c["states"]]
    P = [float(x) for x in c["probs"]]
    base = f"div-seq:{name}:{c['entry']}:{mode}:n={n}:k={k}"
    ctx.count(f"diversity:sequence:{name}:{c['entry']}/{mode}")

    def judge(key, circ, data, opt, check_rest):
        try:
            rho, e_rest = _div_reduced(circ, data, pure=(c["entry"] == "ctor" and not c.get("reset", False)))
        except Exception as e:  # noqa: BLE001
            ctx.fail(key + ":construct-raises", f"raised {type(e).__name__}: {str(e)[:200]}", c)
            return
        try:
            ideal, _ = _div_ideal(S, P, n, k, mode, opt)
        except _DivDegenerate:
            ctx.count("diversity:skipped (rank-1 ideal not unique)")
            return
        err = float(np.abs(rho - ideal).max())
        if err > 1e-7:
            if not _patched:
                # same sequence with the trusted synthesis passes bypassed: does this step meet the tolerance then?
                import framework

                def rerun():
                    sub = framework.Ctx(ctx.pid, ctx.tier, 0)
                    _div_seq(sub, c, _patched=True)
                    return 1.0 if any(f["key"].startswith(key) for f in sub.failures) else 0.0
                if _classify_precision(ctx, f"seq:{key}", err, rerun, c, mode == "incircuit"):
                    return
            ctx.fail(key + ":reduced-state", f"max |Tr_aux(out) - ideal| = {err:.3e}", dict(c, err=err))
        elif check_rest and e_rest > 1e-7:
            ctx.fail(key + ":other-qubits", f"auxiliary / untouched qubits are not |0> afterwards ({e_rest:.3e})", c)
        else:
            ctx.ok(key, nontrivial=k >= 2)

    if name == "opt-reuse":
        # ONE dict object; its contents change between constructions; each gate is built (definition) before the next change
        opt = {}
        steps = [("lr=1", {"lr": 1}), ("knill", {"iso_scheme": "knill"}), ("lr=1+partition=[1]", {"lr": 1, "partition": [1]}),
                 ("empty", {}), ("lr=1+csd", {"lr": 1, "unitary_scheme": "csd"}), ("partition=[1]", {"partition": [1]})]
        for i, (tag, content) in enumerate(steps):
            opt.clear()
            opt.update(_copy.deepcopy(content))
            key = f"{base}:step={i}:{tag}"
            try:
                if c["entry"] == "ctor":
                    g = MixedInitialize([s.copy() for s in S], opt_params=opt, probabilities=list(P),
                                        classical=(mode == "classical"), reset=False)
                    circ, data = g.definition, list(range(a, w))
                else:
                    circ = QuantumCircuit(w + 1)
                    order = list(range(w, 0, -1))
                    MixedInitialize.initialize(circ, [s.copy() for s in S], qubits=order, opt_params=opt, probabilities=list(P))
                    data = order[a:]
            except Exception as e:  # noqa: BLE001
                ctx.fail(key + ":construct-raises", f"raised {type(e).__name__}: {str(e)[:200]}", c)
                continue
            judge(key, circ, data, dict(content), c["entry"] == "static")
        return
    if name == "gate-reuse":
        reset = c["reset"]
        base += f":reset={int(reset)}"

        def mk():
            return MixedInitialize([s.copy() for s in S], probabilities=list(P), classical=(mode == "classical"), reset=reset)
        A, B = list(range(w)), list(range(2 * w - 1, w - 1, -1))
        variants = []
        try:
            g = mk()
            h = QuantumCircuit(2 * w)
            h.append(g, A)
            h.append(g, B)                              # the same object twice, second time on reversed wires
            variants.append(("appended-twice:first", h, A[a:], False))
            variants.append(("appended-twice:second", h, B[a:], False))
            g = mk()
            g2 = g.copy()                               # copied before the definition was ever built
            g3 = _copy.deepcopy(g)
            for tag, gg in (("copy-before-definition", g2), ("deepcopy-before-definition", g3), ("original-after-copy", g)):
                h = QuantumCircuit(w)
                h.append(gg, A)
                variants.append((tag, h, A[a:], reset))
            g = mk()
            _ = g.definition
            g4 = g.copy()                               # copied after the definition was built
            h = QuantumCircuit(w)
            h.append(g4, A[::-1])
            variants.append(("copy-after-definition", h, A[::-1][a:], reset))
            variants.append(("definition-read-twice", g.definition, A[a:], reset))
            g5 = g.to_mutable() if hasattr(g, "to_mutable") else g
            h = QuantumCircuit(w)
            h.append(g5, A)
            variants.append(("to_mutable", h, A[a:], reset))
        except Exception as e:  # noqa: BLE001
            ctx.fail(base + ":construct-raises", f"raised {type(e).__name__}: {str(e)[:200]}", c)
            return
        for tag, circ, data, chk in variants:
            judge(f"{base}:{tag}", circ, data, None, chk)
        return
    raise ValueError(name)


def _diversity_sizes(ctx):
    """(5) k = 1..5 (padding 0, 0, 1, 0, 3) x n = 1, 2, 3 x both modes x constructor and static helper, in non-default forms"""
    r = ctx.nprng()
    j = 0
    for n in (1, 2, 3):
        for k in (1, 2, 3, 4, 5):
            w = n + clog2(k)
            for sform, pform, pkind in (("ndarray-tuple-c128", "tuple", "random"), ("ndarray-2d-f64", "ndarray-f64", "heavy-head"),
                                        ("pyseq-list-complex", "list-npfloat64", "zero-last")):
                j += 1
                if n == 3 and j % 2:
                    continue
                skind = _div_sform_kind(sform)
                S = _div_states(r, n, k, skind)
                P = _div_pvec(r, k, pkind)
                if P is None:
                    P, pkind = _div_pvec(r, k, "dyadic"), "dyadic"
                for mode in _div_modes(n, k):
                    if mode == "incircuit" and n == 3 and k == 5 and j % 3:
                        continue
                    _div_case(ctx, _div_mk("ctor", mode, n, k, S, skind, sform, P, pkind, pform, reset=(j % 3 == 0), tie=n <= 2))
                if w + 1 <= 7 and sform != "ndarray-2d-f64":
                    _div_case(ctx, _div_mk("static", "classical", n, k, S, skind, sform, P, pkind, pform,
                                           host=_div_host_spec(r, w, 1, ["list-int", "list-qubit"][j % 2], 1 + j % 2)))


# --- rejection half of the property, in every container type and through every entry point
def _div_invalid(k):
    """(label, vector, expected) for k >= 2 states: invalid vectors of every kind (float32-exact entries where possible) and
    float-noise vectors that must be accepted"""
    out = []
    z = [0.0] * (k - 2)
    if k >= 3:      # one negative entry, every other entry in [0, 1], sum exactly 1: only the `< 0` test can reject
        out.append(("one-negative-first", [-0.25, 0.75, 0.5] + [0.0] * (k - 3), "neg"))
        out.append(("one-negative-middle", [0.75, -0.25, 0.5] + [0.0] * (k - 3), "neg"))
        out.append(("one-negative-last", [0.5] + [0.0] * (k - 3) + [0.75, -0.25], "neg"))
    else:
        out.append(("negative-with-gt1", [-0.25, 1.25], "neg"))
    out.append(("all-negative", [-1.0 / 4] * k if k == 4 else [-0.5] + [-0.5 / (k - 1)] * (k - 1), "neg"))
    out.append(("entry-gt1-first", [1.5] + z + [0.0], "gt1"))
    out.append(("entry-gt1-last", [0.0] + z + [1.5], "gt1"))
    out.append(("sum+2^-10", [0.5, 0.5 + 2.0 ** -10] + z, "sum"))
    out.append(("sum-2^-10", [0.5, 0.5 - 2.0 ** -10] + z, "sum"))
    out.append(("sum=0", [0.0] * k, "sum"))
    out.append(("sum=2", [1.0, 1.0] + z, "sum"))
    out.append(("sum-ok-dyadic", _fixed_probs(k), "accept"))
    return out


def _div_noise(r, k):
    """valid vectors whose float sum is not exactly 1.0 (a few ulp / 1e-12 off): must be ACCEPTED (float64 containers only)"""
    out = []
    for _ in range(200):
        p = r.random(k) + 0.05
        p = [float(x) for x in p / p.sum()]
        if sum(p) != 1.0 and abs(sum(p) - 1.0) < 1e-14:
            out.append(("sum-off-by-ulps", p, "accept"))
            break
    p = _fixed_probs(k)
    p[-1] += 1e-12
    out.append(("sum+1e-12", p, "accept"))
    p = _fixed_probs(k)
    p[0] -= 1e-12
    out.append(("sum-1e-12", p, "accept"))
    return out


def _div_reject(ctx, c):
    from qclib.state_preparation.mixed import MixedInitialize
    from qiskit import QuantumCircuit
    n, k, mode, entry, pform = c["n"], c["k"], c["mode"], c["entry"], c["pform"]
    a = clog2(k)
    P = [float(x) for x in c["probs"]]
    S = _div_states(None, n, k, "basis-phase")
    probs = _div_probs(P, pform)
    key = f"div-reject:{entry}:{mode}:n={n}:k={k}:{c['label']}:{pform}"
    ctx.count(f"diversity:probability-validation:{c['label']}:{entry}")
    ctx.count(f"diversity:probability-validation-form:{pform}:{entry}")
    try:
        if entry == "ctor":
            MixedInitialize(S, probabilities=probs, classical=(mode == "classical"))
        elif entry == "static-none":
            MixedInitialize.initialize(QuantumCircuit(n + a), S, probabilities=probs)
        else:
            MixedInitialize.initialize(QuantumCircuit(n + a + 1), S, qubits=list(range(n + a, 0, -1)), probabilities=probs,
                                       opt_params={"iso_scheme": "knill"})
        got = "accept"
    except Exception as e:  # noqa: BLE001 -- the decision IS the exception class
        got = "raise " + classify(e)
    exp = c["expected"]
    if exp == "accept":
        if got == "accept":
            ctx.ok(key, nontrivial=False)
        else:
            ctx.fail(key + ":valid-vector-rejected", f"valid probability vector {P} ({pform}) raised: {got}", c)
    elif got.startswith("raise ValueError"):
        ctx.ok(key, nontrivial=True, sample={"rejected": c["label"], "form": pform, "entry": entry, "how": got})
    elif got == "accept":
        ctx.fail(key + ":invalid-vector-accepted", f"probabilities {P} ({c['label']}, {pform}) accepted, expected ValueError", c)
    else:
        ctx.fail(key + ":wrong-exception", f"probabilities {P} ({c['label']}, {pform}) gave '{got}', expected ValueError", c)
    return got


def _diversity_reject(ctx):
    """invalid probability vectors of every kind x container type x entry point (+ float noise that must be accepted)"""
    r = ctx.nprng()
    for k, n in ((2, 2), (3, 2), (5, 2), (4, 1)):
        for label, P, exp in _div_invalid(k) + _div_noise(r, k):
            if exp is None:
                continue
            for pform in ("list", "tuple", "ndarray-f64", "list-npfloat64", "ndarray-f32", "list-npfloat32"):
                if "32" in pform and any(float(np.float32(x)) != x for x in P):
                    continue
                for entry, mode in (("ctor", "classical"), ("ctor", "incircuit"), ("static-none", "classical"),
                                    ("static-qubits", "classical")):
                    if mode == "incircuit" and n < 2:
                        continue
                    c = {"kind": "diversity-reject", "entry": entry, "mode": mode, "n": n, "k": k, "label": label,
                         "probs": [repr(x) for x in P], "pform": pform, "expected": exp}
                    got = _div_reject(ctx, c)
                    if entry == "ctor":
                        tie_decision(ctx, _div_states(None, n, k, "basis-phase"), _div_probs(P, pform), mode == "classical",
                                     f"div:{label}:{pform}")
                    if exp == "accept" and got == "accept" and entry == "ctor" and pform in ("list", "ndarray-f64") \
                            and label != "sum-ok-dyadic":
                        S = _div_states(r, n, k, "complex")
                        _div_case(ctx, _div_mk("ctor", mode, n, k, S, "complex", "ndarray-list-c128", P, label, pform,
                                               reset=False), count=False)
    # integer vectors
    for k, n in ((1, 1), (2, 2), (3, 2)):
        for label, P, exp in (("int-negative", [-1, 1, 1][:k] if k > 1 else [-1], "neg"), ("int-gt1", [2] + [0] * (k - 1), "gt1"),
                              ("int-sum=2", [1, 1, 0][:k], "sum"), ("int-sum=0", [0] * k, "sum"),
                              ("int-onehot", [0] * (k - 1) + [1], "accept")):
            if k == 1 and label in ("int-sum=2",):
                continue
            for pform in ("list-int", "tuple-int", "ndarray-int64"):
                for entry, mode in (("ctor", "classical"), ("ctor", "incircuit"), ("static-qubits", "classical")):
                    if mode == "incircuit" and (n < 2 or k < 2):
                        continue
                    _div_reject(ctx, {"kind": "diversity-reject", "entry": entry, "mode": mode, "n": n, "k": k, "label": label,
                                      "probs": [repr(float(x)) for x in P], "pform": pform, "expected": exp})
    # wrong length: the code does not validate it and the property does not list it -> recorded, not judged
    from qclib.state_preparation.mixed import MixedInitialize
    S = _div_states(None, 2, 3, "basis-phase")
    for label, P in (("longer", [0.25] * 4), ("shorter", [0.5, 0.5])):
        for pform in ("list", "tuple", "ndarray-f64"):
            try:
                MixedInitialize(S, probabilities=_div_probs(P, pform))
                ctx.count(f"diversity:wrong-length (not judged):{label}:{pform}:accepted")
            except Exception as e:  # noqa: BLE001
                ctx.count(f"diversity:wrong-length (not judged):{label}:{pform}:raises {type(e).__name__}")


DIV_PRECISION_PROBES = [
    # (mode, reset, probabilities, ensemble as [re, im] pairs): inputs on which the TRUSTED layers below mixed.py are only accurate
    # to ~1e-5 (found by the diversity sweeps with VERIF_SEED=5 / 2); probed on every run so that the finding line is printed
    ("classical", False, ["0.5", "0.5"],
     [[[0.35071741514952925, 0.0], [-0.3202660320324687, 0.0], [-0.5095267666751824, 0.0], [0.2928159431596282, 0.0],
       [-0.06566933201579257, 0.0], [-0.11471899755315987, 0.0], [-0.5813681135065494, 0.0], [0.2713051196363897, 0.0]],
      [[0.16809522692018689, 0.0], [0.7643877772334633, 0.0], [-0.2202162501016234, 0.0], [-0.041677510517230974, 0.0],
       [0.020247345834048205, 0.0], [-0.323623465468399, 0.0], [-0.43655179408632894, 0.0], [0.20372417057362016, 0.0]]]),
    ("incircuit", True, ["0.43375310321632266", "0.5662468967836773"],
     [[[-1.4196474900475308e-07, -7.678550385593384e-07], [-0.6538471510448713, 0.4268948972188013],
       [-0.6055159567869017, 0.15360289777555702], [0.0003950936538153773, -0.0006735401657776325],
       [0.0007759477999799461, 8.75234934587697e-05], [-3.6878108047025046e-07, -6.882992553302237e-07],
       [5.846440235155313e-05, -5.1763569812032545e-05], [7.592653529146646e-06, -1.8240469858069927e-06]],
      [[0.055251359666461906, 0.62224650371345], [0.0005109395444523574, 0.0005905049806019958],
       [1.119080647002779e-07, 7.72807825565958e-07], [-0.0006632811471544724, -0.00041208429966499926],
       [4.617471846985498e-07, -6.297181017121146e-07], [3.776466770618449e-06, 6.834751915798353e-06],
       [-7.477020244765679e-05, 2.2516001597661086e-05], [0.41517628070201296, 0.6613501388397746]]]),
]


def _diversity_precision_probes(ctx):
    for mode, reset, probs, states in DIV_PRECISION_PROBES:
        S = [np.array([complex(re, im) for re, im in s]) for s in states]
        real = all(np.all(s.imag == 0) for s in S)
        _div_case(ctx, _div_mk("ctor", mode, 3, 2, S, "precision-probe", "ndarray-2d-f64" if real else "ndarray-2d-c128",
                               [float(x) for x in probs], "precision-probe", "list", reset=reset), count=False)


def _diversity_mixed_member_types(ctx):
    """Ensembles whose MEMBERS have different element types (a real or integer-valued state listed next to a genuinely complex
    one), in both listing orders: a buffer typed after the first member would drop the imaginary parts of the later ones."""
    r = ctx.nprng()
    j = 0
    for (n, k) in ((1, 2), (2, 2), (2, 3), (3, 3)):
        dim = 2 ** n
        for order in ("real-first", "complex-first", "int-first"):
            cplx = [rand_state(r, n, "complex") for _ in range(k - 1)]
            if order == "int-first":
                first = np.zeros(dim, dtype=complex)
                first[int(r.integers(dim))] = 1.0
            else:
                first = np.array(np.abs(r.normal(size=dim)) + 0.2, dtype=complex)
                first[::2] *= -1
                first = first / np.linalg.norm(first)
            S = [first] + cplx if order != "complex-first" else cplx + [first]
            for mode in _div_modes(n, k):
                for sform in ("ndarray-list-per-member-dtype", "pyseq-list-per-member-type"):
                    j += 1
                    pkind = ["random", "omitted", "dyadic"][j % 3]
                    P = [1 / k] * k if pkind == "omitted" else _div_pvec(r, k, pkind)
                    c = _div_mk("ctor", mode, n, k, S, "mixed-member-types:" + order, sform, P,
                                "uniform" if pkind == "omitted" else pkind, "omitted" if pkind == "omitted" else ["list", "ndarray-f64"][j % 2],
                                tie=(mode == "classical"))
                    ctx.count(f"diversity:member-types:{order}:{sform}")
                    _div_case(ctx, c)


def _diversity_flag_forms(ctx):
    """flag-form pass.  Options of MixedInitialize(params, initializer, opt_params, probabilities, label, reset, classical)
    and of the static initialize(q_circuit, ensemble, qubits, opt_params, probabilities):
      reset, classical (bool)   True and False each as numpy.bool_ and int 1 / 0 (Python bools: every other case), by keyword
                                and with all seven arguments positional, both modes, a = ceil(log2 k) = 0 (k = 1: reset has
                                nothing to act on), 1, 2, 3 auxiliary qubits, n = 1 (classical only), 2, 3.  Oracle: reduced
                                state, auxiliaries |0> after a reset, and the reset instructions are there iff the flag is
                                truthy and a > 0.  Tie: what the sub-initializer is handed (purification vector / in-circuit
                                plan) and the wrap lines, with the same flag form, vs the model asked with the Python bools.
      probabilities             a VALID vector may contain zeros: 0.0, -0.0, int 0 (one-hot int lists / int64 arrays),
                                np.float64(0) / np.float32(0) entries, first / middle / last position, every container,
                                both modes, constructor and static helper
      label                     '' (a valid, falsy label) must be kept, not replaced by the default
      opt_params                None / {} are in DIV_OPTS (_diversity_call_forms)"""
    r = ctx.nprng()
    j = 0
    # (A) type / position of the two flags
    for (n, k) in ((1, 1), (1, 2), (2, 1), (2, 2), (2, 3), (3, 4), (2, 5)):
        S = _div_states(r, n, k, "complex")
        for mode in _div_modes(n, k):
            for reset in (True, False):
                for fform in ("npbool", "int"):
                    j += 1
                    pkind = ["random", "omitted", "dyadic"][j % 3]
                    P = [1 / k] * k if pkind == "omitted" else _div_pvec(r, k, pkind)
                    c = _div_mk("ctor", mode, n, k, S, "complex", ["ndarray-list-c128", "pyseq-list-complex"][j % 2], P,
                                "uniform" if pkind == "omitted" else pkind, "omitted" if pkind == "omitted" else ["list", "ndarray-f64"][j % 2],
                                reset=reset, tie=(n, k) in ((1, 2), (2, 2), (2, 3), (3, 4)))
                    c["flagform"], c["flagpos"] = fform, ((j + (j - 1) // 4) % 2 == 0)
                    _div_case(ctx, c)
        # the Python singletons with every argument positional
        j += 1
        c = _div_mk("ctor", _div_modes(n, k)[-1], n, k, S, "complex", "ndarray-list-c128", _div_pvec(r, k, "random"), "random", "list",
                    reset=bool(j % 2), tie=(n, k) == (2, 3))
        c["flagform"], c["flagpos"] = "bool", True
        _div_case(ctx, c)
    # (B) zeros inside a valid probability vector, in every numeric form
    for (n, k) in ((1, 2), (2, 2), (2, 3), (2, 5)):
        S = _div_states(r, n, k, "complex")
        w = n + clog2(k)
        for pkind, pforms in (("onehot-first", ["list-int", "ndarray-int64", "list", "list-npfloat32"]),
                              ("onehot-last", ["tuple-int", "list-npfloat64", "ndarray-f32"]),
                              ("onehot-middle", ["list-int", "ndarray-f64"]),
                              ("zero-first", ["list", "list-npfloat64"]), ("zero-middle", ["tuple", "ndarray-f64"]),
                              ("zero-last", ["list-npfloat64", "list"]),
                              ("zero-dyadic-first", ["list-npfloat32", "ndarray-f32"]), ("zero-dyadic-last", ["ndarray-f32", "tuple"]),
                              ("negzero-first", ["list", "ndarray-f64"]), ("negzero-last", ["tuple", "list-npfloat64"])):
            if pkind.startswith("negzero-"):
                P = _div_pvec(r, k, "zero-" + pkind[8:])
                P = [-0.0 if x == 0 else x for x in P] if P else None
            else:
                P = _div_pvec(r, k, pkind)
            if P is None:
                continue
            for pform in pforms:
                j += 1
                for mode in _div_modes(n, k)[:: -1 if j % 2 else 1][:1 if k == 5 else 2]:
                    ctx.count(f"flagforms:probabilities-zero:{pkind}:{pform}:ctor/{mode}")
                    _div_case(ctx, _div_mk("ctor", mode, n, k, S, "complex", "ndarray-list-c128", P, pkind, pform,
                                           reset=(j % 2 == 0), tie=(n, k) in ((2, 2), (2, 3)) and "f32" not in pform and "float32" not in pform))
                if j % 2:
                    ctx.count(f"flagforms:probabilities-zero:{pkind}:{pform}:static/classical")
                    _div_case(ctx, _div_mk("static", "classical", n, k, S, "complex", "ndarray-list-c128", P, pkind, pform,
                                           host=_div_host_spec(r, w, 1, "list-int", 1)))
    # (B) the empty label
    for (n, k) in ((1, 2), (2, 3)):
        S = _div_states(r, n, k, "complex")
        for mode in _div_modes(n, k):
            ctx.count("flagforms:label:empty-string")
            _div_case(ctx, _div_mk("ctor", mode, n, k, S, "complex", "ndarray-list-c128", _div_pvec(r, k, "random"), "random", "list",
                                   reset=False, label=""))


def run_diversity(ctx):
    _diversity_precision_probes(ctx)
    _diversity_element_types(ctx)
    _diversity_scale(ctx)
    _diversity_phase(ctx)
    _diversity_call_forms(ctx)
    _diversity_flag_forms(ctx)
    _diversity_mixed_member_types(ctx)
    _diversity_sizes(ctx)
    _diversity_reject(ctx)


# ----------------------------------------------------------------------------------------------
def compare(op, impl, model):
    import framework
    if any(l.startswith(("raise", "UNKNOWN", "PARSE")) for l in list(impl) + list(model)):
        return None if list(impl) == list(model) else f"decision: impl={impl!r} model={model!r}"
    return framework.diff_lines(impl, model)


def run(ctx):
    conventions(ctx)
    if ctx.quick:
        run_decisions(ctx, kmax=5, ns=(1, 2))
        run_widths(ctx, 300)
        run_purifications(ctx, 3, 6)
        run_oracle(ctx, 3, 6, per_cell=6)
    else:
        run_decisions(ctx, kmax=9, ns=(1, 2, 3))
        run_widths(ctx, 4096)
        run_purifications(ctx, 3, 9)
        run_oracle(ctx, 3, 6, per_cell=0)
        run_oracle(ctx, 4, 9, per_cell=4)
    run_options(ctx)
    boundary_decisions(ctx)
    boundary_ensembles(ctx)
    run_diversity(ctx)
    ctx.notes.append("boundary cases: an entry is exactly at the bound (0.0, -0.0, 1.0), 1e-12 / one ulp beyond it (decided "
                     "by the tie only: the property leaves rounding-size excesses open) or 1e-3 beyond it (tie and oracle)")
    ctx.notes.append("sum offsets within 5e-10..2e-9 of 1 are not generated (builtin sum is compensated in CPython>=3.12, "
                     "the model folds left; the decision can legitimately differ there)")
    ctx.notes.append("probability vectors whose length differs from the number of states are NOT rejected by the code "
                     "(zip truncation / extra aux amplitude); modelled as coded, not part of the property")


def search(ctx, hints):
    """A proof / fingerprint / tie went red: look for an input on which the REAL code violates C14."""
    r = ctx.nprng()
    for h in hints[:20]:
        op = h.get("op", {})
        if op.get("op") == "decide" and op.get("dims") and all(d == op["dims"][0] and d >= 2 and (d & (d - 1)) == 0
                                                                for d in op["dims"]):
            k, n = len(op["dims"]), int(math.log2(op["dims"][0]))
            probs = None if op["none"] else [struct.unpack("<d", struct.pack("<Q", b))[0] for b in op["probs"]]
            got, _ = decision_impl(make_states(r, n, k, "complex"), probs, op.get("classical", True))
            exp = expected_of(probs, k)
            if exp is not None:
                reject_oracle(ctx, got[0], op.get("label", "hint"), probs, exp, n, k, op.get("classical", True))
        if op.get("op") in ("purif", "incirc"):
            n, k = op["n"], op["k"]
            states = [np.array([complex(s[2 * i], s[2 * i + 1]) for i in range(len(s) // 2)]) for s in op["states"]]
            if len(op["probs"]) == k:
                for classical in (True, False):
                    if classical or (n >= 2 and k >= 2):
                        oracle_case(ctx, n, k, states, op["probs"], classical, False, "hint", "hint")
    # structured search, larger than run()
    for classical in (True, False):
        for n in (1, 2):
            for k in range(1, 8):
                states = make_states(r, n, k, "complex")
                for label, probs, expected in malformed_stream(r, k):
                    got, _ = decision_impl(states, probs, classical)
                    reject_oracle(ctx, got[0], label, probs, expected, n, k, classical)
    run_oracle(ctx, 3, 9, per_cell=8)


def replay(ctx, payload):
    rp = payload["replay"]
    if rp.get("kind") == "reject":
        probs = None if rp["probs"] is None else [float(x) for x in rp["probs"]]
        r = ctx.nprng()
        got, _ = decision_impl(make_states(r, rp["n"], rp["k"], "complex"), probs, rp["classical"])
        reject_oracle(ctx, got[0], "replay", probs, rp["expected"], rp["n"], rp["k"], rp["classical"])
    elif rp.get("kind") == "option":
        run_options(ctx)
    elif rp.get("kind") == "diversity":
        _div_case(ctx, rp)
    elif rp.get("kind") == "diversity-seq":
        _div_seq(ctx, rp)
    elif rp.get("kind") == "diversity-reject":
        _div_reject(ctx, rp)
    elif rp.get("kind") == "ensemble":
        states = [np.array([complex(a, b) for a, b in s]) for s in rp["states"]]
        probs = None if rp["probs"] is None else [float(x) for x in rp["probs"]]
        oracle_case(ctx, rp["n"], rp["k"], states, probs, rp["classical"], rp["reset"], "replay", "replay",
                    via_static=rp.get("static", False))
    else:
        raise RuntimeError("replay payload names an obligation, not an input: " + str(payload.get("broken_obligations"))[:500])
