"""C06 helpers: run the REAL sparse initializers and dump what they did in canonical protocol lines.

Nothing here re-implements qclib logic: the real classes are instantiated and the real methods run;
recording wrappers (installed for the duration of one call, removed afterwards) only *observe* the
values that flow through `_select_strings`, `_update_state_dict_according_to_operation`,
`_compute_angles`, `_pivoting`, `_get_index_zero`, `_compute_matrix_angles`.

Protocol (one line per item, `name ints ; floats`, keys are written as the integer `1<bits>` so that
leading zeros survive the integer parse):

  gates      x q | cx c t | cx[0] c t | rccx a b t | cu c t ; th ph la ga | u2 q ; <8 floats: 2x2 row-major re im>
             mcu:<backend>[<ctrl_state>] c.. t ; <8 floats>        (multi-controlled one-qubit gate kept opaque)
             mcxd c.. t a.. ; nctrl                                (qiskit mcx v-chain-dirty, opaque)
             lowrank w.. ; re im re im ...                         (dense hand-off, opaque)
"""
import contextlib
import numpy as np

KEY = lambda s: "1" + s  # noqa: E731
# side channel of the last trace_* call: branch / operand-kind observations (for coverage histograms)
LAST = {"merge_kinds": [], "cvo_branches": []}


def _f(x):
    return repr(float(x))


def _mat(m):
    m = np.asarray(m, dtype=complex)
    return " ".join(_f(v) for z in m.ravel() for v in (z.real, z.imag))


def _cs(cs, k):
    """ctrl_state (None | str | int) -> canonical suffix '' (all ones) or '[bits]' (qiskit order: last char = first control)."""
    if cs is None:
        return ""
    if isinstance(cs, (int, np.integer)):
        cs = format(int(cs), f"0{k}b") if k else ""
    return "" if set(cs) <= {"1"} else f"[{cs}]"


def flat(circ, wires=None, out=None):
    """Flatten down to the C06 alphabet, multi-controlled back-ends and the dense initializer kept opaque."""
    from qiskit.circuit import ControlledGate
    from qiskit.quantum_info import Operator
    if out is None:
        out = []
    if wires is None:
        wires = list(range(circ.num_qubits))
    if circ.global_phase:
        out.append("gphase ; " + _f(circ.global_phase))
    for inst in circ.data:
        op = inst.operation
        qs = [wires[circ.find_bit(q).index] for q in inst.qubits]
        ws = " ".join(map(str, qs))
        name = op.name
        cls = type(op).__name__
        if name == "barrier":
            continue
        if name == "x":
            out.append(f"x {ws} ;")
        elif name == "cx":
            out.append(f"cx{_cs(op.ctrl_state, 1)} {ws} ;")
        elif name == "rccx":
            out.append(f"rccx {ws} ;")
        elif name == "cu" and cls == "CUGate":
            out.append(f"cu{_cs(op.ctrl_state, 1)} {ws} ; " + " ".join(_f(p) for p in op.params))
        elif name == "u":
            out.append(f"u2 {ws} ; " + _mat(op.to_matrix()))
        elif cls in ("Ldmcu", "Mcg", "LdMcSpecialUnitary"):
            out.append(f"mcu:{cls}{_cs(op.ctrl_state, len(qs) - 1)} {ws} ; " + _mat(op.unitary))
        elif name == "ccx" or cls.startswith("MCX") or name.startswith("mcx"):
            k = op.num_ctrl_qubits
            out.append(f"mcxd{_cs(op.ctrl_state, k)} {ws} ; {k}")
        elif cls == "LowRankInitialize" or name == "low_rank":
            out.append(f"lowrank {ws} ; " + " ".join(_f(v) for z in op.params for v in (complex(z).real, complex(z).imag)))
        elif isinstance(op, ControlledGate):
            k = op.num_ctrl_qubits
            out.append(f"mcu:ctrl{_cs(op.ctrl_state, k)} {ws} ; " + _mat(Operator(op.base_gate).data))
        elif op.definition is not None:
            flat(op.definition, qs, out)
        else:
            out.append(f"opaque:{name} {ws} ;")
    return out


def _amp(v):
    if isinstance(v, complex):
        return f"{_f(v.real)} {_f(v.imag)}"
    return _f(v)


@contextlib.contextmanager
def patched(obj, name, wrapper_factory, static=False):
    orig_raw = obj.__dict__[name] if name in getattr(obj, "__dict__", {}) else None
    orig = getattr(obj, name)
    w = wrapper_factory(orig)
    setattr(obj, name, staticmethod(w) if static else w)
    try:
        yield
    finally:
        if orig_raw is not None:
            setattr(obj, name, orig_raw)
        else:
            delattr(obj, name)


def trace_merge(d, make=None):
    """d: dict key->amplitude.  Returns (lines, gate).  `make` (optional, all three trace_* functions): a callable
    returning the gate, used instead of the plain constructor call so that other entry forms (static `initialize`,
    copies, partial option dictionaries ...) are observed through the same recording wrappers."""
    from qclib.state_preparation import merge as M
    cls = M.MergeInitialize
    lines = []

    def w_select(orig):
        def f(self, state_dict):
            r = orig(self, state_dict)
            b1, b2, dif, dq = r
            lines.append(f"sel {KEY(b1)} {KEY(b2)} {dif} " + " ".join(map(str, dq)) + " ;")
            return r
        return f

    def w_update(orig):
        def f(state_dict, operation, qubit_indexes, merge_strings=None):
            r = orig(state_dict, operation, qubit_indexes, merge_strings=merge_strings)
            if operation == "merge":
                lines.append(f"upd:merge {KEY(merge_strings[0])} {KEY(merge_strings[1])} ;")
            elif operation == "x":
                lines.append(f"upd:x {qubit_indexes} ;")
            else:
                lines.append(f"upd:cx {qubit_indexes[0]} {qubit_indexes[1]} ;")
            for k, v in r.items():
                lines.append(f"d {KEY(k)} ; {_amp(v)}")
            return r
        return f

    def w_angles(orig):
        def f(a1, a2):
            # operand KINDS as the code's own isinstance test sees them (complex 'c' / real scalar 'f')
            LAST["merge_kinds"].append(("c" if isinstance(a1, complex) else "f") + ("c" if isinstance(a2, complex) else "f"))
            r = orig(a1, a2)
            lines.append("ang ; " + " ".join(_f(x) for x in r))
            return r
        return f

    LAST["merge_kinds"] = []

    with patched(cls, "_select_strings", w_select), \
            patched(cls, "_update_state_dict_according_to_operation", w_update, static=True), \
            patched(cls, "_compute_angles", w_angles, static=True):
        gate = cls(dict(d)) if make is None else make()
        circ = gate.definition
    lines.append("gates ;")
    lines += flat(circ)
    return lines, gate


def trace_pivot(d, aux, make=None):
    from qclib.state_preparation import pivot as P
    cls = P.PivotInitialize
    lines = []

    def w_pivoting(orig):
        def f(self, index_nonzero, target_size, index_zero, next_state):
            circ, ns = orig(self, index_nonzero, target_size, index_zero, next_state)
            ns = list(ns)
            lines.append(f"step {KEY(index_nonzero)} {KEY(index_zero)} {self.index_differ} {self.ctrl_state} ;")
            for k, v in ns:
                lines.append(f"s {KEY(k)} ; {_amp(v)}")
            return circ, ns
        return f

    with patched(cls, "_pivoting", w_pivoting):
        gate = cls(dict(d), opt_params={"aux": aux}) if make is None else make()
        circ = gate.definition
    lines.append("gates ;")
    lines += flat(circ)
    return lines, gate


def trace_cvo(d, aux, method, make=None):
    from qclib.state_preparation import cvoqram as C
    cls = C.CvoqramInitialize
    lines = []

    def w_angles(orig):
        def f(feature, norm):
            r = orig(feature, norm)
            # which data-dependent branches of _compute_matrix_angles this call took
            if isinstance(feature, complex):
                ph = abs(feature * feature)
                LAST["cvo_branches"].append("complex" + (":imag<0" if feature.imag < 0 else ":imag>=0")
                                            + (":norm-clamped" if (norm - ph) < 0 else ""))
            else:
                LAST["cvo_branches"].append("real")
            lines.append(f"load ; {_f(norm)} " + " ".join(_f(x) for x in r))
            return r
        return f

    LAST["cvo_branches"] = []

    with patched(C, "_compute_matrix_angles", w_angles):
        gate = cls(dict(d), opt_params={"with_aux": aux, "mcg_method": method}) if make is None else make()
        circ = gate.definition
    lines.append("gates ;")
    lines += flat(circ)
    return lines, gate
