"""C17 — probabilistic quantum memory (qclib/memory/pqm.py)."""
import itertools
import math
import numpy as np

CLAIMED = True
TECHNIQUE = "Lean 4 proof (induction over the register, all n) of the closed form of the retrieval circuit in amplitude-function semantics, cosine law over C from Mathlib; gate-list correspondence with pqm.py; Statevector oracle"
LEVEL_TEXT = ("Full proof for the model: for every n>=1, classical or quantum pattern, every wire layout and every input state, the "
              "circuit's output amplitudes have the closed form pqmIdeal (C17_general); with the code's angles and the auxiliary in |0> "
              "the squared amplitudes follow cos^2(pi d/2n) label by label and memory/pattern marginals are unchanged (C17_law, "
              "C17_marginals). Tie: gate lists of pqm.initialize diffed against the model for all patterns n<=6 (9 thorough); oracle: "
              "exact probabilities on superposed memories and superposed quantum patterns.")
LEVEL_NOTE = ("Trusted: Lean kernel (standard axioms), hand model <-> pqm.py beyond explored n (the loops are uniform in n), qiskit "
              "h/x/cx/p/cp matrices (checked numerically each run), float angles -pi/(2n), pi/n vs exact reals.")
LEAN_TARGETS = ["QclibModel.Props.C17"]
THEOREMS = ["Qclib.C17_general", "Qclib.C17_law", "Qclib.C17_marginals"]
TRUSTED = [
    "qiskit h/x/cx/p/cp matrices equal matH/X/matP of Sem/Denote.lean (validated numerically each run)",
    "float: -np.pi/(2*size) and np.pi/size are compared to the model's parameters to 1e-9",
]
ASSUMPTIONS = ["exact complex arithmetic in the theorem; implementation compared to 1e-9",
               "the auxiliary qubit starts in |0> (C17_law / C17_marginals)"]
RULE = ("tie: (n, classical?, pattern) whose gate list was diffed against the Lean model; oracle: exact "
        "probabilities from Statevector for random superposed memories vs the cosine law, memory and "
        "pattern marginals unchanged; non-trivial = memory with >=2 non-zero amplitudes and pattern at "
        "non-zero distance from some stored string")


UNREACHED_JUSTIFIED = {}   # pqm.py: every statement and branch outcome is reached in the quick tier

FORMS = ("plain", "np-int", "bool", "tuple", "default-flag")


def build(n, pattern, classical, memory_vec=None, pattern_vec=None, form="plain"):
    from qiskit import QuantumCircuit, QuantumRegister
    from qclib.memory import pqm
    qm = QuantumRegister(n, "m")
    qa = QuantumRegister(1, "a")
    if classical:
        circ = QuantumCircuit(qm, qa)
        pat = list(pattern)
        if form == "np-int":        # the `pattern[k] == 1` test on numpy integers / bools / a tuple
            pat = np.array(pat, dtype=np.int64)
        elif form == "bool":
            pat = [bool(b) for b in pat]
        elif form == "tuple":
            pat = tuple(pat)
        pqm.initialize(circ, pat, qm, qa[0], is_classical_pattern=True)
        wires = dict(mem=list(range(n)), pat=[0] * n, aux=n)
    else:
        qp = QuantumRegister(n, "p")
        circ = QuantumCircuit(qp, qm, qa)
        if form == "default-flag":  # is_classical_pattern left at its default
            pqm.initialize(circ, qp, qm, qa[0])
        else:
            pqm.initialize(circ, qp, qm, qa[0], is_classical_pattern=False)
        wires = dict(pat=list(range(n)), mem=list(range(n, 2 * n)), aux=2 * n)
    return circ, wires


def hamming(a, b, n):
    return bin((a ^ b) & ((1 << n) - 1)).count("1")


def oracle_case(ctx, n, pattern, classical, mem_state, key, pat_state=None, form="plain"):
    """mem_state: complex vector length 2^n (memory); pattern: list of bits (little-endian: bit k ↔ qubit k)."""
    from qiskit.quantum_info import Statevector
    circ, w = build(n, pattern, classical, form=form)
    pint = sum(b << k for k, b in enumerate(pattern))
    nq = circ.num_qubits
    init = np.zeros(2 ** nq, dtype=complex)
    if classical:
        for m, a in enumerate(mem_state):
            init[m] = a
    else:
        ps = pat_state if pat_state is not None else {pint: 1.0}
        for p, c in ps.items():
            for m, a in enumerate(mem_state):
                init[p | (m << n)] = a * c
    out = Statevector(init).evolve(circ).data
    probs = np.abs(out) ** 2
    aux = w["aux"]
    # cosine law and marginals, label by label
    worst = 0.0
    for idx in range(2 ** nq):
        if (idx >> aux) & 1:
            continue
        if classical:
            m, p = idx & (2 ** n - 1), pint
        else:
            p, m = idx & (2 ** n - 1), (idx >> n) & (2 ** n - 1)
        d = hamming(m, p, n)
        p0 = abs(init[idx]) ** 2
        e0 = abs(probs[idx] - p0 * math.cos(math.pi * d / (2 * n)) ** 2)
        e1 = abs(probs[idx | (1 << aux)] - p0 * math.sin(math.pi * d / (2 * n)) ** 2)
        worst = max(worst, e0, e1)
    rep = {"call": "qclib.memory.pqm.initialize", "n": n, "pattern": list(pattern), "classical": classical,
           "memory": [[float(np.real(a)), float(np.imag(a))] for a in mem_state], "worst_abs_err": worst, "form": form}
    nz = int(np.sum(np.abs(mem_state) > 1e-12))
    if worst > 1e-9:
        ctx.fail(key, f"cosine law / marginal violated by {worst:.3e}", rep)
    else:
        ctx.ok(key, nontrivial=nz >= 2, sample={"n": n, "pattern": list(pattern), "classical": classical,
                                                "memory_nonzeros": nz, "worst_abs_err": worst})


def gate_conventions(ctx):
    from qiskit.circuit.library import HGate, PhaseGate, CPhaseGate, XGate
    t = 0.37
    ctx.assumption_checks += 3
    if np.abs(PhaseGate(t).to_matrix() - np.diag([1, np.exp(1j * t)])).max() > 1e-12 or \
       np.abs(CPhaseGate(t).to_matrix() - np.diag([1, 1, 1, np.exp(1j * t)])).max() > 1e-12 or \
       np.abs(HGate().to_matrix() - np.array([[1, 1], [1, -1]]) / math.sqrt(2)).max() > 1e-12:
        ctx.fail("assumption:gate-matrix", "p/cp/h matrix convention changed", kind="assumption")


def tie_case(ctx, n, pattern, classical, form="plain"):
    from flatten import flatten, to_lines
    circ, w = build(n, pattern, classical, form=form)
    ctx.tie({"op": "pqm", "n": n, "classical": classical, "pattern": list(pattern), "mem": w["mem"],
             "pat": w["pat"], "aux": w["aux"], "theta_m": -math.pi / (2 * n), "theta_c": math.pi / n},
            to_lines(flatten(circ)))


def rand_state(ctx, dim, kind):
    r = ctx.nprng()
    if kind == "haar":
        v = r.normal(size=dim) + 1j * r.normal(size=dim)
    elif kind == "sparse":
        v = np.zeros(dim, dtype=complex)
        for i in r.choice(dim, size=min(dim, max(2, dim // 3)), replace=False):
            v[i] = r.normal() + 1j * r.normal()
    elif kind == "basis":
        v = np.zeros(dim, dtype=complex)
        v[r.integers(dim)] = np.exp(1j * r.uniform(0, 6.28))
    else:
        v = np.ones(dim, dtype=complex)
    return v / np.linalg.norm(v)


def run(ctx, nmax_tie=None, nmax_or=None):
    gate_conventions(ctx)
    nmax_tie = nmax_tie or (6 if ctx.quick else 9)
    for n in range(1, nmax_tie + 1):
        pats = list(itertools.product([0, 1], repeat=n))
        if len(pats) > 32:
            pats = [pats[0], pats[-1]] + ctx.rng.sample(pats, 30)
        for pattern in pats:
            for classical in (True, False):
                tie_case(ctx, n, pattern, classical)
    boundary_cases(ctx)
    nmax_or = nmax_or or (4 if ctx.quick else 5)
    for n in range(1, nmax_or + 1):
        pats = list(itertools.product([0, 1], repeat=n))
        if len(pats) > 8 and ctx.quick:
            pats = ctx.rng.sample(pats, 8)
        for pattern in pats:
            for classical in (True, False):
                for kind in ("haar", "sparse", "basis", "uniform"):
                    ms = rand_state(ctx, 2 ** n, kind)
                    key = f"pqm:n={n}:p={''.join(map(str, pattern))}:{int(classical)}:{kind}"
                    oracle_case(ctx, n, pattern, classical, ms, key)
        # argument forms: numpy-integer / bool / tuple patterns, is_classical_pattern left at its default
        if n <= 3:
            for form in FORMS[1:]:
                pattern = [ctx.rng.randint(0, 1) for _ in range(n)]
                if form != "default-flag" and not any(pattern):
                    pattern[ctx.rng.randrange(n)] = 1
                classical = form != "default-flag"
                tie_case(ctx, n, pattern, classical, form)
                oracle_case(ctx, n, pattern, classical, rand_state(ctx, 2 ** n, "haar"),
                            f"pqm:n={n}:p={''.join(map(str, pattern))}:{int(classical)}:form={form}", form=form)
                ctx.count("branch:argument-form:" + form)
        # superposed quantum pattern
        ms = rand_state(ctx, 2 ** n, "haar")
        ps = rand_state(ctx, 2 ** n, "haar")
        oracle_case(ctx, n, [0] * n, False, ms, f"pqm:n={n}:superposed-pattern",
                    pat_state={p: c for p, c in enumerate(ps)})


BOUNDARIES = {
    "pqm.py:54 size = len(q_memory)": "n = 1, 2, 3, 4 (all structured patterns), 5 and 6 (classical), 5 (quantum, 11 qubits)",
    "pqm.py:58/72 if is_classical_pattern": "True / False / left at its default, same patterns and memories on both entry points",
    "pqm.py:59-61, 73-75 enumerate(q_memory) / [::-1], pattern[k] == 1": "all-zeros, all-ones, a single 1 and a single 0 at every "
        "position (first and last index of both loops), bits given as int / numpy int / bool",
    "pqm.py:67 -pi / (2 * size), :70 pi / size": "memory a basis state at Hamming distance 0, 1 (first / last bit), n-1, n from the "
        "pattern (aux reads 0 with probability 1, cos^2(pi/2n), sin^2(pi/2n), 0) and the uniform superposition; an off-by-one in "
        "either denominator moves every one of these except d = 0",
}


def structured_patterns(n):
    pats = [[0] * n, [1] * n]
    for k in range(n):
        pats.append([int(j == k) for j in range(n)])
        pats.append([int(j != k) for j in range(n)])
    seen, out = set(), []
    for p in pats:
        if tuple(p) not in seen:
            seen.add(tuple(p))
            out.append(p)
    return out


def boundary_cases(ctx, nmax_q=None):
    """boundary-value inputs (see BOUNDARIES): structured patterns x memories at the extreme Hamming distances, on the
    classical and on the quantum entry point, tie and oracle."""
    nmax_q = nmax_q or 5
    for n in range(1, 7):
        full = (1 << n) - 1
        for pattern in structured_patterns(n):
            if n >= 5 and sum(pattern) not in (0, n) and pattern[0] == pattern[-1]:
                continue                      # n = 5, 6: all-zeros, all-ones, single 1 / single 0 at the first and last index
            pint = sum(b << k for k, b in enumerate(pattern))
            mems = {"d=0": pint, "d=n": pint ^ full, "d=1:first": pint ^ 1, "d=1:last": pint ^ (1 << (n - 1)),
                    "d=n-1": pint ^ full ^ 1}
            for classical in (True, False):
                if not classical and n > nmax_q:
                    continue
                if not classical and n == 5 and sum(pattern) not in (0, n, 1):
                    continue
                tie_case(ctx, n, pattern, classical)
                pstr = "".join(map(str, pattern))
                for name, m in mems.items():
                    v = np.zeros(2 ** n, dtype=complex)
                    v[m] = [1.0, -1.0, 1j, np.exp(0.7j)][(m + n) % 4]
                    oracle_case(ctx, n, pattern, classical, v, f"pqm:bv:n={n}:p={pstr}:{int(classical)}:{name}")
                    ctx.count(f"boundary:memory basis state at {name} ({'classical' if classical else 'quantum'})")
                oracle_case(ctx, n, pattern, classical, np.ones(2 ** n, dtype=complex) / math.sqrt(2 ** n),
                            f"pqm:bv:n={n}:p={pstr}:{int(classical)}:uniform")
                # two stored strings: the pattern itself and its complement (distances 0 and n in superposition)
                v = np.zeros(2 ** n, dtype=complex)
                v[pint], v[pint ^ full] = 0.6, 0.8j
                oracle_case(ctx, n, pattern, classical, v, f"pqm:bv:n={n}:p={pstr}:{int(classical)}:d=0+d=n")
                kind = ("all-zeros" if sum(pattern) == 0 else "all-ones" if sum(pattern) == n else
                        "single-one" if sum(pattern) == 1 else "single-zero")
                ctx.count(f"boundary:pattern {kind} n={n}")
    # total probability of reading 0 at the extreme distances, evaluated directly (d = 0 -> 1, d = n -> 0)
    from qiskit.quantum_info import Statevector
    for n in (1, 2, 3, 4):
        for classical in (True, False):
            for pattern in ([0] * n, [1] * n, [1] + [0] * (n - 1), [0] * (n - 1) + [1]):
                pint = sum(b << k for k, b in enumerate(pattern))
                for m, want in ((pint, 1.0), (pint ^ ((1 << n) - 1), 0.0)):
                    circ, w = build(n, pattern, classical)
                    init = np.zeros(2 ** circ.num_qubits, dtype=complex)
                    init[m if classical else (pint | (m << n))] = 1.0
                    pr = np.abs(Statevector(init).evolve(circ).data) ** 2
                    p0 = float(sum(x for i, x in enumerate(pr) if not (i >> w["aux"]) & 1))
                    key = f"pqm:bv:aux0:n={n}:p={''.join(map(str, pattern))}:{int(classical)}:m={m}"
                    if abs(p0 - want) > 1e-9:
                        ctx.fail(key, f"P(aux = 0) = {p0} instead of {want}",
                                 {"call": "qclib.memory.pqm.initialize", "n": n, "pattern": list(pattern), "classical": classical,
                                  "memory": [[float(i == m), 0.0] for i in range(2 ** n)], "form": "plain"})
                    else:
                        ctx.ok(key, nontrivial=False)
                    ctx.count("boundary:P(aux=0) exactly 1 / exactly 0")


def search(ctx, hints):
    run(ctx, nmax_tie=1, nmax_or=5)


def replay(ctx, payload):
    r = payload["replay"]
    ms = np.array([complex(a, b) for a, b in r["memory"]])
    oracle_case(ctx, r["n"], r["pattern"], r["classical"], ms, payload["key"], form=r.get("form", "plain"))
