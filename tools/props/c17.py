"""C17 — probabilistic quantum memory (qclib/memory/pqm.py)."""
import itertools
import math
import numpy as np

CLAIMED = True
TECHNIQUE = "Lean 4 proof (induction over the register, all n) of the closed form of the retrieval circuit in amplitude-function semantics, cosine law over C from Mathlib; gate-list correspondence with pqm.py; Statevector oracle"
LEVEL_TEXT = ("Full proof for the model: for every n>=1, classical or quantum pattern, every wire layout and every input state, the "
              "circuit's output amplitudes have the closed form pqmIdeal (C17_general); with the code's angles and the auxiliary in |0> "
              "the squared amplitudes follow cos^2(pi d/2n) label by label and memory/pattern marginals are unchanged (C17_law, "
              "C17_marginals). Tie: gate lists of pqm.initialize diffed against the model for all patterns n<=6 (9 thorough); oracle: "
              "exact probabilities on superposed memories and superposed quantum patterns.")
LEVEL_NOTE = ("Trusted: Lean kernel (standard axioms), hand model <-> pqm.py beyond explored n (the loops are uniform in n), qiskit "
              "h/x/cx/p/cp matrices (checked numerically each run), float angles -pi/(2n), pi/n vs exact reals.")
LEAN_TARGETS = ["QclibModel.Props.C17"]
THEOREMS = ["Qclib.C17_general", "Qclib.C17_law", "Qclib.C17_marginals"]
TRUSTED = [
    "qiskit h/x/cx/p/cp matrices equal matH/X/matP of Sem/Denote.lean (validated numerically each run)",
    "float: -np.pi/(2*size) and np.pi/size are compared to the model's parameters to 1e-9",
]
ASSUMPTIONS = ["exact complex arithmetic in the theorem; implementation compared to 1e-9",
               "the auxiliary qubit starts in |0> (C17_law / C17_marginals)"]
RULE = ("tie: (n, classical?, pattern) whose gate list was diffed against the Lean model; oracle: exact "
        "probabilities from Statevector for random superposed memories vs the cosine law, memory and "
        "pattern marginals unchanged; non-trivial = memory with >=2 non-zero amplitudes and pattern at "
        "non-zero distance from some stored string")


UNREACHED_JUSTIFIED = {}   # pqm.py: every statement and branch outcome is reached in the quick tier

FORMS = ("plain", "np-int", "bool", "tuple", "default-flag")


def build(n, pattern, classical, memory_vec=None, pattern_vec=None, form="plain"):
    from qiskit import QuantumCircuit, QuantumRegister
    from qclib.memory import pqm
    qm = QuantumRegister(n, "m")
    qa = QuantumRegister(1, "a")
    if classical:
        circ = QuantumCircuit(qm, qa)
        pat = list(pattern)
        if form == "np-int":        # the `pattern[k] == 1` test on numpy integers / bools / a tuple
            pat = np.array(pat, dtype=np.int64)
        elif form == "bool":
            pat = [bool(b) for b in pat]
        elif form == "tuple":
            pat = tuple(pat)
        pqm.initialize(circ, pat, qm, qa[0], is_classical_pattern=True)
        wires = dict(mem=list(range(n)), pat=[0] * n, aux=n)
    else:
        qp = QuantumRegister(n, "p")
        circ = QuantumCircuit(qp, qm, qa)
        if form == "default-flag":  # is_classical_pattern left at its default
            pqm.initialize(circ, qp, qm, qa[0])
        else:
            pqm.initialize(circ, qp, qm, qa[0], is_classical_pattern=False)
        wires = dict(pat=list(range(n)), mem=list(range(n, 2 * n)), aux=2 * n)
    return circ, wires


def hamming(a, b, n):
    return bin((a ^ b) & ((1 << n) - 1)).count("1")


def oracle_case(ctx, n, pattern, classical, mem_state, key, pat_state=None, form="plain"):
    """mem_state: complex vector length 2^n (memory); pattern: list of bits (little-endian: bit k ↔ qubit k)."""
    from qiskit.quantum_info import Statevector
    circ, w = build(n, pattern, classical, form=form)
    pint = sum(b << k for k, b in enumerate(pattern))
    nq = circ.num_qubits
    init = np.zeros(2 ** nq, dtype=complex)
    if classical:
        for m, a in enumerate(mem_state):
            init[m] = a
    else:
        ps = pat_state if pat_state is not None else {pint: 1.0}
        for p, c in ps.items():
            for m, a in enumerate(mem_state):
                init[p | (m << n)] = a * c
    out = Statevector(init).evolve(circ).data
    probs = np.abs(out) ** 2
    aux = w["aux"]
    # cosine law and marginals, label by label
    worst = 0.0
    for idx in range(2 ** nq):
        if (idx >> aux) & 1:
            continue
        if classical:
            m, p = idx & (2 ** n - 1), pint
        else:
            p, m = idx & (2 ** n - 1), (idx >> n) & (2 ** n - 1)
        d = hamming(m, p, n)
        p0 = abs(init[idx]) ** 2
        e0 = abs(probs[idx] - p0 * math.cos(math.pi * d / (2 * n)) ** 2)
        e1 = abs(probs[idx | (1 << aux)] - p0 * math.sin(math.pi * d / (2 * n)) ** 2)
        worst = max(worst, e0, e1)
    rep = {"call": "qclib.memory.pqm.initialize", "n": n, "pattern": list(pattern), "classical": classical,
           "memory": [[float(np.real(a)), float(np.imag(a))] for a in mem_state], "worst_abs_err": worst, "form": form}
    nz = int(np.sum(np.abs(mem_state) > 1e-12))
    if worst > 1e-9:
        ctx.fail(key, f"cosine law / marginal violated by {worst:.3e}", rep)
    else:
        ctx.ok(key, nontrivial=nz >= 2, sample={"n": n, "pattern": list(pattern), "classical": classical,
                                                "memory_nonzeros": nz, "worst_abs_err": worst})


def gate_conventions(ctx):
    from qiskit.circuit.library import HGate, PhaseGate, CPhaseGate, XGate
    t = 0.37
    ctx.assumption_checks += 3
    if np.abs(PhaseGate(t).to_matrix() - np.diag([1, np.exp(1j * t)])).max() > 1e-12 or \
       np.abs(CPhaseGate(t).to_matrix() - np.diag([1, 1, 1, np.exp(1j * t)])).max() > 1e-12 or \
       np.abs(HGate().to_matrix() - np.array([[1, 1], [1, -1]]) / math.sqrt(2)).max() > 1e-12:
        ctx.fail("assumption:gate-matrix", "p/cp/h matrix convention changed", kind="assumption")


def tie_case(ctx, n, pattern, classical, form="plain"):
    from flatten import flatten, to_lines
    circ, w = build(n, pattern, classical, form=form)
    ctx.tie({"op": "pqm", "n": n, "classical": classical, "pattern": list(pattern), "mem": w["mem"],
             "pat": w["pat"], "aux": w["aux"], "theta_m": -math.pi / (2 * n), "theta_c": math.pi / n},
            to_lines(flatten(circ)))


def rand_state(ctx, dim, kind):
    r = ctx.nprng()
    if kind == "haar":
        v = r.normal(size=dim) + 1j * r.normal(size=dim)
    elif kind == "sparse":
        v = np.zeros(dim, dtype=complex)
        for i in r.choice(dim, size=min(dim, max(2, dim // 3)), replace=False):
            v[i] = r.normal() + 1j * r.normal()
    elif kind == "basis":
        v = np.zeros(dim, dtype=complex)
        v[r.integers(dim)] = np.exp(1j * r.uniform(0, 6.28))
    else:
        v = np.ones(dim, dtype=complex)
    return v / np.linalg.norm(v)


def run(ctx, nmax_tie=None, nmax_or=None):
    gate_conventions(ctx)
    nmax_tie = nmax_tie or (6 if ctx.quick else 9)
    for n in range(1, nmax_tie + 1):
        pats = list(itertools.product([0, 1], repeat=n))
        if len(pats) > 32:
            pats = [pats[0], pats[-1]] + ctx.rng.sample(pats, 30)
        for pattern in pats:
            for classical in (True, False):
                tie_case(ctx, n, pattern, classical)
    boundary_cases(ctx)
    _diversity_cases(ctx)
    nmax_or = nmax_or or (4 if ctx.quick else 5)
    for n in range(1, nmax_or + 1):
        pats = list(itertools.product([0, 1], repeat=n))
        if len(pats) > 8 and ctx.quick:
            pats = ctx.rng.sample(pats, 8)
        for pattern in pats:
            for classical in (True, False):
                for kind in ("haar", "sparse", "basis", "uniform"):
                    ms = rand_state(ctx, 2 ** n, kind)
                    key = f"pqm:n={n}:p={''.join(map(str, pattern))}:{int(classical)}:{kind}"
                    oracle_case(ctx, n, pattern, classical, ms, key)
        # argument forms: numpy-integer / bool / tuple patterns, is_classical_pattern left at its default
        if n <= 3:
            for form in FORMS[1:]:
                pattern = [ctx.rng.randint(0, 1) for _ in range(n)]
                if form != "default-flag" and not any(pattern):
                    pattern[ctx.rng.randrange(n)] = 1
                classical = form != "default-flag"
                tie_case(ctx, n, pattern, classical, form)
                oracle_case(ctx, n, pattern, classical, rand_state(ctx, 2 ** n, "haar"),
                            f"pqm:n={n}:p={''.join(map(str, pattern))}:{int(classical)}:form={form}", form=form)
                ctx.count("branch:argument-form:" + form)
        # superposed quantum pattern
        ms = rand_state(ctx, 2 ** n, "haar")
        ps = rand_state(ctx, 2 ** n, "haar")
        oracle_case(ctx, n, [0] * n, False, ms, f"pqm:n={n}:superposed-pattern",
                    pat_state={p: c for p, c in enumerate(ps)})


BOUNDARIES = {
    "pqm.py:54 size = len(q_memory)": "n = 1, 2, 3, 4 (all structured patterns), 5 and 6 (classical), 5 (quantum, 11 qubits)",
    "pqm.py:58/72 if is_classical_pattern": "True / False / left at its default, same patterns and memories on both entry points",
    "pqm.py:59-61, 73-75 enumerate(q_memory) / [::-1], pattern[k] == 1": "all-zeros, all-ones, a single 1 and a single 0 at every "
        "position (first and last index of both loops), bits given as int / numpy int / bool",
    "pqm.py:67 -pi / (2 * size), :70 pi / size": "memory a basis state at Hamming distance 0, 1 (first / last bit), n-1, n from the "
        "pattern (aux reads 0 with probability 1, cos^2(pi/2n), sin^2(pi/2n), 0) and the uniform superposition; an off-by-one in "
        "either denominator moves every one of these except d = 0",
}


def structured_patterns(n):
    pats = [[0] * n, [1] * n]
    for k in range(n):
        pats.append([int(j == k) for j in range(n)])
        pats.append([int(j != k) for j in range(n)])
    seen, out = set(), []
    for p in pats:
        if tuple(p) not in seen:
            seen.add(tuple(p))
            out.append(p)
    return out


def boundary_cases(ctx, nmax_q=None):
    """boundary-value inputs (see BOUNDARIES): structured patterns x memories at the extreme Hamming distances, on the
    classical and on the quantum entry point, tie and oracle."""
    nmax_q = nmax_q or 5
    for n in range(1, 7):
        full = (1 << n) - 1
        for pattern in structured_patterns(n):
            if n >= 5 and sum(pattern) not in (0, n) and pattern[0] == pattern[-1]:
                continue                      # n = 5, 6: all-zeros, all-ones, single 1 / single 0 at the first and last index
            pint = sum(b << k for k, b in enumerate(pattern))
            mems = {"d=0": pint, "d=n": pint ^ full, "d=1:first": pint ^ 1, "d=1:last": pint ^ (1 << (n - 1)),
                    "d=n-1": pint ^ full ^ 1}
            for classical in (True, False):
                if not classical and n > nmax_q:
                    continue
                if not classical and n == 5 and sum(pattern) not in (0, n, 1):
                    continue
                tie_case(ctx, n, pattern, classical)
                pstr = "".join(map(str, pattern))
                for name, m in mems.items():
                    v = np.zeros(2 ** n, dtype=complex)
                    v[m] = [1.0, -1.0, 1j, np.exp(0.7j)][(m + n) % 4]
                    oracle_case(ctx, n, pattern, classical, v, f"pqm:bv:n={n}:p={pstr}:{int(classical)}:{name}")
                    ctx.count(f"boundary:memory basis state at {name} ({'classical' if classical else 'quantum'})")
                oracle_case(ctx, n, pattern, classical, np.ones(2 ** n, dtype=complex) / math.sqrt(2 ** n),
                            f"pqm:bv:n={n}:p={pstr}:{int(classical)}:uniform")
                # two stored strings: the pattern itself and its complement (distances 0 and n in superposition)
                v = np.zeros(2 ** n, dtype=complex)
                v[pint], v[pint ^ full] = 0.6, 0.8j
                oracle_case(ctx, n, pattern, classical, v, f"pqm:bv:n={n}:p={pstr}:{int(classical)}:d=0+d=n")
                kind = ("all-zeros" if sum(pattern) == 0 else "all-ones" if sum(pattern) == n else
                        "single-one" if sum(pattern) == 1 else "single-zero")
                ctx.count(f"boundary:pattern {kind} n={n}")
    # total probability of reading 0 at the extreme distances, evaluated directly (d = 0 -> 1, d = n -> 0)
    from qiskit.quantum_info import Statevector
    for n in (1, 2, 3, 4):
        for classical in (True, False):
            for pattern in ([0] * n, [1] * n, [1] + [0] * (n - 1), [0] * (n - 1) + [1]):
                pint = sum(b << k for k, b in enumerate(pattern))
                for m, want in ((pint, 1.0), (pint ^ ((1 << n) - 1), 0.0)):
                    circ, w = build(n, pattern, classical)
                    init = np.zeros(2 ** circ.num_qubits, dtype=complex)
                    init[m if classical else (pint | (m << n))] = 1.0
                    pr = np.abs(Statevector(init).evolve(circ).data) ** 2
                    p0 = float(sum(x for i, x in enumerate(pr) if not (i >> w["aux"]) & 1))
                    key = f"pqm:bv:aux0:n={n}:p={''.join(map(str, pattern))}:{int(classical)}:m={m}"
                    if abs(p0 - want) > 1e-9:
                        ctx.fail(key, f"P(aux = 0) = {p0} instead of {want}",
                                 {"call": "qclib.memory.pqm.initialize", "n": n, "pattern": list(pattern), "classical": classical,
                                  "memory": [[float(i == m), 0.0] for i in range(2 ** n)], "form": "plain"})
                    else:
                        ctx.ok(key, nontrivial=False)
                    ctx.count("boundary:P(aux=0) exactly 1 / exactly 0")


# ------------------------------------------------------------------------------------------------
# input-diversity section: register orders, argument kinds, bit types, call forms
# ------------------------------------------------------------------------------------------------

DIVERSITY = {
    "element types": "classical pattern bits as python int list / tuple / bool list / numpy int64, int8, uint8, bool_ arrays / list of "
                     "numpy scalars",
    "call forms": "every order of the registers (pattern, memory, aux) on the circuit, with and without a spectator qubit in front / "
                  "between; q_memory and the quantum pattern given as QuantumRegister / list of Qubit objects / list of integer "
                  "indices / permuted and non-contiguous sub-lists of wider registers; q_auxiliary as Qubit / one-qubit register / "
                  "integer index; all arguments by keyword; is_classical_pattern positional / keyword / default; two retrievals of "
                  "different sizes on one circuit",
    "scale / phase of the memory": "heavy head + light tail (1e-3 .. 1e-6), all-equal moduli with phases +-1, +-i, negative reals, "
                                   "purely imaginary, a single stored string (the memory enters linearly; compared label by label)",
    "sizes": "n = 1, 2, 3 (every layout), 4 (sampled)",
}
BIT_FORMS = {
    "int-list": lambda b: [int(x) for x in b], "tuple": lambda b: tuple(int(x) for x in b), "bool-list": lambda b: [bool(x) for x in b],
    "np-int64": lambda b: np.array(b, dtype=np.int64), "np-int8": lambda b: np.array(b, dtype=np.int8),
    "np-uint8": lambda b: np.array(b, dtype=np.uint8), "np-bool": lambda b: np.array(b, dtype=bool),
    "list-np-int64": lambda b: [np.int64(x) for x in b], "list-np-bool": lambda b: [np.bool_(x) for x in b],
}
ARG_KINDS = ("register", "qubits", "ints")
LAYOUTS_Q = [("p", "m", "a"), ("m", "a", "p"), ("a", "m", "p"), ("a", "p", "m"), ("m", "p", "a"), ("p", "a", "m"),
             ("s", "p", "m", "a"), ("m", "s", "a", "p"), ("a", "s", "p", "m")]
LAYOUTS_C = [("m", "a"), ("a", "m"), ("s", "m", "a"), ("a", "s", "m"), ("m", "s", "a")]


def build_layout(n, pattern, classical, layout, kinds, perm=None, wide=False, bitform="int-list", callform="positional"):
    """host circuit with the registers declared in `layout` order ('s' = one spectator qubit); kinds = (memory, pattern, aux) argument
    kinds; perm = order in which the n memory (and pattern) qubits are handed over; wide = memory / pattern registers have n + 1
    qubits of which n are used.  Returns (circuit, wires dict)."""
    from qiskit import QuantumCircuit, QuantumRegister
    from qclib.memory import pqm
    size = n + 1 if wide else n
    regs = {"m": QuantumRegister(size, "m"), "a": QuantumRegister(1, "a"), "s": QuantumRegister(1, "s")}
    if not classical:
        regs["p"] = QuantumRegister(size, "p")
    circ = QuantumCircuit(*[regs[x] for x in layout])
    perm = list(perm) if perm is not None else list(range(n))
    idx = lambda q: circ.find_bit(q).index
    m_q = [regs["m"][j] for j in perm]
    mk, pk, ak = kinds

    def arg(reg, qs, kind):
        if kind == "register":
            return reg
        if kind == "ints":
            return [idx(q) for q in qs]
        return list(qs)
    q_memory = arg(regs["m"], m_q, mk)
    q_aux = regs["a"] if ak == "register" else idx(regs["a"][0]) if ak == "ints" else regs["a"][0]
    if classical:
        pat = BIT_FORMS[bitform](pattern)
        p_wires = [0] * n
    else:
        p_q = [regs["p"][j] for j in (perm[::-1] if wide else perm)]      # an independent order when the registers are wide
        pat = arg(regs["p"], p_q, pk)
        p_wires = [idx(q) for q in p_q]
    if callform == "keyword":
        pqm.initialize(circuit=circ, pattern=pat, q_memory=q_memory, q_auxiliary=q_aux, is_classical_pattern=classical)
    elif callform == "positional-flag":
        pqm.initialize(circ, pat, q_memory, q_aux, classical)
    elif callform == "default-flag" and not classical:
        pqm.initialize(circ, pat, q_memory, q_aux)
    elif callform in ("npbool-flag", "int-flag"):      # a truthy / falsy flag that is not the singleton True / False
        import numpy as _np
        pqm.initialize(circ, pat, q_memory, q_aux, is_classical_pattern=(_np.bool_ if callform == "npbool-flag" else int)(classical))
    else:
        pqm.initialize(circ, pat, q_memory, q_aux, is_classical_pattern=classical)
    wires = dict(mem=[idx(q) for q in m_q], pat=p_wires, aux=idx(regs["a"][0]),
                 spect=[idx(regs["s"][0])] if "s" in layout else [])
    return circ, wires


def _bits_at(idx, wires):
    return sum(((idx >> w) & 1) << k for k, w in enumerate(wires))


def _place(val, wires):
    return sum(((val >> k) & 1) << w for k, w in enumerate(wires))


def layout_oracle(ctx, key, rep, circ, w, n, pattern, classical, mem_state, pat_state=None):
    """label by label: P(label, aux=0) = p0 cos^2(pi d / 2n), P(label, aux=1) = p0 sin^2, nothing anywhere else (spectators and unused
    qubits untouched); pattern bit k pairs with memory qubit k of the handed-over lists"""
    from qiskit.quantum_info import Statevector
    nq = circ.num_qubits
    pint = sum(int(b) << k for k, b in enumerate(pattern))
    init = np.zeros(2 ** nq, dtype=complex)
    sp = sum(1 << x for x in w["spect"])               # spectator in |1>
    ps = {pint: 1.0} if classical or pat_state is None else pat_state
    for pv, c in ps.items():
        for m, a in enumerate(mem_state):
            init[sp | _place(m, w["mem"]) | (0 if classical else _place(pv, w["pat"]))] += a * c
    out = Statevector(init).evolve(circ).data
    probs = np.abs(out) ** 2
    want = np.zeros(2 ** nq)
    aux = w["aux"]
    for idx in np.nonzero(init)[0]:
        idx = int(idx)
        m = _bits_at(idx, w["mem"])
        pv = pint if classical else _bits_at(idx, w["pat"])
        d = hamming(m, pv, n)
        p0 = abs(init[idx]) ** 2
        want[idx] += p0 * math.cos(math.pi * d / (2 * n)) ** 2
        want[idx | (1 << aux)] += p0 * math.sin(math.pi * d / (2 * n)) ** 2
    worst = float(np.abs(probs - want).max())
    # total probability of reading 0 on the auxiliary
    p_aux0 = float(sum(x for i, x in enumerate(probs) if not (i >> aux) & 1))
    w_aux0 = float(sum(x for i, x in enumerate(want) if not (i >> aux) & 1))
    rep = dict(rep, worst_abs_err=worst)
    if worst > 1e-9 or abs(p_aux0 - w_aux0) > 1e-9:
        ctx.fail(key, f"cosine law / marginals violated by {worst:.3e}; P(aux=0) = {p_aux0:.9f}, law {w_aux0:.9f}", rep)
    else:
        nz = int(np.sum(np.abs(mem_state) > 1e-12))
        ctx.ok(key, nontrivial=nz >= 2, sample={"n": n, "pattern": [int(b) for b in pattern], "classical": classical,
                                                "layout": rep.get("layout"), "worst_abs_err": worst})


def layout_case(ctx, name, n, pattern, classical, mem_state, layout, kinds=("register", "register", "qubits"), perm=None, wide=False,
                bitform="int-list", callform="keyword-flag", pat_state=None, tie=True):
    from flatten import flatten, to_lines
    pattern = [int(b) for b in pattern]
    tag = (f"{''.join(layout)}:{kinds[0]}-{kinds[1]}-{kinds[2]}:perm={''.join(map(str, perm)) if perm else 'id'}:"
           f"{'wide' if wide else 'tight'}:{bitform}:{callform}")
    key = f"pqm:div:n={n}:p={''.join(map(str, pattern))}:{int(classical)}:{tag}"
    rep = {"call": "qclib.memory.pqm.initialize", "div": True, "name": name, "n": n, "pattern": pattern, "classical": classical,
           "memory": [[float(np.real(a)), float(np.imag(a))] for a in mem_state], "layout": list(layout), "kinds": list(kinds),
           "perm": None if perm is None else list(perm), "wide": wide, "bitform": bitform, "callform": callform,
           "pat_state": None if pat_state is None else [[int(k), float(np.real(c)), float(np.imag(c))] for k, c in pat_state.items()]}
    for c in ("diversity:" + name, "diversity:layout:" + "".join(layout), "diversity:args:" + "-".join(kinds),
              "diversity:bits:" + bitform, "diversity:call:" + callform):
        ctx.count(c)
    try:
        circ, w = build_layout(n, pattern, classical, layout, kinds, perm, wide, bitform, callform)
    except Exception as e:
        ctx.fail(key + ":raises", f"{type(e).__name__}: {e}", rep)
        return
    if tie:
        ctx.tie({"op": "pqm", "n": n, "classical": classical, "pattern": pattern, "mem": w["mem"], "pat": w["pat"], "aux": w["aux"],
                 "theta_m": -math.pi / (2 * n), "theta_c": math.pi / n}, to_lines(flatten(circ)))
    layout_oracle(ctx, key, rep, circ, w, n, pattern, classical, mem_state, pat_state)


def _memory_forms(ctx, n):
    """memories of different scale / phase structure (name, vector)"""
    r = ctx.nprng()
    N = 2 ** n
    out = []
    for where in ("start", "end"):
        v = np.array([10.0 ** (-3 - 3 * j / max(1, N - 2)) * [1, -1, 1j, -1j][j % 4] for j in range(N)], dtype=complex)
        v[0 if where == "start" else N - 1] = -0.8
        if N > 2:
            v[1 if where == "start" else N - 2] = 0.6j
        out.append(("head-tail-" + where, v / np.linalg.norm(v)))
    out.append(("equal-moduli-4-phases", np.array([[1, -1, 1j, -1j][int(r.integers(4))] for _ in range(N)], dtype=complex) / math.sqrt(N)))
    out.append(("all-negative", -np.abs(r.normal(size=N)) / 1.0))
    out.append(("imaginary", 1j * r.normal(size=N)))
    one = np.zeros(N, dtype=complex)
    one[int(r.integers(N))] = -1.0
    out.append(("single-string", one))
    return [(nm, np.asarray(v, dtype=complex) / np.linalg.norm(v)) for nm, v in out]


def _diversity_cases(ctx):
    rng = ctx.rng

    def rnd_pattern(n, asym=True):
        for _ in range(50):
            pt = [rng.randint(0, 1) for _ in range(n)]
            if not asym or n == 1 or (pt != pt[::-1] and any(pt)):
                return pt
        return [1] + [0] * (n - 1)

    # ---- register orders x argument kinds (quantum and classical pattern), n = 1, 2, 3; sampled at n = 4
    for n in (1, 2, 3, 4):
        for classical, layouts in ((False, LAYOUTS_Q), (True, LAYOUTS_C)):
            for li, layout in enumerate(layouts):
                if n == 4 and (li % 3 != rng.randrange(3) or (not classical and "s" in layout)):
                    continue
                for ki in range(3):
                    kinds = (ARG_KINDS[(ki + li) % 3], ARG_KINDS[(ki + 2 * li + 1) % 3], ARG_KINDS[(2 * ki + li) % 3])
                    perm = None
                    if kinds[0] != "register" and kinds[1] != "register" and n >= 2:
                        perm = rng.sample(range(n), n)
                        if perm == sorted(perm):
                            perm = perm[::-1]
                    elif kinds[0] == "register" or (kinds[1] == "register" and not classical):
                        kinds = ("register", "register" if not classical else kinds[1], kinds[2])   # both whole registers, same order
                    pattern = rnd_pattern(n)
                    ms = rand_state(ctx, 2 ** n, rng.choice(["haar", "sparse"]))
                    callform = ["keyword-flag", "keyword", "positional-flag", "default-flag"][(li + ki + n) % 4]
                    layout_case(ctx, "register order x argument kind", n, pattern, classical, ms, layout, kinds, perm,
                                callform=callform)
                    if n >= 4:
                        break
    # ---- permuted, non-contiguous sub-lists of wider registers (n of n + 1 qubits, memory and pattern lists in different orders)
    for n in (1, 2, 3):
        for classical in (True, False):
            for layout in (("p", "m", "a"), ("a", "m", "p")) if not classical else (("a", "m"), ("m", "s", "a")):
                perm = rng.sample(range(n + 1), n)
                for kinds in (("qubits", "qubits", "qubits"), ("ints", "ints", "ints"), ("qubits", "ints", "register")):
                    layout_case(ctx, "sub-lists of wider registers", n, rnd_pattern(n), classical, rand_state(ctx, 2 ** n, "haar"),
                                layout, kinds, perm, wide=True)
    # ---- type of the flag: numpy.bool_ (what np.all / a comparison returns) and int 1 / 0, both branches, memory not first
    for n in (1, 2, 3):
        for fi, flagform in enumerate(("npbool-flag", "int-flag")):
            for classical in (True, False):
                lays = LAYOUTS_C if classical else LAYOUTS_Q
                for li in range(2):
                    layout = lays[(fi + n + 2 * li + 1) % len(lays)]
                    layout_case(ctx, "type of the flag", n, rnd_pattern(n), classical, rand_state(ctx, 2 ** n, "haar"), layout,
                                ("register", "register", "register"), callform=flagform)
    # ---- bit types of the classical pattern, on a layout where the memory is not first
    for n in (1, 2, 3):
        for bi, bitform in enumerate(BIT_FORMS):
            layout = LAYOUTS_C[(bi + n) % len(LAYOUTS_C)]
            pattern = rnd_pattern(n)
            layout_case(ctx, "bit type of the classical pattern", n, pattern, True, rand_state(ctx, 2 ** n, "haar"), layout,
                        ("register", "register", ARG_KINDS[bi % 3]), bitform=bitform)
            layout_case(ctx, "bit type of the classical pattern", n, [0] * n if bi % 2 else [1] * n, True,
                        rand_state(ctx, 2 ** n, "sparse"), layout, ("qubits", "register", "qubits"), bitform=bitform)
    # ---- scale / phase structure of the memory and a superposed quantum pattern on a non-default register order
    for n in (1, 2, 3):
        for nm, v in _memory_forms(ctx, n):
            for classical in (True, False):
                layout = rng.choice(LAYOUTS_C[1:] if classical else LAYOUTS_Q[1:6])
                layout_case(ctx, "memory " + nm, n, rnd_pattern(n, asym=False), classical, v, layout, ("qubits", "qubits", "qubits"))
        ps = rand_state(ctx, 2 ** n, "haar")
        layout_case(ctx, "superposed quantum pattern, register order m a p", n, [0] * n, False, rand_state(ctx, 2 ** n, "haar"),
                    ("m", "a", "p"), ("register", "register", "qubits"), pat_state={k: c for k, c in enumerate(ps)})
        layout_case(ctx, "superposed quantum pattern, permuted int lists", n, [0] * n, False, rand_state(ctx, 2 ** n, "haar"),
                    ("a", "p", "m"), ("ints", "ints", "ints"), perm=list(range(n))[::-1], pat_state={k: c for k, c in enumerate(ps)})
    # ---- two retrievals of different sizes on one circuit (nothing may be remembered between calls)
    two_calls(ctx)


def two_calls(ctx):
    from qiskit import QuantumCircuit, QuantumRegister
    from qiskit.quantum_info import Statevector
    from qclib.memory import pqm
    rng = ctx.rng
    for (n1, n2) in ((1, 2), (2, 1), (2, 3), (3, 2)):
        for classical in (True, False):
            ctx.count("diversity:two retrievals of different sizes on one circuit")
            p1 = [rng.randint(0, 1) for _ in range(n1)]
            p2 = [rng.randint(0, 1) for _ in range(n2)]
            p2[0] = 1
            key = f"pqm:div:two-calls:n={n1},{n2}:p={''.join(map(str, p1))},{''.join(map(str, p2))}:{int(classical)}"
            rep = {"call": "qclib.memory.pqm.initialize x2", "two_calls": True, "n1": n1, "n2": n2, "p1": p1, "p2": p2, "classical": classical}
            a, m1, m2 = QuantumRegister(2, "a"), QuantumRegister(n1, "m1"), QuantumRegister(n2, "m2")
            try:
                if classical:
                    circ = QuantumCircuit(a, m1, m2)
                    pqm.initialize(circ, p1, m1, a[0], is_classical_pattern=True)
                    pqm.initialize(circ, p2, m2, a[1], is_classical_pattern=True)
                    ref = []
                    for (nn, pp, aw, mw) in ((n1, p1, 0, list(range(2, 2 + n1))), (n2, p2, 1, list(range(2 + n1, 2 + n1 + n2)))):
                        c1 = QuantumCircuit(a, m1, m2)
                        pqm.initialize(c1, pp, [c1.qubits[i] for i in mw], c1.qubits[aw], is_classical_pattern=True)
                        ref.append(c1)
                else:
                    q1, q2 = QuantumRegister(n1, "q1"), QuantumRegister(n2, "q2")
                    circ = QuantumCircuit(a, q1, m1, q2, m2)
                    for x, b in zip(q1, p1):
                        if b:
                            circ.x(x)
                    for x, b in zip(q2, p2):
                        if b:
                            circ.x(x)
                    pre = circ.copy()
                    pqm.initialize(circ, q1, m1, a[0])
                    pqm.initialize(circ, q2, m2, a[1])
                    ref = None
                nq = circ.num_qubits
                # memories: uniform superposition on both registers (H layer in front)
                front = QuantumCircuit(*circ.qregs)
                front.h(list(m1) + list(m2))
                out = Statevector(front.compose(circ)).data
                probs = np.abs(out) ** 2
                iw = lambda q: circ.find_bit(q).index
                want = np.zeros(2 ** nq)
                for v1 in range(2 ** n1):
                    for v2 in range(2 ** n2):
                        base = _place(v1, [iw(q) for q in m1]) | _place(v2, [iw(q) for q in m2])
                        if not classical:
                            base |= _place(sum(b << k for k, b in enumerate(p1)), [iw(q) for q in q1])
                            base |= _place(sum(b << k for k, b in enumerate(p2)), [iw(q) for q in q2])
                        d1 = hamming(v1, sum(b << k for k, b in enumerate(p1)), n1)
                        d2 = hamming(v2, sum(b << k for k, b in enumerate(p2)), n2)
                        p0 = 1.0 / 2 ** (n1 + n2)
                        for b1 in (0, 1):
                            for b2 in (0, 1):
                                f1 = (math.cos if b1 == 0 else math.sin)(math.pi * d1 / (2 * n1)) ** 2
                                f2 = (math.cos if b2 == 0 else math.sin)(math.pi * d2 / (2 * n2)) ** 2
                                want[base | b1 | (b2 << 1)] += p0 * f1 * f2
                worst = float(np.abs(probs - want).max())
            except Exception as e:
                ctx.fail(key + ":raises", f"{type(e).__name__}: {e}", rep)
                continue
            if worst > 1e-9:
                ctx.fail(key, f"two consecutive retrievals: joint distribution off by {worst:.3e}", rep)
            else:
                ctx.ok(key, nontrivial=True)


def search(ctx, hints):
    run(ctx, nmax_tie=1, nmax_or=5)


def replay(ctx, payload):
    r = payload["replay"]
    if r.get("two_calls"):
        two_calls(ctx)
        return
    ms = np.array([complex(a, b) for a, b in r["memory"]])
    if r.get("div"):
        ps = r.get("pat_state")
        layout_case(ctx, r.get("name", "replay"), r["n"], r["pattern"], r["classical"], ms, tuple(r["layout"]), tuple(r["kinds"]),
                    r.get("perm"), r.get("wide", False), r.get("bitform", "int-list"), r.get("callform", "keyword-flag"),
                    pat_state=None if not ps else {int(k): complex(a, b) for k, a, b in ps}, tie=False)
        return
    oracle_case(ctx, r["n"], r["pattern"], r["classical"], ms, payload["key"], form=r.get("form", "plain"))
