"""C07 — low-rank preparation yields the normalised rank-r' Schmidt truncation (qclib/state_preparation/lowrank.py)."""
import itertools
import math
import os
import numpy as np

CLAIMED = True
TECHNIQUE = ("Lean 4 proofs of the code-dependent part: rank rule (least power of two), register/qubit placement of "
             "LowRankInitialize against the reshape's bit layout (all n), overlap of the renormalised truncation with the "
             "target by finite sums over any field with conjugation; plan correspondence with lowrank.py by in-process "
             "observation; Statevector oracle against an independent numpy truncation. Eckart-Young optimality is cited, "
             "not proved.")
LEVEL_TEXT = ("Partial. Proved for the model, all sizes: r' = least power of two >= min(r, eff) with r=0 => eff, r' <= "
              "min(rows, cols), 2^ebits = r', and with sorted coefficients nothing above the threshold is dropped when r' >= "
              "eff (C07_rank_rule); under the SVD specification with orthonormal factors the overlap of the renormalised "
              "r'-term truncation with the target is N = sqrt(sum_{i<r'} s_i^2), |overlap|^2 = sum_{i<r'} s_i^2, the "
              "truncation has norm 1 and the target norm^2 sum_{i<k} s_i^2 (C07_fidelity); when the dropped coefficients "
              "vanish the truncation is v/N, i.e. v itself for a unit vector (C07_exact_when_full); the Plesch assembly "
              "(fan-out then U (x) V^T) has matrix sum_j U[:,j] t_j V[j,:] (C07_assembly); for every duplicate-free "
              "partition list in any order (the code sorts it first) the registers on which U and V^T are placed carry "
              "exactly the row/column bits of the reshape, for every n (C07_placement). NOT proved: "
              "that no state of Schmidt rank r' does better (Eckart-Young-Mirsky: mathematics independent of the code, cited); "
              "that the encoders (isometry/unitary/state-preparation circuits, C01-C03) implement their matrices (K4). Tie: "
              "rank, ebits, registers, CNOT fan-out pairs and encoder choice per block observed on the real "
              "_define_initialize for every subset and many orderings, all lr, both scheme values. Oracle: Statevector of "
              "the real gate vs independent truncation, fidelity = sum of top-r' squared singular values, exactness.")
LEVEL_NOTE = ("Trusted: Lean kernel (standard axioms); np.linalg.svd specification; qclib.isometry.decompose / "
              "qclib.unitary.unitary / nested state preparation implement their matrices (validated end-to-end by the "
              "Statevector oracle); qiskit compose/reverse_bits/Statevector qubit conventions; exact arithmetic vs float "
              "(threshold 1e-7 exact, inputs keep singular values outside [1e-9, 1e-5]); Eckart-Young-Mirsky cited.")
LEAN_TARGETS = ["QclibModel.Props.C07"]
DRIVER = "Drivers/C07.lean"
THEOREMS = ["Qclib.C07_rank_rule", "Qclib.C07_fidelity", "Qclib.C07_exact_when_full", "Qclib.C07_assembly",
            "Qclib.C07_placement", "Qclib.C07_optimal_rank1", "Qclib.C07_optimal", "Qclib.C07_optimal_state",
            "Qclib.C07_rank_src"]
TRUSTED = [
    "np.linalg.svd specification (M = U diag(s) Vh, orthonormal factors, s sorted non-increasing >= 0) - hypothesis of C07_fidelity / C07_exact_when_full",
    "the encoders chosen by _encode (qclib.isometry.decompose, qclib.unitary.unitary, nested LowRankInitialize) implement the given matrix on |0..0> resp. as a unitary (properties C01-C03), and qiskit's compose / reverse_bits / Statevector little-endian conventions - validated end-to-end by the Statevector oracle each run",
    "Eckart-Young-Mirsky theorem (the r'-term truncation maximises the overlap among states of Schmidt rank <= r') - cited, not proved",
]
ASSUMPTIONS = ["exact arithmetic in the theorems; implementation compared to 1e-7",
               "singular values of generated inputs stay outside [1e-9, 1e-5], except the boundary families with one coefficient at 3.3e-8 "
               "(oracle and tie; excluded band (5e-8, 2e-7) there) and 3e-7 (tie of the plan only)",
               "partition: duplicate-free list of qubits < n in any order (C07_placement); unsorted lists are exercised in tie and oracle and by a fixed regression probe (key lowrank.partition-order:unsorted-list)"]
RULE = ("tie: (n, partition list, lr, scheme pair) whose observed plan (rank, ebits, registers, fan-out pairs, encoder kind and "
        "shape per block) was diffed against the Lean model; oracle: (family, n, partition, lr, scheme pair) on which the "
        "Statevector of the real LowRankInitialize was compared with an independent numpy truncation and the fidelity with the "
        "sum of the r' largest squared singular values; non-trivial = n>=2, non-empty proper partition")

SCHEMES = (("ccd", "qsd"), ("knill", "csd"))
UNSORTED_KEY = "lowrank.partition-order:unsorted-list"


# ---------------------------------------------------------------------------------------------
# tie: observe the plan of the real _define_initialize (K4 callees replaced by recording stubs)
# ---------------------------------------------------------------------------------------------

def observe_plan(v, n, part, lr, iso, uni, mode=None):
    """`mode`: see build_opts ('no-schemes' / 'default-partition' / 'none' leave options at their defaults; the op sent to
    the model then names the documented defaults ccd / qsd / first ceil(n/2) qubits / lr = 0)."""
    from unittest import mock
    from qiskit import QuantumCircuit
    from qclib.state_preparation import lowrank
    from qclib.entanglement import _separation_matrix, _effective_rank
    opts = build_opts({"mode": mode, "lr": lr, "partition": list(part), "iso": iso, "uni": uni})
    g = lowrank.LowRankInitialize(v, opt_params=opts)
    ev = []
    cap = {}
    orig_cls = lowrank.LowRankInitialize
    orig_sd = lowrank.schmidt_decomposition
    orig_cx = QuantumCircuit.cx
    orig_create = g._create_quantum_circuit
    orig_encode = g._encode

    def nq(rows):
        return int(round(math.log2(rows)))

    def sp_stub(params, *a, **k):
        ev.append(("kind", "sp"))
        return orig_cls(params, *a, **k)

    def iso_stub(data, scheme="ccd"):
        ev.append(("kind", "iso:" + scheme))
        return QuantumCircuit(nq(data.shape[0]))

    def uni_stub(data, decomposition="qsd", **k):
        ev.append(("kind", "unitary:" + decomposition))
        return QuantumCircuit(nq(data.shape[0]))

    def sd_spy(state, partition, rank=0, svd="auto"):
        out = orig_sd(state, partition, rank=rank, svd=svd)
        ev.append(("sd", list(partition), int(rank), int(out[0])))
        return out

    def cx_spy(self, c, t, *a, **k):
        if cap.get("circ") is self:
            ev.append(("cx", int(c), int(t)))
        return orig_cx(self, c, t, *a, **k)

    def create_spy():
        circ, ra, rb = orig_create()
        cap["circ"], cap["ra"], cap["rb"] = circ, list(ra), list(rb)
        return circ, ra, rb

    def encode_spy(data, circuit, reg):
        ev.append(("enc", tuple(data.shape), [int(q) for q in reg]))
        return orig_encode(data, circuit, reg)

    g._create_quantum_circuit = create_spy
    g._encode = encode_spy
    with mock.patch.object(lowrank, "LowRankInitialize", sp_stub), \
            mock.patch.object(lowrank, "decompose_isometry", iso_stub), \
            mock.patch.object(lowrank, "decompose_unitary", uni_stub), \
            mock.patch.object(lowrank, "schmidt_decomposition", sd_spy), \
            mock.patch.object(QuantumCircuit, "cx", cx_spy):
        try:
            g._define_initialize()
        except Exception as ex:   # the real code failed on a valid input: shows up as a tie diff, then the search runs
            s = np.linalg.svd(_separation_matrix(n, v, list(part)), compute_uv=False)
            return [f"raised-{type(ex).__name__}"], [float(x) for x in s]
    s = np.linalg.svd(_separation_matrix(n, v, list(part)), compute_uv=False)
    eff = int(_effective_rank(s))
    sd = [e for e in ev if e[0] == "sd"]
    rank = sd[0][3]
    cxs = [e for e in ev if e[0] == "cx"]
    lines = [f"eff {eff}", f"rank {rank}", f"ebits {len(cxs)}",
             "rega " + " ".join(map(str, cap["ra"])), "regb " + " ".join(map(str, cap["rb"]))]
    encs = []
    i = 0
    while i < len(ev):
        if ev[i][0] == "enc":
            kind = ev[i + 1][1] if i + 1 < len(ev) and ev[i + 1][0] == "kind" else "?"
            encs.append((ev[i][1], ev[i][2], kind, i))
        i += 1
    labels = ["sv", "U", "V"] if len(encs) == 3 else ["U", "V"]
    pos_cx = [j for j, e in enumerate(ev) if e[0] == "cx"]
    out_enc = []
    for lab, (shape, reg, kind, pos) in zip(labels, encs):
        out_enc.append((pos, f"enc {' '.join(map(str, reg))} ; {lab} {kind} {shape[0]} {shape[1]}"))
    body = sorted(out_enc + [(j, f"cx {ev[j][1]} {ev[j][2]}") for j in pos_cx])
    lines += [b[1] for b in body]
    # the partition handed to schmidt_decomposition is reg_a
    if sd[0][1] != cap["ra"]:
        lines.append("sd-partition " + " ".join(map(str, sd[0][1])))
    return lines, [float(x) for x in s]


def tie_plan(ctx, v, n, part, lr, iso, uni, mode=None):
    lines, s = observe_plan(v, n, part, lr, iso, uni, mode=mode)
    ctx.tie({"op": "plan", "n": n, "P": [int(a) for a in part], "lr": lr, "s": s, "iso": iso, "uni": uni}, lines)
    ctx.count("plan:sorted" if list(part) == sorted(part) else "plan:unsorted")
    if mode:
        ctx.count("branch:tie:opts=" + mode)


def run_tie(ctx):
    from props import c09
    rng = ctx.nprng()
    nmax = 6 if ctx.quick else 7
    for n in range(2, nmax + 1):
        subsets = [list(s) for k in range(1, n) for s in itertools.combinations(range(n), k)]
        for sub in subsets:
            cands = [sub]
            if len(sub) >= 2:
                sh = list(sub)
                while sh == sorted(sh):
                    ctx.rng.shuffle(sh)
                cands.append(sh)
            mind = min(2 ** len(sub), 2 ** (n - len(sub)))
            fams = c09.families(ctx, rng, n, sub)
            pick = [fams[0], ctx.rng.choice(fams[1:])]
            for part in cands:
                for name, v in pick:
                    for lr in range(0, mind + 2):
                        iso, uni = SCHEMES[(lr + len(part)) % 2] if n > 3 else SCHEMES[0]
                        tie_plan(ctx, v, n, part, lr, iso, uni)
                        if n <= 3:
                            tie_plan(ctx, v, n, part, lr, *SCHEMES[1])
    # rank rule / ebits on its own (also tied in C09 against low_rank_approximation)
    from qclib.entanglement import low_rank_approximation, _to_qubits
    for eff in range(1, 20):
        for lr in range(0, 21):
            try:
                r = low_rank_approximation(lr, np.zeros((1, eff)), np.zeros((eff, 1)), np.ones(eff))[0]
                impl = [f"rank {int(r)}", f"ebits {int(_to_qubits(r))}"]
            except Exception as ex:
                impl = [f"raised-{type(ex).__name__}"]
            ctx.tie({"op": "rank", "lr": lr, "eff": eff}, impl)


# ---------------------------------------------------------------------------------------------
# oracle
# ---------------------------------------------------------------------------------------------

def audit_encoders(v, n, opts):
    """Which K4 encoder (qclib.isometry.decompose / qclib.unitary.unitary as called by _encode, at any
    nesting depth) does not reproduce the matrix it was given?  Returns [(kind, rows, cols, err)]."""
    from unittest import mock
    from qiskit import QuantumCircuit
    from qiskit.quantum_info import Operator, Statevector
    from qclib.state_preparation import lowrank
    found = []
    orig_iso, orig_uni = lowrank.decompose_isometry, lowrank.decompose_unitary

    def iso_chk(data, scheme="ccd"):
        c = orig_iso(data, scheme=scheme)
        err = float(np.abs(Operator(c).data[:, :data.shape[1]] - data).max())
        found.append(("iso:" + scheme, int(data.shape[0]), int(data.shape[1]), err))
        return c

    def uni_chk(data, decomposition="qsd", **k):
        c = orig_uni(data, decomposition=decomposition, **k)
        err = float(np.abs(Operator(c).data - data).max())
        found.append(("unitary:" + decomposition, int(data.shape[0]), int(data.shape[1]), err))
        return c

    with mock.patch.object(lowrank, "decompose_isometry", iso_chk), \
            mock.patch.object(lowrank, "decompose_unitary", uni_chk):
        qc = QuantumCircuit(n)
        lowrank.LowRankInitialize.initialize(qc, v, opt_params=None if opts is None else dict(opts))
        Statevector(qc)
    return found


def eval_case(task):
    """Runs in a worker process.  Returns (key, problems, info)."""
    import sys
    repo = task["repo"]
    if repo not in sys.path:
        sys.path.insert(0, repo)
    from qiskit import QuantumCircuit
    from qiskit.quantum_info import Statevector
    from qclib.state_preparation import LowRankInitialize
    from props import c09
    n, part, lr, iso, uni = task["n"], task["partition"], task["lr"], task["iso"], task["uni"]
    if task.get("rsvd_seed") is not None:
        # randomized_svd draws from a module-level unseeded generator: make the case a function of VERIF_SEED
        import qclib.entanglement as _ent
        _ent._rng = np.random.default_rng(task["rsvd_seed"])
        np.random.seed(task["rsvd_seed"] % (2 ** 32))
    v = np.array(task["re"]) + 1j * np.array(task["im"])
    if task.get("real"):
        v = np.array(task["re"])
    mref = c09.ref_sep(n, np.asarray(v, dtype=complex), sorted(part))
    uu, ss, vv = np.linalg.svd(mref, full_matrices=False)
    band = task.get("band") or c09.BAND
    if any(band[0] <= x <= band[1] for x in ss):
        return task["key"], None, {"skipped": True}
    eff = int((ss > 1e-7).sum())
    want = c09.clp2(lr if 0 < lr < eff else eff)
    vin = np.array(v, copy=True)
    opts = build_opts(task)
    opts_in = None if opts is None else {k: (list(x) if isinstance(x, list) else x) for k, x in opts.items()}
    entry = task.get("entry")
    try:
        if entry:
            # explicit wire list on a wider circuit: gate qubit i on wire entry["qubits"][i], the other wires stay |0>
            qc = QuantumCircuit(entry["width"])
            LowRankInitialize.initialize(qc, v, qubits=list(entry["qubits"]), opt_params=opts)
            full = Statevector(qc).data
            idx = [sum(((k >> i) & 1) << entry["qubits"][i] for i in range(n)) for k in range(2 ** n)]
            sv = full[idx]
            rest = np.delete(full, idx)
            if rest.size and float(np.abs(rest).max()) > 1e-7:
                return task["key"], [f"amplitude {float(np.abs(rest).max()):.2e} outside the wires {entry['qubits']}"], {}
        elif task.get("label") is not None:
            gate = LowRankInitialize(v, label=task["label"], opt_params=opts)
            if gate.label != task["label"]:
                return task["key"], [f"label {task['label']!r} passed, gate.label = {gate.label!r}"], {}
            sv = Statevector(gate.definition).data
        else:
            qc = QuantumCircuit(n)
            LowRankInitialize.initialize(qc, v, opt_params=opts)
            sv = Statevector(qc).data
    except Exception as ex:
        return task["key"], [f"raised {type(ex).__name__}: {str(ex)[:200]}"], {}
    problems = []
    if not np.array_equal(vin, v) or opts != opts_in:
        problems.append("inputs modified")
    kept = float((ss[:want] ** 2).sum())
    fid = float(abs(np.vdot(v, sv)) ** 2)
    nrm = float(np.vdot(sv, sv).real)
    if abs(nrm - 1) > 1e-7:
        problems.append(f"prepared state has squared norm {nrm}")
    if abs(fid - kept) > 1e-7:
        problems.append(f"fidelity {fid:.9f} != sum of the {want} largest squared Schmidt coefficients {kept:.9f} (eff={eff})")
    if want >= eff:
        err = float(np.abs(sv - v).max())
        if err > 1e-7:
            problems.append(f"rank {want} >= Schmidt rank {eff} but prepared state differs from the target by {err:.2e}")
    elif ss[want - 1] - ss[want] > 1e-3:
        t = (uu[:, :want] * ss[:want]) @ vv[:want]
        t = c09.ref_undo(n, t / np.linalg.norm(t), sorted(part))
        err = float(np.abs(sv - t).max())
        if err > 1e-7:
            problems.append(f"prepared state differs from the independent rank-{want} truncation by {err:.2e}")
    info = {"rank": want, "eff": eff, "fid": fid, "truncated": want < eff}
    if problems and all("differs from" in p for p in problems):
        # state is off although rank, norm and fidelity are right: is a K4 encoder inaccurate on its own matrix?
        try:
            aud = audit_encoders(v, n, opts)
            worst = max(aud, key=lambda a: a[3]) if aud else None
            if worst and worst[3] > 1e-8:
                info["encoder_blame"] = {"kind": worst[0], "rows": worst[1], "cols": worst[2], "err": worst[3]}
        except Exception:
            pass
    return task["key"], problems, info


def build_opts(task):
    """opt_params as handed to the real code.  mode 'full' (default): lr, partition and both schemes; 'no-schemes': lr and
    partition only (iso_scheme / unitary_scheme defaults ccd / qsd); 'default-partition': lr only (partition = first
    ceil(n/2) qubits); 'none': opt_params=None (lr = 0, default partition, default schemes).  `svd` is added when given."""
    mode = task.get("mode") or "full"
    if mode == "none":
        return None
    opts = {"lr": task["lr"]}
    if mode != "default-partition":
        opts["partition"] = list(task["partition"])
    if mode == "full":
        opts["iso_scheme"], opts["unitary_scheme"] = task["iso"], task["uni"]
    if task.get("svd"):
        opts["svd"] = task["svd"]
    return opts


def make_task(name, n, part, v, lr, iso, uni, mode=None, svd=None, label=None, entry=None, rsvd_seed=None, band=None):
    import framework
    v = np.asarray(v)
    extra = "".join(f":{t}" for t in (mode and "opts=" + mode, svd and "svd=" + svd, label is not None and "label",
                                      entry and "qubits=" + ",".join(map(str, entry["qubits"]))) if t)
    return {"repo": framework.REPO, "family": name, "n": n, "partition": [int(a) for a in part], "lr": int(lr),
            "iso": iso, "uni": uni, "re": [float(x) for x in np.real(v)], "im": [float(x) for x in np.imag(v)],
            "real": bool(np.isrealobj(v)), "mode": mode, "svd": svd, "label": label, "entry": entry,
            "rsvd_seed": rsvd_seed, "band": None if band is None else list(band),
            "key": f"lowrank:{name}:n={n}:P={','.join(map(str, part))}:lr={lr}:{iso}/{uni}{extra}"}


REPLAY_FIELDS = ("family", "n", "partition", "lr", "iso", "uni", "re", "im", "real", "mode", "svd", "label", "entry", "rsvd_seed",
                 "band")


def report_finding(ctx, key, detail, rep):
    """A defect whose root cause lies outside C07's own logic.  It is an ordinary failure with a
    narrow key: if /verif/known_findings.json lists the key as `known` the framework prints
    KNOWN-FINDING, otherwise it is a VIOLATION (this is how a repaired defect that returns is caught)."""
    ctx.fail(key, detail, rep)
    ctx.count("finding:" + key)


def run_tasks(ctx, tasks, unsorted_probe=False):
    from concurrent.futures import ProcessPoolExecutor
    import multiprocessing as mp
    results = []
    workers = min(12, os.cpu_count() or 2)
    with ProcessPoolExecutor(max_workers=workers, mp_context=mp.get_context("fork")) as ex:
        results = list(ex.map(eval_case, tasks, chunksize=8))
    out = []
    for task, (key, problems, info) in zip(tasks, results):
        if problems is None:
            ctx.count("skipped:threshold-band")
            continue
        out.append((task, problems, info))
        if unsorted_probe:
            continue
        ctx.count(f"fam:{task['family'].rstrip('0123456789')}")
        ctx.count(f"scheme:{task['iso']}/{task['uni']}")
        if problems:
            rep = {k: task.get(k) for k in REPLAY_FIELDS}
            rep["call"] = "LowRankInitialize.initialize + Statevector"
            blame = info.get("encoder_blame")
            if blame:
                report_finding(ctx, f"lowrank.encoder-precision:{blame['kind']}",
                               f"{key}: " + "; ".join(problems) + f" -- root cause: the encoder {blame['kind']} called by _encode "
                               f"reproduces its own {blame['rows']}x{blame['cols']} matrix only to {blame['err']:.2e} "
                               "(rank, norm and fidelity are right)", rep)
            else:
                ctx.fail(key, "; ".join(problems), rep)
        else:
            ctx.count("truncated" if info["truncated"] else "untruncated")
            ctx.ok(key, nontrivial=True, sample={k: task[k] for k in ("family", "n", "partition", "lr", "iso", "uni")} | info)
    return out


def gen_tasks(ctx, nmax, nfull, per_n_budget):
    from props import c09
    rng = ctx.nprng()
    tasks = []
    for n in range(2, nmax + 1):
        subsets = [list(s) for k in range(1, n) for s in itertools.combinations(range(n), k)]
        if n > nfull:
            subsets = ctx.rng.sample(subsets, min(len(subsets), per_n_budget))
        for sub in subsets:
            mind = min(2 ** len(sub), 2 ** (n - len(sub)))
            fams = c09.families(ctx, rng, n, sub)
            for name, v in fams:
                lrs = list(range(0, mind + 2))
                if n >= 5 and name not in ("complex", "repeated"):
                    lrs = sorted(set([0, 1, ctx.rng.choice(lrs)]))
                for lr in lrs:
                    if n <= 4:
                        pairs = SCHEMES
                    else:
                        pairs = (SCHEMES[(lr + len(sub)) % 2],)
                    for iso, uni in pairs:
                        tasks.append(make_task(name, n, sub, v, lr, iso, uni))
            # the same set handed over as an unsorted list (the code sorts it)
            if len(sub) >= 2:
                sh = list(sub)
                while sh == sorted(sh):
                    ctx.rng.shuffle(sh)
                for name, v in [fams[0], ctx.rng.choice(fams[1:])]:
                    for lr in sorted(set([0, 1, ctx.rng.randint(0, mind + 1)])):
                        iso, uni = SCHEMES[(lr + n) % 2]
                        tasks.append(make_task(name + "-shuffled", n, sh, v, lr, iso, uni))
    return tasks


def probe_unsorted(ctx):
    """Regression probe: LowRankInitialize with the partition given as an unsorted list.  Before the
    fix "LowRankInitialize sorts the partition before placing the isometries" the Schmidt decomposition
    was taken across sorted(partition) while V^T was placed on partition[::-1], and the prepared state
    was wrong (fidelity ~0.5 for [1, 0] on three qubits).  Fixed inputs, every run; a plain failure under
    one fixed key if it is ever wrong again."""
    rng = np.random.default_rng(7)
    tasks = []
    for n, part in ((3, [1, 0]), (3, [2, 0]), (4, [2, 0, 1]), (4, [3, 1]), (5, [4, 0, 2])):
        v = rng.normal(size=2 ** n) + 1j * rng.normal(size=2 ** n)
        v /= np.linalg.norm(v)
        for lr in (0, 1):
            tasks.append(make_task("unsorted-probe", n, part, v, lr, "ccd", "qsd"))
    res = run_tasks(ctx, tasks, unsorted_probe=True)
    bad = [(t, p) for t, p, _ in res if p]
    ctx.count("unsorted-probe:wrong", len(bad))
    ctx.count("unsorted-probe:right", len(res) - len(bad))
    if not bad:
        ctx.ok(UNSORTED_KEY, nontrivial=True)
        return
    t, p = bad[0]
    detail = (f"LowRankInitialize(v, partition={t['partition']}, lr={t['lr']}) (n={t['n']}): " + "; ".join(p) +
              f" [{len(bad)}/{len(res)} unsorted probes wrong]")
    rep = {k: t.get(k) for k in REPLAY_FIELDS}
    ctx.fail(UNSORTED_KEY, detail, rep)


AUTO_RANDOMIZED_KEY = "lowrank.auto-randomized-svd:n=14:lr=1:suboptimal"


def probe_auto_randomized(ctx):
    """Fixed 14-qubit input with the DEFAULT options and lr = 1 across a 7-qubit partition.  svd='auto' hands this size to
    randomized_svd (entanglement.py:218-231: n >= 14, rank == 1, more than round(n/2.5) partition qubits), whose rank-1
    result is only an approximation of the leading Schmidt pair when more than rank + 12 coefficients are present (and
    varies from call to call: module-level unseeded generator).  The prepared product state then has a fidelity BELOW the
    largest squared Schmidt coefficient, which contradicts the property as stated for every n.  Reported under one key."""
    from props import c09
    rng = np.random.default_rng(14)
    n, part = 14, [0, 2, 4, 6, 8, 10, 12]
    v = c09.rand_unit(rng, 2 ** n)
    t = make_task("auto-randomized-probe", n, part, v, 1, "ccd", "qsd")
    key, problems, info = eval_case(t)
    ctx.count("auto-randomized-probe:" + ("suboptimal" if problems else "optimal"))
    if not problems:
        ctx.ok(AUTO_RANDOMIZED_KEY, nontrivial=True)
        return
    rep = {k: t.get(k) for k in REPLAY_FIELDS if k not in ("re", "im")}
    rep["vector"] = "c09.rand_unit(np.random.default_rng(14), 2**14)"
    rep["call"] = "LowRankInitialize.initialize(qc, v, opt_params={'lr': 1, 'partition': [0,2,4,6,8,10,12], ...}) + Statevector"
    ctx.fail(AUTO_RANDOMIZED_KEY, f"{key}: " + "; ".join(problems) + " -- svd='auto' (default) switches to the randomized "
             "SVD for n >= 14, lr = 1, |partition| > round(n/2.5): approximate and not reproducible", rep)


PRECISION_M = [[-0.729069172542213, 0.493998485646007], [-0.5117022689246972, -0.3024283467785967],
               [-0.37965359476427246, -0.00433375675044421], [-0.24996415264692562, -0.815158763552625]]


def probe_encoder_precision(ctx):
    """Fixed 3-qubit input on which qclib.isometry.decompose(scheme='csd') (= qclib.unitary.unitary(..,
    'qsd', apply_a2=True)) reproduces its 4x2 isometry only to ~1e-5, so that the prepared state is off by
    ~1e-5 although rank and fidelity are right.  Root cause is outside C07 (C02/C03: the apply_a2
    optimisation); reported under the key lowrank.encoder-precision:iso:csd."""
    from props import c09
    m = np.array(PRECISION_M) * np.array([0.8, 0.6])
    v = c09.ref_undo(3, m, [0])
    v = v / np.linalg.norm(v)
    t = make_task("precision-probe", 3, [0], v, 0, "ccd", "qsd")
    key, problems, info = eval_case(t)
    ctx.count("precision-probe:" + ("off" if problems else "accurate"))
    if not problems:
        ctx.ok("lowrank.encoder-precision:iso:csd", nontrivial=True)
        return
    rep = {k: t.get(k) for k in REPLAY_FIELDS}
    blame = info.get("encoder_blame")
    if blame:
        report_finding(ctx, f"lowrank.encoder-precision:{blame['kind']}",
                       f"{key}: " + "; ".join(problems) + f" -- root cause: the encoder {blame['kind']} reproduces its own "
                       f"{blame['rows']}x{blame['cols']} matrix only to {blame['err']:.2e}", rep)
    else:
        ctx.fail(key, "; ".join(problems), rep)


# ---------------------------------------------------------------------------------------------
# branch coverage of the anchored sources (tools/branch_audit.py C07)
# ---------------------------------------------------------------------------------------------

UNREACHED_JUSTIFIED = {
    "qclib/state_preparation/lowrank.py:cnot_count,_cnots": "CNOT estimate of the low-rank circuit: property C10",
    "qclib/entanglement.py:_get_iota,generalized_cross_product,meyer_wallach_entanglement,geometric_entanglement,qb_approximation": "entanglement measures / QB approximation: not called by LowRankInitialize",
    "qclib/entanglement.py:schmidt_composition,_undo_separation_matrix": "inverse direction of the reshape, property C09; LowRankInitialize only decomposes",
}


def default_partition(n):
    return list(range(n // 2 + n % 2))


def product_across(rng, n, part):
    """A state of Schmidt rank exactly 1 across `part` (random complex factors on both sides)."""
    from props import c09
    return c09.with_spectrum(rng, n, sorted(part), [1.0])


def run_tie_branches(ctx):
    """Plans with options left at their defaults (lowrank.py:85-107) - the op handed to the model names the
    documented default values - and the size threshold of svd='auto' (entanglement.py:218-231)."""
    from props import c09
    rng = ctx.nprng()
    for n in (2, 3, 4, 5):
        dp = default_partition(n)
        fams = c09.families(ctx, rng, n, dp)
        for name, v in [fams[0], ctx.rng.choice(fams[1:])]:
            for lr in (0, 1, 2):
                tie_plan(ctx, v, n, dp, lr, "ccd", "qsd", mode="no-schemes")
                tie_plan(ctx, v, n, dp, lr, "ccd", "qsd", mode="default-partition")
            tie_plan(ctx, v, n, dp, 0, "ccd", "qsd", mode="none")
        sub = [n - 1] if n < 4 else [1, n - 1]
        name, v = c09.families(ctx, rng, n, sub)[0]
        for lr in (0, 1):
            tie_plan(ctx, v, n, sub, lr, "ccd", "qsd", mode="no-schemes")
    # n = 14, lr = 1, svd = 'auto': partitions of more than round(14/2.5) = 6 qubits go to randomized_svd (which returns the
    # requested rank 1 = the model's rank for lr = 1), six qubits or fewer to np.linalg.svd
    n = 14
    for part in ([0, 2, 4, 6, 8, 10, 12], [13, 1, 2, 3, 5, 8, 9, 11], [0, 3, 6, 7, 9, 13]):
        v = product_across(rng, n, part)
        tie_plan(ctx, v, n, part, 1, "ccd", "qsd")
        ctx.count("branch:tie:n=14:" + ("auto->randomized" if len(part) > 6 else "auto->regular"))


def gen_branch_tasks(ctx):
    from props import c09
    rng = ctx.nprng()
    tasks = []
    for n in (2, 3, 4, 5):
        dp = default_partition(n)
        mind = min(2 ** len(dp), 2 ** (n - len(dp)))
        fams = c09.families(ctx, rng, n, dp)
        for name, v in [fams[0], fams[1], ctx.rng.choice(fams[2:])]:
            # options left out of the dictionary / no dictionary at all
            for lr in sorted({0, 1, mind}):
                tasks.append(make_task(name, n, dp, v, lr, "ccd", "qsd", mode="no-schemes"))
                tasks.append(make_task(name, n, dp, v, lr, "ccd", "qsd", mode="default-partition"))
                ctx.count("branch:opts=no-schemes")
                ctx.count("branch:opts=default-partition")
            tasks.append(make_task(name, n, dp, v, 0, "ccd", "qsd", mode="none"))
            ctx.count("branch:opts=none")
        name, v = fams[0]
        # an explicit label; the static entry point with an explicit wire list on a wider circuit
        tasks.append(make_task(name, n, dp, v, 1, "ccd", "qsd", label=f"lr{n}"))
        ctx.count("branch:label-given")
        for lr in (0, 1):
            sub = ctx.rng.sample(range(n), ctx.rng.randint(1, n - 1))
            qs = ctx.rng.sample(range(n + 1), n)
            iso, uni = SCHEMES[(lr + n) % 2]
            nm, w = ctx.rng.choice(c09.families(ctx, rng, n, sorted(sub)))
            tasks.append(make_task(nm, n, sub, w, lr, iso, uni, entry={"width": n + 1, "qubits": qs}))
            ctx.count("branch:initialize:qubits=list")
    # svd='randomized' named explicitly: exact when the requested rank is a power of two >= Schmidt rank; only lr = 2 is
    # usable (see the note in run): a Schmidt rank <= 2 state per size
    for n, part in ((3, [0]), (4, [0, 1]), (4, [3, 1]), (5, [0, 1, 2]), (6, [1, 3, 5])):
        for spec in ([1.0], [0.8, 0.6], [1.0, 1.0]):
            v = c09.with_spectrum(rng, n, sorted(part), spec)
            tasks.append(make_task(f"spectrum{len(spec)}", n, part, v, 2, "ccd", "qsd", svd="randomized"))
            ctx.count("branch:svd=randomized:lr=2")
        v = c09.with_spectrum(rng, n, sorted(part), [0.9, 0.4])
        tasks.append(make_task("spectrum2", n, part, v, 0, "knill", "csd", svd="regular"))
        ctx.count("branch:svd=regular")
    # svd='auto' (the default) at the size where it switches to the randomized SVD: n >= 14, lr = 1 and more than
    # round(n/2.5) partition qubits; product states across the partition (rank 1: the randomized result is exact)
    n = 14
    for part in ([0, 2, 4, 6, 8, 10, 12], [0, 3, 6, 7, 9, 13]):
        v = product_across(rng, n, part)
        tasks.append(make_task("product-across", n, part, v, 1, "ccd", "qsd"))
        ctx.count("branch:n=14:" + ("auto->randomized" if len(part) > 6 else "auto->regular"))
    return tasks


# ---------------------------------------------------------------------------------------------
# boundary values: every conjunct of the SVD-routine switch of schmidt_decomposition as LowRankInitialize reaches it
# (svd='auto' and lr == 1 and n >= 14 and len(partition) > round(n/2.5)), the 1e-7 rank cut from both sides, n = 1
# ---------------------------------------------------------------------------------------------

NARROW_BAND = (5e-8, 2e-7)


def flat_spectrum(m):
    """m Schmidt coefficients without a dominant one (largest squared weight ~ 2/m) but with a clear gap between the first
    two, so that the rank-1 truncation is unique: an APPROXIMATE rank-1 SVD (randomized, rank + 12 < m samples) is visibly
    sub-optimal on it, the exact one is not."""
    return [1.0] + [float(x) for x in np.linspace(0.85, 0.5, m - 1)]


def run_tie_boundaries(ctx):
    from props import c09
    rng = ctx.nprng()
    import qclib.entanglement as ent
    ent._rng = np.random.default_rng(ctx.rng.getrandbits(63))
    spec8 = [0.7, 0.45, 0.35, 0.25, 0.2, 0.15, 0.1, 0.08]
    # plan (rank, ebits, registers, encoder kinds) at n = 13 / 14 / 15, partition size bound-1 / bound / bound+1, lr = 0 / 1 / 2 / 3
    for n in (13, 14, 15):
        b = round(n / 2.5)
        for k in (b - 1, b, b + 1):
            part = sorted(ctx.rng.sample(range(n), k))
            v = c09.with_spectrum(rng, n, part, spec8)
            for lr in (0, 1, 2, 3):
                tie_plan(ctx, v, n, part, lr, "ccd", "qsd")
                ctx.count(f"boundary:tie:svd-switch:n={n}:len-bound={k - b:+d}:lr={lr}")
    # the 1e-7 rank cut from both sides: the plan must count a coefficient of 3e-7 and drop one of 3.3e-8
    for n, part in ((3, [1]), (4, [0, 2]), (5, [1, 4]), (6, [0, 2, 5])):
        mind = min(2 ** len(part), 2 ** (n - len(part)))
        for name, tail in (("above", 3e-7), ("below", 3.3e-8)):
            spec = [0.9, tail] if mind < 4 else [0.9, 0.4, tail]
            v = c09.with_spectrum(rng, n, part, spec)
            for lr in range(0, len(spec) + 2):
                tie_plan(ctx, v, n, part, lr, *SCHEMES[lr % 2])
                ctx.count("boundary:tie:sv-cut:" + name)


def gen_boundary_tasks(ctx):
    from props import c09
    rng = ctx.nprng()
    tasks = []

    def seed():
        return ctx.rng.randrange(2 ** 31)

    def add(name, n, part, spec, lr, tag, **kw):
        v = c09.with_spectrum(rng, n, sorted(part), spec)
        tasks.append(make_task(name, n, part, v, lr, "ccd", "qsd", rsvd_seed=seed(), **kw))
        ctx.count("boundary:" + tag)

    # `n_qubits >= 14` with the other conjuncts true (lr = 1, more than round(n/2.5) partition qubits): below 14 the exact SVD
    # must be used, i.e. the fidelity is the largest squared coefficient also when there are more than 13 of them.  The
    # prepared state is a product of two states of <= 7 qubits, so the Statevector stays cheap.
    for n in ((8, 10, 12, 13) if ctx.quick else (8, 9, 10, 11, 12, 13)):
        k = round(n / 2.5) + 1
        part = ctx.rng.sample(range(n), k)
        m = min(2 ** k, 2 ** (n - k), 24)
        add(f"flat{m}", n, part, flat_spectrum(m), 1, f"n-conjunct:n={n}:len={k}:lr=1:coeffs={m}")
    for n in (10, 13):
        k = round(n / 2.5)
        part = ctx.rng.sample(range(n), k)
        m = min(2 ** k, 24)
        add(f"flat{m}", n, part, flat_spectrum(m), 1, f"n-conjunct:n={n}:len={k}(at-bound):lr=1:coeffs={m}")
    # `len(partition) > round(n/2.5)` at n = 14, 15: AT the bound the exact SVD is used (any number of coefficients); above
    # it the randomized routine, which is exact up to rank + 12 = 13 coefficients (more: known finding K-C07-2, fixed probe)
    for n in (14, 15):
        b = round(n / 2.5)
        add("flat24", n, ctx.rng.sample(range(n), b), flat_spectrum(24), 1, f"len-conjunct:n={n}:len={b}(at-bound):lr=1:coeffs=24")
        add("flat13", n, ctx.rng.sample(range(n), b + 1), flat_spectrum(13), 1, f"len-conjunct:n={n}:len={b + 1}(above):lr=1:coeffs=13")
    # `svd == 'auto'`: svd='regular' named explicitly at the live point
    add("flat24", 14, ctx.rng.sample(range(14), 7), flat_spectrum(24), 1, "svd-option:regular:n=14:len=7:lr=1:coeffs=24", svd="regular")
    # `rank == 1`: lr = 0 and lr = 2 at the live point go to the exact SVD
    part = ctx.rng.sample(range(14), 7)
    add("spectrum2", 14, part, [0.8, 0.6], 0, "rank-conjunct:n=14:len=7:lr=0")
    add("flat24", 14, part, flat_spectrum(24), 2, "rank-conjunct:n=14:len=7:lr=2:coeffs=24")
    # the 1e-7 cut, below: the dropped coefficient (3.3e-8) is within the comparison tolerance
    for n, part in ((3, [1]), (4, [0, 2]), (5, [1, 4])):
        mind = min(2 ** len(part), 2 ** (n - len(part)))
        spec = [0.9, 3.3e-8] if mind < 4 else [0.9, 0.4, 3.3e-8]
        for lr in range(0, len(spec) + 1):
            add("edge-tail-below", n, part, spec, lr, "sv-cut:below(3.3e-8)", band=NARROW_BAND)
    return tasks


def probe_one_qubit(ctx):
    """`self.num_qubits < 2` (lowrank.py:115): one below the property's n >= 2 - the initializer hands over to TopDownInitialize."""
    from qiskit.quantum_info import Statevector
    from qclib.state_preparation import LowRankInitialize
    from props import c09
    rng = ctx.nprng()
    for i, v in enumerate((c09.rand_unit(rng, 2), c09.rand_unit(rng, 2, real=True), np.array([0.0, 1.0]), np.array([1.0, 0.0]))):
        key = f"lowrank:n=1:{i}"
        try:
            sv = Statevector(LowRankInitialize(v, opt_params={"lr": i % 2}).definition).data
        except Exception as ex:
            ctx.fail(key, f"raised {type(ex).__name__}: {ex}", {"call": "LowRankInitialize(v).definition", "vector": [complex(x) for x in v]})
            continue
        err = float(np.abs(sv - v).max())
        ctx.count("boundary:n=1")
        if err > 1e-7:
            ctx.fail(key, f"one-qubit state off by {err:.2e}", {"call": "LowRankInitialize(v).definition", "vector": [str(complex(x)) for x in v]})
        else:
            ctx.ok(key, nontrivial=False)


def probe_randomized_nested(ctx):
    """Observation outside C07's quantifier (it ranges over partitions, ranks and the two scheme options, not over `svd`):
    with svd='randomized' named explicitly every nested LowRankInitialize built by _encode inherits svd='randomized' with
    lr = 0, randomized_svd then returns zero columns and log2(0) raises.  So lr = 1 (and lr >= 4) cannot be used with it."""
    from qiskit import QuantumCircuit
    from qiskit.quantum_info import Statevector
    from qclib.state_preparation import LowRankInitialize
    from props import c09
    v = c09.with_spectrum(np.random.default_rng(5), 3, [0], [1.0])
    try:
        qc = QuantumCircuit(3)
        LowRankInitialize.initialize(qc, v, opt_params={"lr": 1, "partition": [0], "svd": "randomized"})
        Statevector(qc)
        ctx.count("observed:svd=randomized,lr=1:works")
    except Exception as ex:
        ctx.count("observed:svd=randomized,lr=1:raises")
        ctx.notes.append("outside the property (svd is not in C07's quantifier; C01 lists svd in {auto, regular}): "
                         "LowRankInitialize(v, opt_params={'lr': 1, 'partition': [0], 'svd': 'randomized'}) on a 3-qubit product "
                         f"state raises {type(ex).__name__}: {str(ex)[:80]} - the nested initializers inherit svd='randomized' "
                         "with lr = 0 and randomized_svd(rank=0) returns no columns; the randomized cases of the oracle "
                         "therefore use lr = 2 only")


def generate(ctx):
    """Rank rule re-translated from the current source (tools/schmidt_src.py, shared with C09; Gen/SchmidtRank.lean); a refusal
    raises (broken obligation)."""
    import schmidt_src
    return schmidt_src.generate(ctx, "QclibModel.Props.C07", ["Qclib.C07_rank_src"])


def run(ctx):
    from props import c09
    import schmidt_src
    schmidt_src.tie(ctx)
    run_tie(ctx)
    run_tie_branches(ctx)
    run_tie_boundaries(ctx)
    if ctx.quick:
        tasks = gen_tasks(ctx, nmax=6, nfull=5, per_n_budget=8)
    else:
        tasks = gen_tasks(ctx, nmax=7, nfull=6, per_n_budget=30)
    run_tasks(ctx, gen_boundary_tasks(ctx) + tasks + gen_branch_tasks(ctx))
    probe_one_qubit(ctx)
    ctx.notes.append("boundary cases: each conjunct of the randomized-SVD switch with the others true - n = 8..13 / 14 / 15 with lr = 1 and a "
                     "partition just above round(n/2.5) on states with 16-24 comparable Schmidt coefficients (an approximate rank-1 SVD "
                     "is visibly sub-optimal there; below n = 14 the fidelity must be the largest squared coefficient), partition AT the "
                     "bound at n = 14, 15, svd='regular', lr = 0 / 2; above the bound at n >= 14 only <= 13 coefficients (more: known "
                     f"finding K-C07-2); rank cut 1e-7: plans tied at 3e-7 / 3.3e-8, oracle at 3.3e-8 with excluded band {NARROW_BAND}; "
                     "randomized_svd's generator seeded per case from VERIF_SEED")
    probe_randomized_nested(ctx)
    probe_auto_randomized(ctx)
    probe_unsorted(ctx)
    probe_encoder_precision(ctx)
    ctx.notes.append(f"generated vectors keep every Schmidt coefficient outside [{c09.BAND[0]}, {c09.BAND[1]}] (rank threshold 1e-7); "
                     "entry-wise comparison with the independent truncation only when the cut is not inside a cluster of "
                     "equal singular values (gap > 1e-3), fidelity and exactness always; partitions are passed as "
                     "increasing lists and, for every subset of size >= 2, also as a shuffled list (families *-shuffled; fixed "
                     "regression probe under key " + UNSORTED_KEY + ")")


def search(ctx, hints):
    from props import c09
    rng = ctx.nprng()
    tasks = []
    for h in hints:
        op = h["op"]
        if op.get("op") == "plan":
            n, p = op["n"], list(op["P"])
            if n <= 8:
                for name, v in c09.families(ctx, rng, n, sorted(p))[:3]:
                    tasks.append(make_task(name, n, p, v, max(0, op["lr"]), op.get("iso", "ccd"), op.get("uni", "qsd")))
    tasks = tasks[:60] + gen_tasks(ctx, nmax=6, nfull=4, per_n_budget=12)
    run_tasks(ctx, tasks)


def replay(ctx, payload):
    r = payload["replay"]
    if r.get("family") == "auto-randomized-probe":
        probe_auto_randomized(ctx)
        return
    v = np.array(r["re"]) + (0 if r.get("real") else 1j * np.array(r["im"]))
    t = make_task(r.get("family", "replay"), r["n"], r["partition"], v, r["lr"], r["iso"], r["uni"], mode=r.get("mode"),
                  svd=r.get("svd"), label=r.get("label"), entry=r.get("entry"), rsvd_seed=r.get("rsvd_seed"), band=r.get("band"))
    run_tasks(ctx, [t])
