"""C07 — low-rank preparation yields the normalised rank-r' Schmidt truncation (qclib/state_preparation/lowrank.py)."""
import itertools
import math
import os
import numpy as np

CLAIMED = True
TECHNIQUE = ("Lean 4 proofs of the code-dependent part: rank rule (least power of two), register/qubit placement of "
             "LowRankInitialize against the reshape's bit layout (all n), overlap of the renormalised truncation with the "
             "target by finite sums over any field with conjugation; plan correspondence with lowrank.py by in-process "
             "observation; Statevector oracle against an independent numpy truncation. Eckart-Young optimality is cited, "
             "not proved.")
LEVEL_TEXT = ("Partial. Proved for the model, all sizes: r' = least power of two >= min(r, eff) with r=0 => eff, r' <= "
              "min(rows, cols), 2^ebits = r', and with sorted coefficients nothing above the threshold is dropped when r' >= "
              "eff (C07_rank_rule); under the SVD specification with orthonormal factors the overlap of the renormalised "
              "r'-term truncation with the target is N = sqrt(sum_{i<r'} s_i^2), |overlap|^2 = sum_{i<r'} s_i^2, the "
              "truncation has norm 1 and the target norm^2 sum_{i<k} s_i^2 (C07_fidelity); when the dropped coefficients "
              "vanish the truncation is v/N, i.e. v itself for a unit vector (C07_exact_when_full); the Plesch assembly "
              "(fan-out then U (x) V^T) has matrix sum_j U[:,j] t_j V[j,:] (C07_assembly); for every duplicate-free "
              "partition list in any order (the code sorts it first) the registers on which U and V^T are placed carry "
              "exactly the row/column bits of the reshape, for every n (C07_placement). NOT proved: "
              "that no state of Schmidt rank r' does better (Eckart-Young-Mirsky: mathematics independent of the code, cited); "
              "that the encoders (isometry/unitary/state-preparation circuits, C01-C03) implement their matrices (K4). Tie: "
              "rank, ebits, registers, CNOT fan-out pairs and encoder choice per block observed on the real "
              "_define_initialize for every subset and many orderings, all lr, both scheme values. Oracle: Statevector of "
              "the real gate vs independent truncation, fidelity = sum of top-r' squared singular values, exactness.")
LEVEL_NOTE = ("Trusted: Lean kernel (standard axioms); np.linalg.svd specification; qclib.isometry.decompose / "
              "qclib.unitary.unitary / nested state preparation implement their matrices (validated end-to-end by the "
              "Statevector oracle); qiskit compose/reverse_bits/Statevector qubit conventions; exact arithmetic vs float "
              "(threshold 1e-7 exact, inputs keep singular values outside [1e-9, 1e-5]); Eckart-Young-Mirsky cited.")
LEAN_TARGETS = ["QclibModel.Props.C07"]
DRIVER = "Drivers/C07.lean"
THEOREMS = ["Qclib.C07_rank_rule", "Qclib.C07_fidelity", "Qclib.C07_exact_when_full", "Qclib.C07_assembly",
            "Qclib.C07_placement", "Qclib.C07_optimal_rank1", "Qclib.C07_optimal", "Qclib.C07_optimal_state",
            "Qclib.C07_rank_src"]
TRUSTED = [
    "np.linalg.svd specification (M = U diag(s) Vh, orthonormal factors, s sorted non-increasing >= 0) - hypothesis of C07_fidelity / C07_exact_when_full",
    "the encoders chosen by _encode (qclib.isometry.decompose, qclib.unitary.unitary, nested LowRankInitialize) implement the given matrix on |0..0> resp. as a unitary (properties C01-C03), and qiskit's compose / reverse_bits / Statevector little-endian conventions - validated end-to-end by the Statevector oracle each run",
    "Eckart-Young-Mirsky theorem (the r'-term truncation maximises the overlap among states of Schmidt rank <= r') - cited, not proved",
]
ASSUMPTIONS = ["exact arithmetic in the theorems; implementation compared to 1e-7",
               "singular values of generated inputs stay outside [1e-9, 1e-5], except the boundary families with one coefficient at 3.3e-8 "
               "(oracle and tie; excluded band (5e-8, 2e-7) there) and 3e-7 (tie of the plan only), and the input-diversity families "
               "(keys div:*: light tails 1e-3 .. 1e-6 of Schmidt coefficients and of amplitudes; excluded band (5e-8, 2e-7) only)",
               "partition: duplicate-free list of qubits < n in any order (C07_placement); unsorted lists are exercised in tie and oracle and by a fixed regression probe (key lowrank.partition-order:unsorted-list)"]
RULE = ("tie: (n, partition list, lr, scheme pair) whose observed plan (rank, ebits, registers, fan-out pairs, encoder kind and "
        "shape per block) was diffed against the Lean model; oracle: (family, n, partition, lr, scheme pair) on which the "
        "Statevector of the real LowRankInitialize was compared with an independent numpy truncation and the fidelity with the "
        "sum of the r' largest squared singular values; non-trivial = n>=2, non-empty proper partition; diversity cases (div:*): "
        "(form family, state container / element type, partition container / order, lr type, option keys, call form, host and qubit "
        "specifier) per entry point - constructor + .definition, static initialize with qubits=None and with an explicit list")

SCHEMES = (("ccd", "qsd"), ("knill", "csd"))
UNSORTED_KEY = "lowrank.partition-order:unsorted-list"


# ---------------------------------------------------------------------------------------------
# tie: observe the plan of the real _define_initialize (K4 callees replaced by recording stubs)
# ---------------------------------------------------------------------------------------------

def observe_plan(v, n, part, lr, iso, uni, mode=None, gate=None):
    """`mode`: see build_opts ('no-schemes' / 'default-partition' / 'none' leave options at their defaults; the op sent to
    the model then names the documented defaults ccd / qsd / first ceil(n/2) qubits / lr = 0).
    `gate`: observe THIS LowRankInitialize object (built by the caller from inputs in some other form - tuple / numpy
    partition, numpy rank, partial dictionary, taken out of a host circuit after the static helper ...) instead of
    building one; v / part / lr / iso / uni are then the canonical values the model is asked about."""
    from unittest import mock
    from qiskit import QuantumCircuit
    from qclib.state_preparation import lowrank
    from qclib.entanglement import _separation_matrix, _effective_rank
    if gate is None:
        opts = build_opts({"mode": mode, "lr": lr, "partition": list(part), "iso": iso, "uni": uni})
        g = lowrank.LowRankInitialize(v, opt_params=opts)
    else:
        g = gate
    ev = []
    cap = {}
    orig_cls = lowrank.LowRankInitialize
    orig_sd = lowrank.schmidt_decomposition
    orig_cx = QuantumCircuit.cx
    orig_create = g._create_quantum_circuit
    orig_encode = g._encode

    def nq(rows):
        return int(round(math.log2(rows)))

    def sp_stub(params, *a, **k):
        ev.append(("kind", "sp"))
        return orig_cls(params, *a, **k)

    def iso_stub(data, scheme="ccd"):
        ev.append(("kind", "iso:" + scheme))
        return QuantumCircuit(nq(data.shape[0]))

    def uni_stub(data, decomposition="qsd", **k):
        ev.append(("kind", "unitary:" + decomposition))
        return QuantumCircuit(nq(data.shape[0]))

    def sd_spy(state, partition, rank=0, svd="auto"):
        out = orig_sd(state, partition, rank=rank, svd=svd)
        ev.append(("sd", list(partition), int(rank), int(out[0])))
        return out

    def cx_spy(self, c, t, *a, **k):
        if cap.get("circ") is self:
            ev.append(("cx", int(c), int(t)))
        return orig_cx(self, c, t, *a, **k)

    def create_spy():
        circ, ra, rb = orig_create()
        cap["circ"], cap["ra"], cap["rb"] = circ, list(ra), list(rb)
        return circ, ra, rb

    def encode_spy(data, circuit, reg):
        ev.append(("enc", tuple(data.shape), [int(q) for q in reg]))
        return orig_encode(data, circuit, reg)

    g._create_quantum_circuit = create_spy
    g._encode = encode_spy
    with mock.patch.object(lowrank, "LowRankInitialize", sp_stub), \
            mock.patch.object(lowrank, "decompose_isometry", iso_stub), \
            mock.patch.object(lowrank, "decompose_unitary", uni_stub), \
            mock.patch.object(lowrank, "schmidt_decomposition", sd_spy), \
            mock.patch.object(QuantumCircuit, "cx", cx_spy):
        try:
            g._define_initialize()
        except Exception as ex:   # the real code failed on a valid input: shows up as a tie diff, then the search runs
            s = np.linalg.svd(_separation_matrix(n, v, list(part)), compute_uv=False)
            return [f"raised-{type(ex).__name__}"], [float(x) for x in s]
        finally:
            if gate is not None:   # the caller's object goes on being used: take the spies off again
                del g._create_quantum_circuit, g._encode
    s = np.linalg.svd(_separation_matrix(n, v, list(part)), compute_uv=False)
    eff = int(_effective_rank(s))
    sd = [e for e in ev if e[0] == "sd"]
    rank = sd[0][3]
    cxs = [e for e in ev if e[0] == "cx"]
    lines = [f"eff {eff}", f"rank {rank}", f"ebits {len(cxs)}",
             "rega " + " ".join(map(str, cap["ra"])), "regb " + " ".join(map(str, cap["rb"]))]
    encs = []
    i = 0
    while i < len(ev):
        if ev[i][0] == "enc":
            kind = ev[i + 1][1] if i + 1 < len(ev) and ev[i + 1][0] == "kind" else "?"
            encs.append((ev[i][1], ev[i][2], kind, i))
        i += 1
    labels = ["sv", "U", "V"] if len(encs) == 3 else ["U", "V"]
    pos_cx = [j for j, e in enumerate(ev) if e[0] == "cx"]
    out_enc = []
    for lab, (shape, reg, kind, pos) in zip(labels, encs):
        out_enc.append((pos, f"enc {' '.join(map(str, reg))} ; {lab} {kind} {shape[0]} {shape[1]}"))
    body = sorted(out_enc + [(j, f"cx {ev[j][1]} {ev[j][2]}") for j in pos_cx])
    lines += [b[1] for b in body]
    # the partition handed to schmidt_decomposition is reg_a
    if sd[0][1] != cap["ra"]:
        lines.append("sd-partition " + " ".join(map(str, sd[0][1])))
    return lines, [float(x) for x in s]


def tie_plan(ctx, v, n, part, lr, iso, uni, mode=None):
    lines, s = observe_plan(v, n, part, lr, iso, uni, mode=mode)
    ctx.tie({"op": "plan", "n": n, "P": [int(a) for a in part], "lr": lr, "s": s, "iso": iso, "uni": uni}, lines)
    ctx.count("plan:sorted" if list(part) == sorted(part) else "plan:unsorted")
    if mode:
        ctx.count("branch:tie:opts=" + mode)


def run_tie(ctx):
    from props import c09
    rng = ctx.nprng()
    nmax = 6 if ctx.quick else 7
    for n in range(2, nmax + 1):
        subsets = [list(s) for k in range(1, n) for s in itertools.combinations(range(n), k)]
        for sub in subsets:
            cands = [sub]
            if len(sub) >= 2:
                sh = list(sub)
                while sh == sorted(sh):
                    ctx.rng.shuffle(sh)
                cands.append(sh)
            mind = min(2 ** len(sub), 2 ** (n - len(sub)))
            fams = c09.families(ctx, rng, n, sub)
            pick = [fams[0], ctx.rng.choice(fams[1:])]
            for part in cands:
                for name, v in pick:
                    for lr in range(0, mind + 2):
                        iso, uni = SCHEMES[(lr + len(part)) % 2] if n > 3 else SCHEMES[0]
                        tie_plan(ctx, v, n, part, lr, iso, uni)
                        if n <= 3:
                            tie_plan(ctx, v, n, part, lr, *SCHEMES[1])
    # rank rule / ebits on its own (also tied in C09 against low_rank_approximation)
    from qclib.entanglement import low_rank_approximation, _to_qubits
    for eff in range(1, 20):
        for lr in range(0, 21):
            try:
                r = low_rank_approximation(lr, np.zeros((1, eff)), np.zeros((eff, 1)), np.ones(eff))[0]
                impl = [f"rank {int(r)}", f"ebits {int(_to_qubits(r))}"]
            except Exception as ex:
                impl = [f"raised-{type(ex).__name__}"]
            ctx.tie({"op": "rank", "lr": lr, "eff": eff}, impl)


# ---------------------------------------------------------------------------------------------
# oracle
# ---------------------------------------------------------------------------------------------

def audit_encoders(v, n, opts):
    """Which K4 encoder (qclib.isometry.decompose / qclib.unitary.unitary as called by _encode, at any
    nesting depth) does not reproduce the matrix it was given?  Returns [(kind, rows, cols, err)]."""
    from unittest import mock
    from qiskit import QuantumCircuit
    from qiskit.quantum_info import Operator, Statevector
    from qclib.state_preparation import lowrank
    found = []
    orig_iso, orig_uni = lowrank.decompose_isometry, lowrank.decompose_unitary

    def iso_chk(data, scheme="ccd"):
        c = orig_iso(data, scheme=scheme)
        err = float(np.abs(Operator(c).data[:, :data.shape[1]] - data).max())
        found.append(("iso:" + scheme, int(data.shape[0]), int(data.shape[1]), err))
        return c

    def uni_chk(data, decomposition="qsd", **k):
        c = orig_uni(data, decomposition=decomposition, **k)
        err = float(np.abs(Operator(c).data - data).max())
        found.append(("unitary:" + decomposition, int(data.shape[0]), int(data.shape[1]), err))
        return c

    with mock.patch.object(lowrank, "decompose_isometry", iso_chk), \
            mock.patch.object(lowrank, "decompose_unitary", uni_chk):
        qc = QuantumCircuit(n)
        lowrank.LowRankInitialize.initialize(qc, v, opt_params=None if opts is None else dict(opts))
        Statevector(qc)
    return found


def eval_case(task):
    """Runs in a worker process.  Returns (key, problems, info)."""
    import sys
    repo = task["repo"]
    if repo not in sys.path:
        sys.path.insert(0, repo)
    from qiskit import QuantumCircuit
    from qiskit.quantum_info import Statevector
    from qclib.state_preparation import LowRankInitialize
    from props import c09
    n, part, lr, iso, uni = task["n"], task["partition"], task["lr"], task["iso"], task["uni"]
    if task.get("rsvd_seed") is not None:
        # randomized_svd draws from a module-level unseeded generator: make the case a function of VERIF_SEED
        import qclib.entanglement as _ent
        _ent._rng = np.random.default_rng(task["rsvd_seed"])
        np.random.seed(task["rsvd_seed"] % (2 ** 32))
    v = np.array(task["re"]) + 1j * np.array(task["im"])
    if task.get("real"):
        v = np.array(task["re"])
    mref = c09.ref_sep(n, np.asarray(v, dtype=complex), sorted(part))
    uu, ss, vv = np.linalg.svd(mref, full_matrices=False)
    band = task.get("band") or c09.BAND
    if any(band[0] <= x <= band[1] for x in ss):
        return task["key"], None, {"skipped": True}
    eff = int((ss > 1e-7).sum())
    want = c09.clp2(lr if 0 < lr < eff else eff)
    vin = np.array(v, copy=True)
    opts = build_opts(task)
    opts_in = None if opts is None else {k: (list(x) if isinstance(x, list) else x) for k, x in opts.items()}
    entry = task.get("entry")
    try:
        if entry:
            # explicit wire list on a wider circuit: gate qubit i on wire entry["qubits"][i], the other wires stay |0>
            qc = QuantumCircuit(entry["width"])
            LowRankInitialize.initialize(qc, v, qubits=list(entry["qubits"]), opt_params=opts)
            full = Statevector(qc).data
            idx = [sum(((k >> i) & 1) << entry["qubits"][i] for i in range(n)) for k in range(2 ** n)]
            sv = full[idx]
            rest = np.delete(full, idx)
            if rest.size and float(np.abs(rest).max()) > 1e-7:
                return task["key"], [f"amplitude {float(np.abs(rest).max()):.2e} outside the wires {entry['qubits']}"], {}
        elif task.get("label") is not None:
            gate = LowRankInitialize(v, label=task["label"], opt_params=opts)
            if gate.label != task["label"]:
                return task["key"], [f"label {task['label']!r} passed, gate.label = {gate.label!r}"], {}
            sv = Statevector(gate.definition).data
        else:
            qc = QuantumCircuit(n)
            LowRankInitialize.initialize(qc, v, opt_params=opts)
            sv = Statevector(qc).data
    except Exception as ex:
        return task["key"], [f"raised {type(ex).__name__}: {str(ex)[:200]}"], {}
    problems = []
    if not np.array_equal(vin, v) or opts != opts_in:
        problems.append("inputs modified")
    kept = float((ss[:want] ** 2).sum())
    fid = float(abs(np.vdot(v, sv)) ** 2)
    nrm = float(np.vdot(sv, sv).real)
    if abs(nrm - 1) > 1e-7:
        problems.append(f"prepared state has squared norm {nrm}")
    if abs(fid - kept) > 1e-7:
        problems.append(f"fidelity {fid:.9f} != sum of the {want} largest squared Schmidt coefficients {kept:.9f} (eff={eff})")
    if want >= eff:
        err = float(np.abs(sv - v).max())
        if err > 1e-7:
            problems.append(f"rank {want} >= Schmidt rank {eff} but prepared state differs from the target by {err:.2e}")
    elif ss[want - 1] - ss[want] > 1e-3:
        t = (uu[:, :want] * ss[:want]) @ vv[:want]
        t = c09.ref_undo(n, t / np.linalg.norm(t), sorted(part))
        err = float(np.abs(sv - t).max())
        if err > 1e-7:
            problems.append(f"prepared state differs from the independent rank-{want} truncation by {err:.2e}")
    info = {"rank": want, "eff": eff, "fid": fid, "truncated": want < eff}
    if problems and all("differs from" in p for p in problems) and not task.get("_no_a2"):
        # state is off although rank, norm and fidelity are right: the known precision loss of qiskit's A.2 pass inside the
        # encoders (K-C07-1)?  Only if (a) an encoder called by _encode does not reproduce its own matrix AND (b) the very
        # same case has no problem at all once qclib.unitary._apply_a2 is replaced by the identity (harness-side patch);
        # a defect of lowrank.py / entanglement.py / the encoders themselves survives (b) and stays an ordinary failure.
        try:
            from unittest import mock
            import qclib.unitary as qu
            aud = audit_encoders(v, n, opts)
            worst = max(aud, key=lambda a: a[3]) if aud else None
            if worst and worst[3] > 1e-8:
                with mock.patch.object(qu, "_apply_a2", lambda circuit: circuit):
                    _, p2, _ = eval_case(dict(task, _no_a2=True))
                if p2 == []:
                    info["encoder_blame"] = {"kind": worst[0], "rows": worst[1], "cols": worst[2], "err": worst[3]}
        except Exception:
            pass
    return task["key"], problems, info


def build_opts(task):
    """opt_params as handed to the real code.  mode 'full' (default): lr, partition and both schemes; 'no-schemes': lr and
    partition only (iso_scheme / unitary_scheme defaults ccd / qsd); 'default-partition': lr only (partition = first
    ceil(n/2) qubits); 'none': opt_params=None (lr = 0, default partition, default schemes).  `svd` is added when given."""
    mode = task.get("mode") or "full"
    if mode == "none":
        return None
    opts = {"lr": task["lr"]}
    if mode != "default-partition":
        opts["partition"] = list(task["partition"])
    if mode == "full":
        opts["iso_scheme"], opts["unitary_scheme"] = task["iso"], task["uni"]
    if task.get("svd"):
        opts["svd"] = task["svd"]
    return opts


def make_task(name, n, part, v, lr, iso, uni, mode=None, svd=None, label=None, entry=None, rsvd_seed=None, band=None):
    import framework
    v = np.asarray(v)
    extra = "".join(f":{t}" for t in (mode and "opts=" + mode, svd and "svd=" + svd, label is not None and "label",
                                      entry and "qubits=" + ",".join(map(str, entry["qubits"]))) if t)
    return {"repo": framework.REPO, "family": name, "n": n, "partition": [int(a) for a in part], "lr": int(lr),
            "iso": iso, "uni": uni, "re": [float(x) for x in np.real(v)], "im": [float(x) for x in np.imag(v)],
            "real": bool(np.isrealobj(v)), "mode": mode, "svd": svd, "label": label, "entry": entry,
            "rsvd_seed": rsvd_seed, "band": None if band is None else list(band),
            "key": f"lowrank:{name}:n={n}:P={','.join(map(str, part))}:lr={lr}:{iso}/{uni}{extra}"}


REPLAY_FIELDS = ("family", "n", "partition", "lr", "iso", "uni", "re", "im", "real", "mode", "svd", "label", "entry", "rsvd_seed",
                 "band")


def report_finding(ctx, key, detail, rep):
    """A defect whose root cause lies outside C07's own logic.  It is an ordinary failure with a
    narrow key: if /verif/known_findings.json lists the key as `known` the framework prints
    KNOWN-FINDING, otherwise it is a VIOLATION (this is how a repaired defect that returns is caught)."""
    ctx.fail(key, detail, rep)
    ctx.count("finding:" + key)


def run_tasks(ctx, tasks, unsorted_probe=False):
    from concurrent.futures import ProcessPoolExecutor
    import multiprocessing as mp
    results = []
    workers = min(12, os.cpu_count() or 2)
    with ProcessPoolExecutor(max_workers=workers, mp_context=mp.get_context("fork")) as ex:
        results = list(ex.map(eval_case, tasks, chunksize=8))
    out = []
    for task, (key, problems, info) in zip(tasks, results):
        if problems is None:
            ctx.count("skipped:threshold-band")
            continue
        out.append((task, problems, info))
        if unsorted_probe:
            continue
        ctx.count(f"fam:{task['family'].rstrip('0123456789')}")
        ctx.count(f"scheme:{task['iso']}/{task['uni']}")
        if problems:
            rep = {k: task.get(k) for k in REPLAY_FIELDS}
            rep["call"] = "LowRankInitialize.initialize + Statevector"
            blame = info.get("encoder_blame")
            if blame:
                report_finding(ctx, f"lowrank.encoder-precision:{blame['kind']}",
                               f"{key}: " + "; ".join(problems) + f" -- root cause: the encoder {blame['kind']} called by _encode "
                               f"reproduces its own {blame['rows']}x{blame['cols']} matrix only to {blame['err']:.2e} "
                               "(rank, norm and fidelity are right; no problem with qclib.unitary._apply_a2 bypassed)", rep)
            else:
                ctx.fail(key, "; ".join(problems), rep)
        else:
            ctx.count("truncated" if info["truncated"] else "untruncated")
            ctx.ok(key, nontrivial=True, sample={k: task[k] for k in ("family", "n", "partition", "lr", "iso", "uni")} | info)
    return out


def gen_tasks(ctx, nmax, nfull, per_n_budget):
    from props import c09
    rng = ctx.nprng()
    tasks = []
    for n in range(2, nmax + 1):
        subsets = [list(s) for k in range(1, n) for s in itertools.combinations(range(n), k)]
        if n > nfull:
            subsets = ctx.rng.sample(subsets, min(len(subsets), per_n_budget))
        for sub in subsets:
            mind = min(2 ** len(sub), 2 ** (n - len(sub)))
            fams = c09.families(ctx, rng, n, sub)
            for name, v in fams:
                lrs = list(range(0, mind + 2))
                if n >= 5 and name not in ("complex", "repeated"):
                    lrs = sorted(set([0, 1, ctx.rng.choice(lrs)]))
                for lr in lrs:
                    if n <= 4:
                        pairs = SCHEMES
                    else:
                        pairs = (SCHEMES[(lr + len(sub)) % 2],)
                    for iso, uni in pairs:
                        tasks.append(make_task(name, n, sub, v, lr, iso, uni))
            # the same set handed over as an unsorted list (the code sorts it)
            if len(sub) >= 2:
                sh = list(sub)
                while sh == sorted(sh):
                    ctx.rng.shuffle(sh)
                for name, v in [fams[0], ctx.rng.choice(fams[1:])]:
                    for lr in sorted(set([0, 1, ctx.rng.randint(0, mind + 1)])):
                        iso, uni = SCHEMES[(lr + n) % 2]
                        tasks.append(make_task(name + "-shuffled", n, sh, v, lr, iso, uni))
    return tasks


def probe_unsorted(ctx):
    """Regression probe: LowRankInitialize with the partition given as an unsorted list.  Before the
    fix "LowRankInitialize sorts the partition before placing the isometries" the Schmidt decomposition
    was taken across sorted(partition) while V^T was placed on partition[::-1], and the prepared state
    was wrong (fidelity ~0.5 for [1, 0] on three qubits).  Fixed inputs, every run; a plain failure under
    one fixed key if it is ever wrong again."""
    rng = np.random.default_rng(7)
    tasks = []
    for n, part in ((3, [1, 0]), (3, [2, 0]), (4, [2, 0, 1]), (4, [3, 1]), (5, [4, 0, 2])):
        v = rng.normal(size=2 ** n) + 1j * rng.normal(size=2 ** n)
        v /= np.linalg.norm(v)
        for lr in (0, 1):
            tasks.append(make_task("unsorted-probe", n, part, v, lr, "ccd", "qsd"))
    res = run_tasks(ctx, tasks, unsorted_probe=True)
    bad = [(t, p) for t, p, _ in res if p]
    ctx.count("unsorted-probe:wrong", len(bad))
    ctx.count("unsorted-probe:right", len(res) - len(bad))
    if not bad:
        ctx.ok(UNSORTED_KEY, nontrivial=True)
        return
    t, p = bad[0]
    detail = (f"LowRankInitialize(v, partition={t['partition']}, lr={t['lr']}) (n={t['n']}): " + "; ".join(p) +
              f" [{len(bad)}/{len(res)} unsorted probes wrong]")
    rep = {k: t.get(k) for k in REPLAY_FIELDS}
    ctx.fail(UNSORTED_KEY, detail, rep)


AUTO_RANDOMIZED_KEY = "lowrank.auto-randomized-svd:n=14:lr=1:suboptimal"


def probe_auto_randomized(ctx):
    """Fixed 14-qubit input with the DEFAULT options and lr = 1 across a 7-qubit partition.  svd='auto' hands this size to
    randomized_svd (entanglement.py:218-231: n >= 14, rank == 1, more than round(n/2.5) partition qubits), whose rank-1
    result is only an approximation of the leading Schmidt pair when more than rank + 12 coefficients are present (and
    varies from call to call: module-level unseeded generator).  The prepared product state then has a fidelity BELOW the
    largest squared Schmidt coefficient, which contradicts the property as stated for every n.  Reported under one key."""
    from props import c09
    rng = np.random.default_rng(14)
    n, part = 14, [0, 2, 4, 6, 8, 10, 12]
    v = c09.rand_unit(rng, 2 ** n)
    t = make_task("auto-randomized-probe", n, part, v, 1, "ccd", "qsd")
    key, problems, info = eval_case(t)
    ctx.count("auto-randomized-probe:" + ("suboptimal" if problems else "optimal"))
    if not problems:
        ctx.ok(AUTO_RANDOMIZED_KEY, nontrivial=True)
        return
    rep = {k: t.get(k) for k in REPLAY_FIELDS if k not in ("re", "im")}
    rep["vector"] = "c09.rand_unit(np.random.default_rng(14), 2**14)"
    rep["call"] = "LowRankInitialize.initialize(qc, v, opt_params={'lr': 1, 'partition': [0,2,4,6,8,10,12], ...}) + Statevector"
    ctx.fail(AUTO_RANDOMIZED_KEY, f"{key}: " + "; ".join(problems) + " -- svd='auto' (default) switches to the randomized "
             "SVD for n >= 14, lr = 1, |partition| > round(n/2.5): approximate and not reproducible", rep)


PRECISION_M = [[-0.729069172542213, 0.493998485646007], [-0.5117022689246972, -0.3024283467785967],
               [-0.37965359476427246, -0.00433375675044421], [-0.24996415264692562, -0.815158763552625]]


def probe_encoder_precision(ctx):
    """Fixed 3-qubit input on which qclib.isometry.decompose(scheme='csd') (= qclib.unitary.unitary(..,
    'qsd', apply_a2=True)) reproduces its 4x2 isometry only to ~1e-5, so that the prepared state is off by
    ~1e-5 although rank and fidelity are right.  Root cause is outside C07 (C02/C03: the apply_a2
    optimisation); reported under the key lowrank.encoder-precision:iso:csd."""
    from props import c09
    m = np.array(PRECISION_M) * np.array([0.8, 0.6])
    v = c09.ref_undo(3, m, [0])
    v = v / np.linalg.norm(v)
    t = make_task("precision-probe", 3, [0], v, 0, "ccd", "qsd")
    key, problems, info = eval_case(t)
    ctx.count("precision-probe:" + ("off" if problems else "accurate"))
    if not problems:
        ctx.ok("lowrank.encoder-precision:iso:csd", nontrivial=True)
        return
    rep = {k: t.get(k) for k in REPLAY_FIELDS}
    blame = info.get("encoder_blame")
    if blame:
        report_finding(ctx, f"lowrank.encoder-precision:{blame['kind']}",
                       f"{key}: " + "; ".join(problems) + f" -- root cause: the encoder {blame['kind']} reproduces its own "
                       f"{blame['rows']}x{blame['cols']} matrix only to {blame['err']:.2e}", rep)
    else:
        ctx.fail(key, "; ".join(problems), rep)


# ---------------------------------------------------------------------------------------------
# branch coverage of the anchored sources (tools/branch_audit.py C07)
# ---------------------------------------------------------------------------------------------

UNREACHED_JUSTIFIED = {
    "qclib/state_preparation/lowrank.py:cnot_count,_cnots": "CNOT estimate of the low-rank circuit: property C10",
    "qclib/entanglement.py:_get_iota,generalized_cross_product,meyer_wallach_entanglement,geometric_entanglement,qb_approximation": "entanglement measures / QB approximation: not called by LowRankInitialize",
    "qclib/entanglement.py:schmidt_composition,_undo_separation_matrix": "inverse direction of the reshape, property C09; LowRankInitialize only decomposes",
}


def default_partition(n):
    return list(range(n // 2 + n % 2))


def product_across(rng, n, part):
    """A state of Schmidt rank exactly 1 across `part` (random complex factors on both sides)."""
    from props import c09
    return c09.with_spectrum(rng, n, sorted(part), [1.0])


def run_tie_branches(ctx):
    """Plans with options left at their defaults (lowrank.py:85-107) - the op handed to the model names the
    documented default values - and the size threshold of svd='auto' (entanglement.py:218-231)."""
    from props import c09
    rng = ctx.nprng()
    for n in (2, 3, 4, 5):
        dp = default_partition(n)
        fams = c09.families(ctx, rng, n, dp)
        for name, v in [fams[0], ctx.rng.choice(fams[1:])]:
            for lr in (0, 1, 2):
                tie_plan(ctx, v, n, dp, lr, "ccd", "qsd", mode="no-schemes")
                tie_plan(ctx, v, n, dp, lr, "ccd", "qsd", mode="default-partition")
            tie_plan(ctx, v, n, dp, 0, "ccd", "qsd", mode="none")
        sub = [n - 1] if n < 4 else [1, n - 1]
        name, v = c09.families(ctx, rng, n, sub)[0]
        for lr in (0, 1):
            tie_plan(ctx, v, n, sub, lr, "ccd", "qsd", mode="no-schemes")
    # n = 14, lr = 1, svd = 'auto': partitions of more than round(14/2.5) = 6 qubits go to randomized_svd (which returns the
    # requested rank 1 = the model's rank for lr = 1), six qubits or fewer to np.linalg.svd
    n = 14
    for part in ([0, 2, 4, 6, 8, 10, 12], [13, 1, 2, 3, 5, 8, 9, 11], [0, 3, 6, 7, 9, 13]):
        v = product_across(rng, n, part)
        tie_plan(ctx, v, n, part, 1, "ccd", "qsd")
        ctx.count("branch:tie:n=14:" + ("auto->randomized" if len(part) > 6 else "auto->regular"))


def gen_branch_tasks(ctx):
    from props import c09
    rng = ctx.nprng()
    tasks = []
    for n in (2, 3, 4, 5):
        dp = default_partition(n)
        mind = min(2 ** len(dp), 2 ** (n - len(dp)))
        fams = c09.families(ctx, rng, n, dp)
        for name, v in [fams[0], fams[1], ctx.rng.choice(fams[2:])]:
            # options left out of the dictionary / no dictionary at all
            for lr in sorted({0, 1, mind}):
                tasks.append(make_task(name, n, dp, v, lr, "ccd", "qsd", mode="no-schemes"))
                tasks.append(make_task(name, n, dp, v, lr, "ccd", "qsd", mode="default-partition"))
                ctx.count("branch:opts=no-schemes")
                ctx.count("branch:opts=default-partition")
            tasks.append(make_task(name, n, dp, v, 0, "ccd", "qsd", mode="none"))
            ctx.count("branch:opts=none")
        name, v = fams[0]
        # an explicit label; the static entry point with an explicit wire list on a wider circuit
        tasks.append(make_task(name, n, dp, v, 1, "ccd", "qsd", label=f"lr{n}"))
        ctx.count("branch:label-given")
        for lr in (0, 1):
            sub = ctx.rng.sample(range(n), ctx.rng.randint(1, n - 1))
            qs = ctx.rng.sample(range(n + 1), n)
            iso, uni = SCHEMES[(lr + n) % 2]
            nm, w = ctx.rng.choice(c09.families(ctx, rng, n, sorted(sub)))
            tasks.append(make_task(nm, n, sub, w, lr, iso, uni, entry={"width": n + 1, "qubits": qs}))
            ctx.count("branch:initialize:qubits=list")
    # svd='randomized' named explicitly: exact when the requested rank is a power of two >= Schmidt rank; only lr = 2 is
    # usable (see the note in run): a Schmidt rank <= 2 state per size
    for n, part in ((3, [0]), (4, [0, 1]), (4, [3, 1]), (5, [0, 1, 2]), (6, [1, 3, 5])):
        for spec in ([1.0], [0.8, 0.6], [1.0, 1.0]):
            v = c09.with_spectrum(rng, n, sorted(part), spec)
            tasks.append(make_task(f"spectrum{len(spec)}", n, part, v, 2, "ccd", "qsd", svd="randomized"))
            ctx.count("branch:svd=randomized:lr=2")
        v = c09.with_spectrum(rng, n, sorted(part), [0.9, 0.4])
        tasks.append(make_task("spectrum2", n, part, v, 0, "knill", "csd", svd="regular"))
        ctx.count("branch:svd=regular")
    # svd='auto' (the default) at the size where it switches to the randomized SVD: n >= 14, lr = 1 and more than
    # round(n/2.5) partition qubits; product states across the partition (rank 1: the randomized result is exact)
    n = 14
    for part in ([0, 2, 4, 6, 8, 10, 12], [0, 3, 6, 7, 9, 13]):
        v = product_across(rng, n, part)
        tasks.append(make_task("product-across", n, part, v, 1, "ccd", "qsd"))
        ctx.count("branch:n=14:" + ("auto->randomized" if len(part) > 6 else "auto->regular"))
    return tasks


# ---------------------------------------------------------------------------------------------
# boundary values: every conjunct of the SVD-routine switch of schmidt_decomposition as LowRankInitialize reaches it
# (svd='auto' and lr == 1 and n >= 14 and len(partition) > round(n/2.5)), the 1e-7 rank cut from both sides, n = 1
# ---------------------------------------------------------------------------------------------

NARROW_BAND = (5e-8, 2e-7)


def flat_spectrum(m):
    """m Schmidt coefficients without a dominant one (largest squared weight ~ 2/m) but with a clear gap between the first
    two, so that the rank-1 truncation is unique: an APPROXIMATE rank-1 SVD (randomized, rank + 12 < m samples) is visibly
    sub-optimal on it, the exact one is not."""
    return [1.0] + [float(x) for x in np.linspace(0.85, 0.5, m - 1)]


def run_tie_boundaries(ctx):
    from props import c09
    rng = ctx.nprng()
    import qclib.entanglement as ent
    ent._rng = np.random.default_rng(ctx.rng.getrandbits(63))
    spec8 = [0.7, 0.45, 0.35, 0.25, 0.2, 0.15, 0.1, 0.08]
    # plan (rank, ebits, registers, encoder kinds) at n = 13 / 14 / 15, partition size bound-1 / bound / bound+1, lr = 0 / 1 / 2 / 3
    for n in (13, 14, 15):
        b = round(n / 2.5)
        for k in (b - 1, b, b + 1):
            part = sorted(ctx.rng.sample(range(n), k))
            v = c09.with_spectrum(rng, n, part, spec8)
            for lr in (0, 1, 2, 3):
                tie_plan(ctx, v, n, part, lr, "ccd", "qsd")
                ctx.count(f"boundary:tie:svd-switch:n={n}:len-bound={k - b:+d}:lr={lr}")
    # the 1e-7 rank cut from both sides: the plan must count a coefficient of 3e-7 and drop one of 3.3e-8
    for n, part in ((3, [1]), (4, [0, 2]), (5, [1, 4]), (6, [0, 2, 5])):
        mind = min(2 ** len(part), 2 ** (n - len(part)))
        for name, tail in (("above", 3e-7), ("below", 3.3e-8)):
            spec = [0.9, tail] if mind < 4 else [0.9, 0.4, tail]
            v = c09.with_spectrum(rng, n, part, spec)
            for lr in range(0, len(spec) + 2):
                tie_plan(ctx, v, n, part, lr, *SCHEMES[lr % 2])
                ctx.count("boundary:tie:sv-cut:" + name)


def gen_boundary_tasks(ctx):
    from props import c09
    rng = ctx.nprng()
    tasks = []

    def seed():
        return ctx.rng.randrange(2 ** 31)

    def add(name, n, part, spec, lr, tag, **kw):
        v = c09.with_spectrum(rng, n, sorted(part), spec)
        tasks.append(make_task(name, n, part, v, lr, "ccd", "qsd", rsvd_seed=seed(), **kw))
        ctx.count("boundary:" + tag)

    # `n_qubits >= 14` with the other conjuncts true (lr = 1, more than round(n/2.5) partition qubits): below 14 the exact SVD
    # must be used, i.e. the fidelity is the largest squared coefficient also when there are more than 13 of them.  The
    # prepared state is a product of two states of <= 7 qubits, so the Statevector stays cheap.
    for n in ((8, 10, 12, 13) if ctx.quick else (8, 9, 10, 11, 12, 13)):
        k = round(n / 2.5) + 1
        part = ctx.rng.sample(range(n), k)
        m = min(2 ** k, 2 ** (n - k), 24)
        add(f"flat{m}", n, part, flat_spectrum(m), 1, f"n-conjunct:n={n}:len={k}:lr=1:coeffs={m}")
    for n in (10, 13):
        k = round(n / 2.5)
        part = ctx.rng.sample(range(n), k)
        m = min(2 ** k, 24)
        add(f"flat{m}", n, part, flat_spectrum(m), 1, f"n-conjunct:n={n}:len={k}(at-bound):lr=1:coeffs={m}")
    # `len(partition) > round(n/2.5)` at n = 14, 15: AT the bound the exact SVD is used (any number of coefficients); above
    # it the randomized routine, which is exact up to rank + 12 = 13 coefficients (more: known finding K-C07-2, fixed probe)
    for n in (14, 15):
        b = round(n / 2.5)
        add("flat24", n, ctx.rng.sample(range(n), b), flat_spectrum(24), 1, f"len-conjunct:n={n}:len={b}(at-bound):lr=1:coeffs=24")
        add("flat13", n, ctx.rng.sample(range(n), b + 1), flat_spectrum(13), 1, f"len-conjunct:n={n}:len={b + 1}(above):lr=1:coeffs=13")
    # `svd == 'auto'`: svd='regular' named explicitly at the live point
    add("flat24", 14, ctx.rng.sample(range(14), 7), flat_spectrum(24), 1, "svd-option:regular:n=14:len=7:lr=1:coeffs=24", svd="regular")
    # `rank == 1`: lr = 0 and lr = 2 at the live point go to the exact SVD
    part = ctx.rng.sample(range(14), 7)
    add("spectrum2", 14, part, [0.8, 0.6], 0, "rank-conjunct:n=14:len=7:lr=0")
    add("flat24", 14, part, flat_spectrum(24), 2, "rank-conjunct:n=14:len=7:lr=2:coeffs=24")
    # the 1e-7 cut, below: the dropped coefficient (3.3e-8) is within the comparison tolerance
    for n, part in ((3, [1]), (4, [0, 2]), (5, [1, 4])):
        mind = min(2 ** len(part), 2 ** (n - len(part)))
        spec = [0.9, 3.3e-8] if mind < 4 else [0.9, 0.4, 3.3e-8]
        for lr in range(0, len(spec) + 1):
            add("edge-tail-below", n, part, spec, lr, "sv-cut:below(3.3e-8)", band=NARROW_BAND)
    return tasks


def probe_one_qubit(ctx):
    """`self.num_qubits < 2` (lowrank.py:115): one below the property's n >= 2 - the initializer hands over to TopDownInitialize."""
    from qiskit.quantum_info import Statevector
    from qclib.state_preparation import LowRankInitialize
    from props import c09
    rng = ctx.nprng()
    for i, v in enumerate((c09.rand_unit(rng, 2), c09.rand_unit(rng, 2, real=True), np.array([0.0, 1.0]), np.array([1.0, 0.0]))):
        key = f"lowrank:n=1:{i}"
        try:
            sv = Statevector(LowRankInitialize(v, opt_params={"lr": i % 2}).definition).data
        except Exception as ex:
            ctx.fail(key, f"raised {type(ex).__name__}: {ex}", {"call": "LowRankInitialize(v).definition", "vector": [complex(x) for x in v]})
            continue
        err = float(np.abs(sv - v).max())
        ctx.count("boundary:n=1")
        if err > 1e-7:
            ctx.fail(key, f"one-qubit state off by {err:.2e}", {"call": "LowRankInitialize(v).definition", "vector": [str(complex(x)) for x in v]})
        else:
            ctx.ok(key, nontrivial=False)


def probe_randomized_nested(ctx):
    """Observation outside C07's quantifier (it ranges over partitions, ranks and the two scheme options, not over `svd`):
    with svd='randomized' named explicitly every nested LowRankInitialize built by _encode inherits svd='randomized' with
    lr = 0, randomized_svd then returns zero columns and log2(0) raises.  So lr = 1 (and lr >= 4) cannot be used with it."""
    from qiskit import QuantumCircuit
    from qiskit.quantum_info import Statevector
    from qclib.state_preparation import LowRankInitialize
    from props import c09
    v = c09.with_spectrum(np.random.default_rng(5), 3, [0], [1.0])
    try:
        qc = QuantumCircuit(3)
        LowRankInitialize.initialize(qc, v, opt_params={"lr": 1, "partition": [0], "svd": "randomized"})
        Statevector(qc)
        ctx.count("observed:svd=randomized,lr=1:works")
    except Exception as ex:
        ctx.count("observed:svd=randomized,lr=1:raises")
        ctx.notes.append("outside the property (svd is not in C07's quantifier; C01 lists svd in {auto, regular}): "
                         "LowRankInitialize(v, opt_params={'lr': 1, 'partition': [0], 'svd': 'randomized'}) on a 3-qubit product "
                         f"state raises {type(ex).__name__}: {str(ex)[:80]} - the nested initializers inherit svd='randomized' "
                         "with lr = 0 and randomized_svd(rank=0) returns no columns; the randomized cases of the oracle "
                         "therefore use lr = 2 only")


# ---------------------------------------------------------------------------------------------
# input diversity: the FORM of otherwise ordinary inputs (element types, scale structure, sign / phase structure, call
# forms, loop-count sizes) for every public entry point the property names:
#   ctor    LowRankInitialize(params, label=None, opt_params=None) + .definition
#   static  LowRankInitialize.initialize(q_circuit, state, qubits=None, opt_params=None), with qubits=None on a host of
#           exactly n qubits and with an explicit qubit list on a LARGER host (permuted, non-ascending, non-contiguous)
#
#   form                                                    ctor           static qubits=None   static qubits=[...]
#   ------------------------------------------------------  -------------  -------------------  ---------------------
#   1 state: int list / int tuple / int64 (basis, +-1)      div_types      div_types            div_types
#     float / complex list, tuple, numpy scalars            div_types      div_types            div_types
#     float64, complex128, complex with zero imaginary      div_types      div_types (+gen_tasks) div_types
#     negative zeros (real, complex)                        div_types      div_types            div_types
#     float32 / complex64 exactly representable             div_types      div_types            div_types
#     float32 / complex64 generic (reduced precision)       div_types      div_types            div_types
#   1 partition: list / tuple / int64 array / range /       div_partition  div_partition        div_partition
#     numpy ints / unsorted (list, tuple, array) / None /
#     key absent / the complement
#   1 lr: int / numpy int64 / None / 0 / absent / > rank /  div_lr         div_lr               div_lr
#     power of two or not (r' = next power of two)
#   2 Schmidt spectrum heavy head + light tail, all equal,  div_scale      div_scale (+gen_tasks: div_scale
#     repeated, product; amplitudes heavy head + light                     small-tail, repeated,
#     tail (start / end / mixed), sparse, one amplitude                    basis, ghz, w)
#     (also at the last index), norm in one half
#   3 all-negative reals, purely imaginary, global phase    div_phase      div_phase            div_phase
#     -1 / i / -i, per-entry phases +-1 / +-i
#   4 opt_params None / {} / one key at a time / every key  div_calls      div_calls            div_calls
#     non-default / every value None; positional and
#     keyword calls; label=
#   4 host of several registers in different orders;        -              div_calls (register  div_calls (ints, tuple, numpy
#     qubits as ints / Qubit objects / mixed / register                    orders)              ints, range, Qubit objects,
#     slices / a whole register; idle host qubits in a                                          mixed, slices, register)
#     non-trivial state
#   4 same dict object (and same state object) reused with  div_calls      div_calls            div_calls
#     changed contents; gate appended twice; copy() before  (twice / copy / inverse / to_gate / to_instruction are forms
#     .definition; inverse(); definition.to_gate() /         of the constructed gate, placed on a permuted host)
#     to_instruction()
#   5 n = 1 (no bipartition), n = 2 ([0], [1]), n = 3       div_sizes      div_sizes (+gen_tasks: div_sizes
#     (1|2, 2|1), n = 4 (2|2, 1|3, 3|1), n = 5; lr 0..5;                   every subset, n <= 5)
#     default partition at n = 2..5
#
# Tie (Drivers/C07.lean, op "plan"): every case with n >= 2 that constructs a gate through ctor / static / copy / reuse also
# has the plan of THAT gate object (for the static helper: the object found in the host circuit) observed and diffed
# against the model, which is asked about the canonical values (partition as a list of ints in the given order, lr as an
# int, None / absent options by their documented defaults).  The model does not cover: the dtype / container of the state
# (the plan only depends on its Schmidt spectrum), the wires of a host, idle qubits, twice / inverse / to_gate, n = 1
# - those are oracle only.
# Oracle per prepared state: squared norm 1; fidelity = sum of the r' largest squared Schmidt coefficients; Schmidt
# spectrum of the PREPARED state across the partition = the renormalised r' largest coefficients (rank and weights: unique
# also when coefficients are tied); entry-wise equal to the target when r' >= Schmidt rank (global phase included) and to
# the independent normalised truncation when the cut is not inside a cluster (gap > 1e-6); on a host: product with the
# untouched idle-qubit state, gate on the listed wires in the listed order; inputs (state, opt_params, qubit list) not
# modified.  Tolerance 1e-7; generic float32 / complex64 inputs: ValueError "Sum of amplitudes-squared does not equal
# one." (the documented rejection) or correct for the normalised up-cast input to 1e-5.
# ---------------------------------------------------------------------------------------------

DIV_GAP = 1e-6
DIV_KEYS_ALL = ("lr", "partition", "iso_scheme", "unitary_scheme", "svd")
DIV_REDUCED = ("f32", "c64")


def div_state(spec):
    """The state in the container / element type named by spec['etype'], from the canonical complex128 values."""
    vc = np.array(spec["re"], dtype=float) + 1j * np.array(spec["im"], dtype=float)
    et = spec["etype"]
    isreal = not np.any(vc.imag != 0)
    if et == "c128":
        return vc.copy()
    if et == "czero":             # complex dtype, imaginary parts exactly +0.0
        return np.array([complex(x.real, 0.0) for x in vc], dtype=np.complex128)
    if et == "f64":
        return vc.real.copy()
    if et in ("f32", "f32-exact"):
        return vc.real.astype(np.float32)
    if et in ("c64", "c64-exact"):
        return vc.astype(np.complex64)
    if et == "i64":
        return np.array([int(round(x)) for x in vc.real], dtype=np.int64)
    if et == "intlist":
        return [int(round(x)) for x in vc.real]
    if et == "inttuple":
        return tuple(int(round(x)) for x in vc.real)
    if et == "floatlist":
        return [float(x) for x in vc.real]
    if et == "complexlist":
        return [complex(x) for x in vc]
    if et == "tuple":
        return tuple(float(x.real) for x in vc) if isreal else tuple(complex(x) for x in vc)
    if et == "npscalars":         # a plain list of numpy scalars of mixed kinds
        out = []
        for i, x in enumerate(vc):
            if x.imag != 0:
                out.append(np.complex128(x))
            elif float(x.real).is_integer() and i % 2 == 0:
                out.append(np.int64(int(x.real)))
            elif i % 3 == 0:
                out.append(np.complex128(x))
            else:
                out.append(np.float64(x.real))
        return out
    if et == "negzero":           # every zero (entry, real part, imaginary part) is a NEGATIVE zero
        if isreal:
            return np.array([(-0.0 if x == 0 else float(x)) for x in vc.real], dtype=np.float64)
        return np.array([complex(-0.0 if x.real == 0 else x.real, -0.0 if x.imag == 0 else x.imag) for x in vc],
                        dtype=np.complex128)
    if et == "negzero-c":         # real data in a complex array whose imaginary parts are all -0.0
        return np.array([complex(-0.0 if x == 0 else float(x), -0.0) for x in vc.real], dtype=np.complex128)
    raise KeyError(et)


def div_part_obj(part, ptype):
    part = [int(a) for a in part]
    if ptype == "list":
        return list(part)
    if ptype == "tuple":
        return tuple(part)
    if ptype == "ndarray":
        return np.array(part, dtype=np.int64)
    if ptype == "npints":
        return [np.int64(a) for a in part]
    if ptype == "range":
        r = range(part[0], part[-1] + 1)
        assert list(r) == part
        return r
    if ptype == "none":
        return None
    raise KeyError(ptype)


def div_lr_obj(lr, lrtype):
    if lrtype == "int":
        return int(lr)
    if lrtype == "np.int64":
        return np.int64(lr)
    if lrtype in ("np.int32", "np.uint8", "np.intp"):
        return getattr(np, lrtype[3:])(lr)
    if lrtype == "none":
        return None
    raise KeyError(lrtype)


def div_opts(o):
    """opt_params as handed to the real code; o['keys'] = None -> no dictionary, otherwise exactly these keys in this order."""
    if o.get("keys") is None:
        return None
    d = {}
    for k in o["keys"]:
        if k == "lr":
            d[k] = div_lr_obj(o.get("lr", 0), o.get("lrtype", "int"))
        elif k == "partition":
            d[k] = div_part_obj(o["partition"], o.get("ptype", "list")) if o.get("ptype") != "none" else None
        elif k == "iso_scheme":
            d[k] = o.get("iso")
        elif k == "unitary_scheme":
            d[k] = o.get("uni")
        elif k == "svd":
            d[k] = o.get("svd")
        else:
            raise KeyError(k)
    return d


def div_canon(o, n):
    """What the options MEAN (documented defaults for absent / None entries): partition list, lr, iso, uni."""
    keys = o.get("keys") or []
    part = [int(a) for a in o["partition"]] if ("partition" in keys and o.get("ptype") != "none") else default_partition(n)
    lr = int(o.get("lr", 0)) if ("lr" in keys and o.get("lrtype") != "none") else 0
    iso = o["iso"] if ("iso_scheme" in keys and o.get("iso")) else "ccd"
    uni = o["uni"] if ("unitary_scheme" in keys and o.get("uni")) else "qsd"
    return part, lr, iso, uni


def div_snapshot(x):
    """Structure + values + element types of a caller-owned object, to see whether the library modified it."""
    if isinstance(x, dict):
        return ("dict", [(k, div_snapshot(v)) for k, v in x.items()])
    if isinstance(x, np.ndarray):
        return ("nd", str(x.dtype), x.shape, x.tobytes())
    if isinstance(x, (list, tuple)):
        return (type(x).__name__, [div_snapshot(v) for v in x])
    if isinstance(x, range):
        return ("range", x.start, x.stop, x.step)
    if isinstance(x, np.generic):
        return (type(x).__name__, x.tobytes())
    if isinstance(x, float):
        return ("float", x.hex())
    if isinstance(x, complex):
        return ("complex", x.real.hex(), x.imag.hex())
    return (type(x).__name__, repr(x))


def div_host(h, n):
    """Host circuit from its JSON description: registers in the given order, every idle wire rotated into a non-trivial
    state; the qubit specifier in the requested form; the wires (global indices) the gate qubits must land on, in order."""
    from qiskit import QuantumCircuit, QuantumRegister
    regs = [QuantumRegister(int(sz), nm) for nm, sz in h["regs"]]
    qc = QuantumCircuit(*regs)
    byname = {r.name: r for r in regs}
    offs, o = {}, 0
    for r in regs:
        offs[r.name] = o
        o += r.size
    width = o
    qform = h["qform"]

    def conv(wires, form):
        if form == "ints":
            return [int(w) for w in wires]
        if form == "tuple":
            return tuple(int(w) for w in wires)
        if form == "npints":
            return [np.int64(w) for w in wires]
        if form == "ndarray":
            return np.array(wires, dtype=np.int64)
        if form == "range":
            r = range(wires[0], wires[-1] + 1)
            assert list(r) == list(wires)
            return r
        if form == "qubits":
            return [qc.qubits[w] for w in wires]
        if form == "qubit-tuple":
            return tuple(qc.qubits[w] for w in wires)
        if form == "mixed":
            return [qc.qubits[w] if i % 2 == 0 else int(w) for i, w in enumerate(wires)]
        raise KeyError(form)

    if qform == "none":
        wires, qobj = list(range(width)), None
    elif qform == "register":
        r = byname[h["register"]]
        wires, qobj = [offs[r.name] + i for i in range(r.size)], r
    elif qform == "slices":
        wires, qobj = [], []
        for nm, a, b in h["slices"]:
            qobj = qobj + byname[nm][a:b]
            wires += [offs[nm] + i for i in range(a, b)]
    else:
        wires = [int(w) for w in h["qubits"]]
        qobj = conv(wires, qform)
    assert len(wires) == n and len(set(wires)) == n, (wires, n)
    wires2, qobj2 = None, None
    if h.get("qubits2") is not None:
        wires2 = [int(w) for w in h["qubits2"]]
        qobj2 = conv(wires2, "ints" if qform in ("none", "register", "slices", "range") else qform)
    used = set(wires) | set(wires2 or [])
    idle = {}
    for w in range(width):
        if w not in used:
            th, ph = h["idle"][w]
            qc.ry(th, w)
            qc.rz(ph, w)
            idle[w] = np.array([math.cos(th / 2) * np.exp(-0.5j * ph), math.sin(th / 2) * np.exp(0.5j * ph)])
    return qc, qobj, wires, qobj2, wires2, idle, width


def div_contract(full, width, wires, rest):
    """<rest| full> on the wires `wires` (gate qubit j = wires[j]); rest = {wire: one-qubit state} for all other wires."""
    n = len(wires)
    sv = np.zeros(2 ** n, dtype=complex)
    others = sorted(rest)
    for i in range(2 ** width):
        a = full[i]
        if a == 0:
            continue
        for w in others:
            a = a * np.conj(rest[w][(i >> w) & 1])
        k = 0
        for j in range(n):
            k |= ((i >> wires[j]) & 1) << j
        sv[k] += a
    return sv


def div_embed(width, placements, idle):
    """Host state: vec on its wires (vector index bit j = wires[j]) for every placement, times the idle one-qubit states."""
    full = np.zeros(2 ** width, dtype=complex)
    for i in range(2 ** width):
        a = 1.0 + 0j
        for wires, vec in placements:
            k = 0
            for j, w in enumerate(wires):
                k |= ((i >> w) & 1) << j
            a = a * vec[k]
        for w, st in idle.items():
            a = a * st[(i >> w) & 1]
        full[i] = a
    return full


def div_truncation(vc, n, part, lr):
    """(the state the property demands or None where it is not unique, sum of the r' largest squared coefficients)."""
    from props import c09
    if n < 2:
        return np.asarray(vc, dtype=complex), 1.0
    sp = sorted(part)
    uu, ss, vv = np.linalg.svd(c09.ref_sep(n, np.asarray(vc, dtype=complex), sp), full_matrices=False)
    eff = int((ss > 1e-7).sum())
    want = c09.clp2(lr if 0 < lr < eff else eff)
    kept = float((ss[:want] ** 2).sum())
    if want >= eff:
        return np.asarray(vc, dtype=complex), kept
    if ss[want - 1] - ss[want] <= DIV_GAP:
        return None, kept
    t = (uu[:, :want] * ss[:want]) @ vv[:want]
    return c09.ref_undo(n, t / np.linalg.norm(t), sp), kept


def div_check(sv, vc, n, part, lr, tol, band, tag=""):
    """Problems of ONE prepared state against the property (None: a Schmidt coefficient inside the excluded band)."""
    from props import c09
    problems = []
    nrm = float(np.vdot(sv, sv).real)
    if abs(nrm - 1) > tol:
        problems.append(f"{tag}prepared state has squared norm {nrm:.9f} (on a host: not a product with the idle-qubit state)")
    if n < 2:
        err = float(np.abs(sv - vc).max())
        if err > tol:
            problems.append(f"{tag}one-qubit state differs from the target by {err:.2e}")
        return problems, {"rank": 1, "eff": 1, "truncated": False}
    sp = sorted(part)
    uu, ss, vv = np.linalg.svd(c09.ref_sep(n, np.asarray(vc, dtype=complex), sp), full_matrices=False)
    if any(band[0] <= x <= band[1] for x in ss):
        return None, {}
    eff = int((ss > 1e-7).sum())
    want = c09.clp2(lr if 0 < lr < eff else eff)
    kept = float((ss[:want] ** 2).sum())
    fid = float(abs(np.vdot(vc, sv)) ** 2)
    if abs(fid - kept) > tol:
        problems.append(f"{tag}fidelity {fid:.9f} != sum of the {want} largest squared Schmidt coefficients {kept:.9f} (eff={eff})")
    got = np.linalg.svd(c09.ref_sep(n, np.asarray(sv, dtype=complex), sp), compute_uv=False)
    exp = np.zeros_like(got)
    exp[:want] = ss[:want] / math.sqrt(kept)
    if float(np.abs(got - exp).max()) > tol:
        problems.append(f"{tag}Schmidt spectrum of the prepared state {np.round(got, 8).tolist()} differs from the renormalised "
                        f"{want} largest coefficients {np.round(exp, 8).tolist()}")
    if want >= eff:
        err = float(np.abs(sv - vc).max())
        if err > tol:
            problems.append(f"{tag}rank {want} >= Schmidt rank {eff} but prepared state differs from the target by {err:.2e}")
    elif ss[want - 1] - ss[want] > DIV_GAP:
        t = (uu[:, :want] * ss[:want]) @ vv[:want]
        t = c09.ref_undo(n, t / np.linalg.norm(t), sp)
        err = float(np.abs(sv - t).max())
        if err > tol:
            problems.append(f"{tag}prepared state differs from the independent rank-{want} truncation by {err:.2e}")
    return problems, {"rank": want, "eff": eff, "fid": fid, "truncated": want < eff}


def div_call(spec, state, opts, vc, simulate=True):
    """Executes the call form on the real code.  Returns (gates, obs, problems): gates = [(gate object, options meaning)]
    in construction order (for the tie), obs = [(tag, prepared state on the gate qubits, options meaning)]."""
    from qiskit import QuantumCircuit
    from qiskit.quantum_info import Statevector
    from qclib.state_preparation import LowRankInitialize
    n, call = spec["n"], spec["call"]
    canon = div_canon(spec, n)
    gates, obs, problems, hint = [], [], [], []

    def sim(circ):
        return Statevector(circ).data if simulate else None

    def on_host(h, place, tag, canon_, expect_zero=False):
        """`place(qc, qobj, qobj2)` puts the gate(s) on the host; returns the gate found on the listed wires."""
        qc, qobj, wires, qobj2, wires2, idle, width = div_host(h, n)
        snap = div_snapshot(qobj), div_snapshot(qobj2)
        before = len(qc.data)
        place(qc, qobj, qobj2)
        if (div_snapshot(qobj), div_snapshot(qobj2)) != snap:
            problems.append(f"{tag}the caller's qubit list was modified")
        new = qc.data[before:]
        got = [[qc.find_bit(q).index for q in inst.qubits] for inst in new]
        want_wires = [wires] + ([wires2] if wires2 is not None else [])
        if expect_zero:
            want_wires = [wires, wires]
        if simulate:
            full = Statevector(qc).data
            if expect_zero:
                e0 = {w: np.array([1.0, 0.0]) for w in wires}
                amp = div_contract(full, width, [], {**idle, **e0})[0]
                if abs(abs(amp) - 1) > 1e-7 or abs(amp - 1) > 1e-7:
                    problems.append(f"{tag}gate followed by its inverse() leaves amplitude {complex(amp):.9f} on |0..0> x idle state")
            elif wires2 is None:
                obs.append((tag, div_contract(full, width, wires, idle), canon_))
            else:
                # two placements of ONE gate object: the host must carry t (x) t (x) idle, t = the (unique) state the gate
                # prepares according to the property; where the truncation is not unique only the fidelity is compared
                part, lr, _, _ = canon_
                t, kept = div_truncation(vc, n, part, lr)
                if t is not None:
                    err = float(np.abs(full - div_embed(width, [(wires, t), (wires2, t)], idle)).max())
                    if err > 1e-7:
                        problems.append(f"{tag}host state differs from t (x) t (x) idle by {err:.2e} (one gate object on wires "
                                        f"{wires} and {wires2})")
                fid = float(abs(np.vdot(div_embed(width, [(wires, vc), (wires2, vc)], idle), full)) ** 2)
                if abs(fid - kept ** 2) > 1e-7:
                    problems.append(f"{tag}fidelity of the two placements {fid:.9f} != {kept ** 2:.9f}")
        if got != want_wires:       # not judged by itself (an equivalent placement is fine): said when the state is wrong
            hint.append(f"{tag}appended on wires {got}, requested {want_wires}")
        return [inst.operation for inst in new]

    if call in ("ctor", "ctor-positional", "ctor-kw", "ctor-bare"):
        if call == "ctor":
            g = LowRankInitialize(state, opt_params=opts)
        elif call == "ctor-positional":
            g = LowRankInitialize(state, spec.get("label"), opts)
        elif call == "ctor-kw":
            g = LowRankInitialize(opt_params=opts, label=spec.get("label"), params=state)
        else:
            assert opts is None
            g = LowRankInitialize(state)
        want_label = spec.get("label") if call in ("ctor-positional", "ctor-kw") and spec.get("label") is not None else "LRSP"
        if g.label != want_label:
            problems.append(f"label {want_label!r} expected, gate.label = {g.label!r}")
        gates.append((g, canon))
        obs.append(("", sim(g.definition), canon))
    elif call in ("static", "static-positional", "static-bare"):
        def place(qc, qobj, _):
            if call == "static":
                LowRankInitialize.initialize(qc, state, qubits=qobj, opt_params=opts)
            elif call == "static-positional":
                LowRankInitialize.initialize(qc, state, qobj, opts)
            else:
                assert opts is None and qobj is None
                LowRankInitialize.initialize(qc, state)
        ops = on_host(spec["host"], place, "", canon)
        if len(ops) == 1 and isinstance(ops[0], LowRankInitialize):
            gates.append((ops[0], canon))
        else:                       # nothing to observe for the tie; the prepared state is judged all the same
            hint.append(f"initialize appended {[type(o).__name__ for o in ops]}, not one LowRankInitialize")
    elif call in ("to_gate", "to_instruction"):
        g = LowRankInitialize(state, opt_params=opts)
        gates.append((g, canon))
        sub = g.definition.to_gate() if call == "to_gate" else g.definition.to_instruction()
        on_host(spec["host"], lambda qc, qobj, _: qc.append(sub, qobj), "", canon)
    elif call == "twice":
        g = LowRankInitialize(state, opt_params=opts)
        gates.append((g, canon))

        def place(qc, qobj, qobj2):
            qc.append(g, qobj)
            qc.append(g, qobj2)
        on_host(spec["host"], place, "", canon)
    elif call == "copy":
        g = LowRankInitialize(state, label=spec.get("label"), opt_params=opts)
        g2 = g.copy()                      # before .definition was ever read
        if g2.label != g.label:
            problems.append(f"copy() changed the label {g.label!r} -> {g2.label!r}")
        gates.append((g2, canon))
        obs.append(("copy: ", sim(g2.definition), canon))
        obs.append(("original after the copy was used: ", sim(g.definition), canon))
        g3 = g.copy()                      # after .definition was read
        on_host(spec["host"], lambda qc, qobj, _: qc.append(g3, qobj), "second copy on a host: ", canon)
    elif call == "inverse":
        g = LowRankInitialize(state, label=spec.get("label"), opt_params=opts)
        gi = g.inverse()
        base = spec.get("label") if spec.get("label") is not None else "LRSP"
        if gi.label != base + "_dg" or g.label != base:
            problems.append(f"labels after inverse(): gate {g.label!r}, inverse {gi.label!r} (expected {base!r}, {base + '_dg'!r})")
        gates.append((g, canon))
        obs.append(("gate after inverse() was taken: ", sim(g.definition), canon))

        def place(qc, qobj, _):
            qc.append(g, qobj)
            qc.append(gi, qobj)
        on_host(spec["host"], place, "", canon, expect_zero=True)
        if simulate and n >= 1:
            # the inverse maps the prepared state back: evolve the gate's own output
            back = Statevector(obs[-1][1]).evolve(gi.definition).data
            if abs(back[0] - 1) > 1e-7:
                problems.append(f"inverse().definition maps the prepared state to amplitude {complex(back[0]):.9f} on |0..0>")
    elif call == "reuse":
        # ONE dict object (and one state object) for two consecutive constructions, contents changed in between
        sec = spec["second"]
        canon2 = div_canon(sec, n)
        d = opts
        g1 = LowRankInitialize(state, opt_params=d)
        snap1 = div_snapshot(d)
        sv1_early = sim(g1.definition) if spec.get("read_between") else None
        if div_snapshot(d) != snap1:
            problems.append("the caller's opt_params was modified by the first construction / definition")
        new = div_opts(sec)
        d.clear()
        d.update(new)
        snap2 = div_snapshot(d)
        h = spec.get("host")
        if h is None:
            g2 = LowRankInitialize(state, opt_params=d)
            obs.append(("second construction with the reused dict: ", sim(g2.definition), canon2))
        else:
            ops = on_host(h, lambda qc, qobj, _: LowRankInitialize.initialize(qc, state, qubits=qobj, opt_params=d),
                          "second call (static, reused dict): ", canon2)
            g2 = ops[0]
        obs.append(("first construction (dict changed afterwards): ", sim(g1.definition) if sv1_early is None else sv1_early, canon))
        if div_snapshot(d) != snap2:
            problems.append("the caller's opt_params was modified by the second construction / definition")
        gates.append((g1, canon))
        if isinstance(g2, LowRankInitialize):
            gates.append((g2, canon2))
    else:
        raise KeyError(call)
    return gates, obs, problems, hint


def div_eval(spec):
    """Runs in a worker process.  Returns (key, problems, info); problems None = skipped (excluded band)."""
    import sys
    repo = spec["repo"]
    if repo not in sys.path:
        sys.path.insert(0, repo)
    n = spec["n"]
    state = div_state(spec)
    vc = np.asarray(state, dtype=complex).reshape(-1)
    reduced = spec["etype"] in DIV_REDUCED
    tol = 1e-5 if reduced else 1e-7
    if reduced:
        vc = vc / np.linalg.norm(vc)
    else:
        want = np.array(spec["re"], dtype=float) + 1j * np.array(spec["im"], dtype=float)
        if not np.array_equal(vc, want):
            return spec["key"], [f"internal: the {spec['etype']} form does not carry the canonical values exactly"], {}
    band = spec.get("band") or NARROW_BAND
    opts = div_opts(spec)
    snap_state, snap_opts = div_snapshot(state), div_snapshot(opts)
    want_tie = bool(spec.get("tie")) and n >= 2 and spec["call"] in DIV_TIE_CALLS
    try:
        gates, obs, problems, hint = div_call(spec, state, opts, vc)
    except Exception as ex:
        if reduced and isinstance(ex, ValueError) and "amplitudes-squared does not equal one" in str(ex):
            return spec["key"], [], {"rejected": True}
        if (spec.get("host") or {}).get("qform") == "ndarray" and isinstance(ex, (ValueError, TypeError)):
            # a numpy array as qubit specifier: qiskit's append does not take it (nothing in qclib claims it) - recorded only
            return spec["key"], [], {"unsupported": type(ex).__name__}
        return spec["key"], [f"raised {type(ex).__name__}: {str(ex)[:200]}"], {"ties": div_tie_lines(spec, None, vc) if want_tie else []}
    if div_snapshot(state) != snap_state:
        problems.append("the caller's state object was modified")
    if spec["call"] != "reuse" and div_snapshot(opts) != snap_opts:
        problems.append("the caller's opt_params was modified")
    info = {}
    for tag, sv, (part, lr, iso, uni) in obs:
        p, inf = div_check(sv, vc, n, part, lr, tol, band, tag)
        if p is None:
            return spec["key"], None, {"skipped": True}
        problems += p
        info = info or inf
    if problems and hint:
        problems += ["(" + x + ")" for x in hint]
    if want_tie:
        try:
            info["ties"] = div_tie_lines(spec, gates, vc)
        except Exception as ex:     # an exception of the observer itself must not look like a violation
            info["ties"] = []
            info["tie_error"] = f"{type(ex).__name__}: {str(ex)[:120]}"
    if problems and all("differs from" in p for p in problems) and n >= 2 and not spec.get("_no_a2"):
        # state off although norm and fidelity are right: the known precision loss of qiskit's A.2 pass inside the encoders
        # (K-C07-1)?  Only if (a) an encoder called by _encode does not reproduce its own matrix AND (b) the very same case
        # has no problem at all once qclib.unitary._apply_a2 is replaced by the identity (harness-side patch) - a defect of
        # lowrank.py / entanglement.py on a light-tail state survives (b) and stays an ordinary failure.
        try:
            from unittest import mock
            import qclib.unitary as qu
            part, lr, iso, uni = div_canon(spec, n)
            aud = audit_encoders(vc, n, {"lr": lr, "partition": part, "iso_scheme": iso, "unitary_scheme": uni})
            worst = max(aud, key=lambda a: a[3]) if aud else None
            if worst and worst[3] > 1e-8:
                with mock.patch.object(qu, "_apply_a2", lambda circuit: circuit):
                    _, p2, _ = div_eval(dict(spec, tie=False, _no_a2=True))
                if p2 == []:
                    info["encoder_blame"] = {"kind": worst[0], "rows": worst[1], "cols": worst[2], "err": worst[3]}
        except Exception:
            pass
    return spec["key"], problems, info


def div_spec(fam, name, n, v, *, etype="c128", partition=None, ptype="list", lr=0, lrtype="int", keys=("lr", "partition"),
             iso=None, uni=None, svd=None, call="ctor", host=None, label=None, second=None, read_between=False, band=None):
    import framework
    v = np.asarray(v)
    keys = None if keys is None else list(keys)
    part = None if partition is None else [int(a) for a in partition]
    kk = "none" if keys is None else ("{}" if not keys else "+".join(k.split("_")[0] for k in keys))
    hh = ""
    if host is not None:
        hh = ":host=" + "".join(f"{nm}{sz}" for nm, sz in host["regs"]) + "/" + host["qform"]
        if host.get("qubits") is not None and host["qform"] != "none":
            hh += "[" + ",".join(map(str, host["qubits"])) + "]"
        if host.get("qubits2") is not None:
            hh += "+[" + ",".join(map(str, host["qubits2"])) + "]"
        if host.get("slices") is not None:
            hh += "[" + ",".join(f"{a}{b}:{c}" for a, b, c in host["slices"]) + "]"
        if host.get("register") is not None:
            hh += "[" + host["register"] + "]"
    key = (f"div:{fam}:{name}:n={n}:{etype}:P={'-' if part is None else ','.join(map(str, part))}/{ptype}:lr={lr}/{lrtype}:"
           f"opts={kk}:{iso or '-'}/{uni or '-'}/{svd or '-'}:{call}{hh}")
    if label == "":
        key += ":label=''"
    if second is not None:
        key += f":then-lr={second.get('lr')}:P={','.join(map(str, second.get('partition') or []))}"
    return {"div": True, "repo": framework.REPO, "fam": fam, "name": name, "n": int(n), "key": key,
            "re": [float(x) for x in np.real(v)], "im": [float(x) for x in np.imag(v)], "etype": etype,
            "partition": part, "ptype": ptype, "lr": None if lr is None else int(lr), "lrtype": lrtype, "keys": keys,
            "iso": iso, "uni": uni, "svd": svd, "call": call, "host": host, "label": label, "second": second,
            "read_between": bool(read_between), "band": None if band is None else list(band)}


# ---- hosts ----------------------------------------------------------------------------------------------------------

def div_idle(ctx, width):
    return [[round(ctx.rng.uniform(0.4, 2.6), 6), round(ctx.rng.uniform(-3.0, 3.0), 6)] for _ in range(width)]


def div_regs(ctx, width, nregs=None):
    """`width` qubits split into 1-3 registers whose NAMES are not in circuit order (the circuit order is what counts)."""
    nregs = nregs or ctx.rng.choice([1, 2, 3])
    nregs = min(nregs, width)
    cuts = sorted(ctx.rng.sample(range(1, width), nregs - 1)) if nregs > 1 else []
    sizes = [b - a for a, b in zip([0] + cuts, cuts + [width])]
    names = ["a", "b", "c"][:nregs]
    ctx.rng.shuffle(names)
    return [[nm, sz] for nm, sz in zip(names, sizes)]


def host_none(ctx, n, nregs=None):
    """qubits=None: the host has exactly n qubits (one register, or several registers in a scrambled name order)."""
    return {"regs": div_regs(ctx, n, nregs or ctx.rng.choice([1, 2])), "qform": "none", "qubits": None, "idle": div_idle(ctx, n)}


def host_perm(ctx, n, qform=None, extra=2, second=False):
    """A larger host and a permuted, non-ascending, non-contiguous wire list for the n gate qubits."""
    width = (2 * n if second else n) + extra
    for _ in range(500):
        wires = ctx.rng.sample(range(width), n)
        if n == 1:
            ok = wires[0] != 0
        else:
            ok = wires != sorted(wires) and max(wires) - min(wires) != n - 1
            if n >= 3:
                ok = ok and wires != sorted(wires, reverse=True)
        if ok:
            break
    h = {"regs": div_regs(ctx, width), "qform": qform or ctx.rng.choice(["ints", "qubits"]), "qubits": wires,
         "idle": div_idle(ctx, width)}
    if second:
        rest = [w for w in range(width) if w not in wires]
        h["qubits2"] = ctx.rng.sample(rest, n)
    return h


def div_entries(ctx, n, qform=None):
    """The three ways a state reaches the code: constructor + .definition, static helper with qubits=None, static helper
    with an explicit permuted wire list on a larger host."""
    return [("ctor", None), ("static", host_none(ctx, n)), ("static", host_perm(ctx, n, qform))]


def div_cross(ctx, out, fam, name, n, v, entries=None, **kw):
    for call, host in (entries if entries is not None else div_entries(ctx, n)):
        out.append(div_spec(fam, name, n, v, call=call, host=host, **kw))
        ctx.count(f"diversity:{fam}:{call}" + ("" if host is None else ":qubits=" + ("None" if host["qform"] == "none" else "list")))


def div_nondefault_partition(ctx, n):
    """A proper subset that is NOT the default first-ceil(n/2)-qubits partition (nor its complement where avoidable)."""
    dp = default_partition(n)
    for _ in range(100):
        k = ctx.rng.randint(1, n - 1)
        p = sorted(ctx.rng.sample(range(n), k))
        if p != dp and (n <= 2 or sorted(set(range(n)) - set(p)) != dp):
            return p
    return [n - 1]


# ---- family 1: element types ----------------------------------------------------------------------------------------

def div_types(ctx):
    from props import c09
    rng = ctx.nprng()
    out = []
    for n in (2, 3, 4):
        d = 2 ** n
        part = div_nondefault_partition(ctx, n)
        # integer amplitudes: basis states (first / inner / LAST index, sign -1)
        for idx, sgn in ((ctx.rng.randrange(1, d - 1), 1), (d - 1, -1), (0, -1)):
            e = np.zeros(d)
            e[idx] = sgn
            for et in ("intlist", "inttuple", "i64", "npscalars", "negzero", "negzero-c", "f32-exact"):
                for lr in (1,):
                    div_cross(ctx, out, "types", f"basis{idx}{'+' if sgn > 0 else '-'}", n, e, etype=et, partition=part, lr=lr)
        # exactly representable in float32 / complex64: moduli 1/2, 1/4 whose squares sum to 1, phases +-1 / +-i
        patterns = {4: [[0.5] * 4], 8: [[0.5] * 4, [0.5] * 3 + [0.25] * 4], 16: [[0.25] * 16, [0.5] * 2 + [0.25] * 8]}[d]
        for real in (True, False):
            for mod in (ctx.rng.choice(patterns),):
                pos = ctx.rng.sample(range(d), len(mod))
                ph = [ctx.rng.choice([1, -1] if real else [1, -1, 1j, -1j]) for _ in pos]
                ph[0] = -1
                if not real:
                    ph[-1] = ctx.rng.choice([1j, -1j])
                v = np.zeros(d, dtype=complex)
                v[pos] = np.array(ph) * np.array(mod)
                ets = ("f32-exact", "f64", "floatlist", "tuple", "npscalars", "czero", "negzero", "negzero-c") if real else \
                      ("c64-exact", "c128", "complexlist", "tuple", "npscalars", "negzero")
                for et in ets:
                    for lr in (0, 1):
                        div_cross(ctx, out, "types", f"dyadic{'R' if real else 'C'}{len(mod)}", n, v, etype=et, partition=part, lr=lr)
        # generic vectors: real with negative entries / complex, in every container; reduced precision
        vr = c09.rand_unit(rng, d, real=True)
        if not (vr < 0).any():
            vr[0] = -vr[0]
        vz = c09.rand_unit(rng, d)
        for v, ets in ((vr, ("f64", "floatlist", "tuple", "npscalars", "czero", "negzero-c", "f32")),
                       (vz, ("c128", "complexlist", "tuple", "npscalars", "c64"))):
            for et in ets:
                for lr in (0, 1):
                    div_cross(ctx, out, "types", "generic" + ("R" if v is vr else "C"), n, v, etype=et, partition=part, lr=lr)
        # real, sparse (exact zeros -> negative zeros), entangled
        vs = np.zeros(d)
        pos = ctx.rng.sample(range(d), 3 if d > 4 else 2)
        vs[pos] = c09.rand_unit(rng, len(pos), real=True)
        for et in ("f64", "negzero", "negzero-c", "floatlist"):
            for lr in (0, 1):
                div_cross(ctx, out, "types", "sparseR", n, vs, etype=et, partition=part, lr=lr)
    return out


def div_partition(ctx):
    """The container / order of `partition` (the code takes it as a SET: sorted first)."""
    from props import c09
    rng = ctx.nprng()
    out = []
    for n in (3, 4, 5):
        v = c09.rand_unit(rng, 2 ** n)
        mid = ctx.rng.randint(1, n - 2)
        contiguous = list(range(mid, min(n, mid + 2)))                      # a range that is not the default
        if contiguous == default_partition(n):
            contiguous = list(range(1, 2))
        sets = [contiguous, sorted(ctx.rng.sample(range(n), 2))]
        if n >= 4:
            sets.append(sorted(ctx.rng.sample(range(n), 3)))
        for p in sets:
            uns = list(p)
            while len(p) > 1 and uns == sorted(uns):
                ctx.rng.shuffle(uns)
            comp = sorted(set(range(n)) - set(p))
            forms = [("list", p), ("tuple", p), ("ndarray", p), ("npints", p), ("list", uns), ("tuple", uns), ("ndarray", uns),
                     ("npints", uns), ("list", comp), ("tuple", comp[::-1])]
            if p == list(range(p[0], p[-1] + 1)):
                forms.append(("range", p))
            for ptype, pp in forms:
                for lr in ((1, 2) if n == 4 else (1,)):
                    tag = "sorted" if list(pp) == sorted(pp) else "unsorted"
                    tag = "complement-" + tag if sorted(pp) == comp and comp != p else tag
                    div_cross(ctx, out, "partition", tag, n, v, partition=pp, ptype=ptype, lr=lr)
        # None as value / key absent: the default partition
        for lr in (1, 2):
            div_cross(ctx, out, "partition", "value-None", n, v, partition=None, ptype="none", lr=lr)
            div_cross(ctx, out, "partition", "absent", n, v, partition=None, keys=("lr",), lr=lr)
    return out


def div_lr(ctx):
    """The type and size of `lr` against Schmidt ranks 1..4: int / numpy int64 / None / absent / 0 / above the rank / a
    power of two or not."""
    from props import c09
    rng = ctx.nprng()
    out = []
    n = 4
    first = ctx.rng.choice([[0, 2], [1, 2], [1, 3], [0, 1]])
    for part in (first,):
        states = [("rank4", c09.rand_unit(rng, 16)), ("rank3", c09.with_spectrum(rng, n, part, [0.8, 0.5, 0.3])),
                  ("rank2", c09.with_spectrum(rng, n, part, [0.8, 0.6])), ("rank1", c09.with_spectrum(rng, n, part, [1.0]))]
        for name, v in states:
            for lr, lt in ((1, "int"), (2, "int"), (3, "int"), (4, "int"), (5, "int"), (100, "int"), (0, "int"), (1, "np.int64"),
                           (2, "np.int64"), (3, "np.int64"), (0, "np.int64"), (7, "np.int64"), (None, "none")):
                div_cross(ctx, out, "lr", name, n, v, partition=part, lr=lr if lr is not None else 0, lrtype=lt)
            div_cross(ctx, out, "lr", name + "-absent", n, v, partition=part, keys=("partition",))
    for n, part in ((3, [1]), (5, [0, 3]), (5, [1, 2, 4])):
        v = c09.rand_unit(rng, 2 ** n)
        for lr, lt in ((1, "np.int64"), (2, "np.int64"), (3, "int"), (3, "np.int64"), (None, "none")):
            div_cross(ctx, out, "lr", "generic", n, v, partition=part, lr=lr if lr is not None else 0, lrtype=lt)
    return out


# ---- family 2: scale structure --------------------------------------------------------------------------------------

def div_scale(ctx):
    from props import c09
    rng = ctx.nprng()
    out = []

    def entries(n):
        return [("ctor", None), ("static", host_perm(ctx, n)), ("static", host_none(ctx, n))]

    # Schmidt coefficients: heavy head + light tail (kept a factor >= 3 away from the 1e-7 rank cut), all equal, repeated
    spectra = {2: [("head-tail3", [1, 1e-3]), ("head-tail6", [1, 1e-6]), ("head-tail5", [1, 3e-5]), ("equal", [1, 1]), ("product", [1])],
               4: [("head-tail3456", [1, 1e-3, 1e-4, 1e-6]), ("two-heads-tail", [1, 0.7, 1e-3, 1e-5]), ("head-tail-rank3", [1, 1e-4, 1e-6]),
                   ("head-equal-tail", [1, 1e-4, 1e-4, 1e-4]), ("equal4", [1, 1, 1, 1]), ("equal3", [1, 1, 1]), ("pairs", [1, 1, 0.3, 0.3]),
                   ("inner-pair", [0.8, 0.5, 0.5, 0.2]), ("equal2", [1, 1])]}
    for n, part in ((2, [1]), (3, [1]), (3, [0, 2]), (4, [0, 3]), (4, [1, 2]), (5, [1, 4]), (4, [2])):
        mind = min(2 ** len(part), 2 ** (n - len(part)))
        for name, spec in spectra[mind]:
            if n == 5 and name not in ("head-tail3456", "equal3", "inner-pair"):
                continue
            real = ctx.rng.random() < 0.3
            v = c09.with_spectrum(rng, n, part, spec, real=real)
            for lr in range(0, min(len(spec), 4) + 1):
                iso, uni = SCHEMES[(lr + n) % 2]
                div_cross(ctx, out, "scale", "schmidt-" + name + ("R" if real else ""), n, v, entries=entries(n)[:2 if n == 5 else 3],
                          partition=part, lr=lr, keys=DIV_KEYS_ALL[:4], iso=iso, uni=uni, etype="f64" if real else "c128")
    # amplitude vectors with their own scale structure
    for n in (2, 3, 4):
        d = 2 ** n
        amps = []
        tail = [10.0 ** -ctx.rng.choice([3, 4, 5, 6]) * ctx.rng.choice([1, -1, 1j, -1j]) for _ in range(d)]
        for name, heads in (("head-start", [0]), ("head-end", [d - 1]), ("head-mixed", [1, d - 2] if d > 4 else [1]),
                            ("two-heads", [0, d - 1])):
            v = np.array(tail, dtype=complex)
            for h in heads:
                v[h] = ctx.rng.choice([1, -1, 1j]) * ctx.rng.uniform(0.6, 1.0)
            amps.append((name, v / np.linalg.norm(v)))
        u = np.array([ctx.rng.choice([1, -1, 1j, -1j]) for _ in range(d)], dtype=complex)
        amps.append(("equal-moduli", u / math.sqrt(d)))
        rep = np.array([ctx.rng.choice([0.5, -0.5, 0.25]) for _ in range(d)], dtype=complex)
        amps.append(("repeated-values", rep / np.linalg.norm(rep)))
        sp = np.zeros(d, dtype=complex)
        sp[ctx.rng.sample(range(d), 2)] = c09.rand_unit(rng, 2)
        amps.append(("sparse2", sp))
        for idx in (0, d - 1, ctx.rng.randrange(d)):
            e = np.zeros(d, dtype=complex)
            e[idx] = ctx.rng.choice([1, -1, 1j, -1j])
            amps.append((f"single{idx}", e))
        for half in (0, 1):
            hv = np.zeros(d, dtype=complex)
            hv[half * (d // 2):(half + 1) * (d // 2)] = c09.rand_unit(rng, d // 2)
            amps.append((f"half{half}", hv))
        lo = np.zeros(d, dtype=complex)
        lo[::2] = c09.rand_unit(rng, d // 2)                     # norm carried by the sub-tree "lowest qubit = 0"
        amps.append(("even-indices", lo))
        parts = [[0]] if n == 2 else ([[0], [0, 2]] if n == 3 else [[0, 1], [1, 3], [3]])
        for name, v in amps:
            for part in parts:
                for lr in ((0, 1, 2) if len(part) == 2 and n == 4 else (0, 1)):
                    div_cross(ctx, out, "scale", "amp-" + name, n, v, entries=entries(n)[:2], partition=part, lr=lr)
    return out


# ---- family 3: sign / phase structure -------------------------------------------------------------------------------

def div_phase(ctx):
    from props import c09
    rng = ctx.nprng()
    out = []
    for n in (2, 3, 4):
        d = 2 ** n
        part = div_nondefault_partition(ctx, n)
        base = c09.rand_unit(rng, d)
        neg = -np.abs(c09.rand_unit(rng, d, real=True))
        cases = [("all-negative", neg, "f64"), ("all-negative-list", neg, "floatlist"), ("all-negative-czero", neg, "czero"),
                 ("imaginary", 1j * c09.rand_unit(rng, d, real=True), "c128"), ("imaginary-neg", 1j * neg, "complexlist"),
                 ("phase-1", -base, "c128"), ("phase+i", 1j * base, "c128"), ("phase-i", -1j * base, "c128"),
                 ("signs", np.array([ctx.rng.choice([1, -1]) for _ in range(d)]) / math.sqrt(d), "f64"),
                 ("signs-all-minus", -np.ones(d) / math.sqrt(d), "f64"),
                 ("units", np.array([ctx.rng.choice([1, -1, 1j, -1j]) for _ in range(d)]) / math.sqrt(d), "c128"),
                 ("units-generic-moduli", np.abs(base) * np.array([ctx.rng.choice([1, -1, 1j, -1j]) for _ in range(d)]), "c128")]
        for name, v, et in cases:
            for lr in ((0, 1, 2) if n == 4 else (0, 1)):
                iso, uni = SCHEMES[(lr + n) % 2]
                div_cross(ctx, out, "phase", name, n, v, etype=et, partition=part, lr=lr, keys=DIV_KEYS_ALL[:4], iso=iso, uni=uni)
            div_cross(ctx, out, "phase", name + "-defaults", n, v, etype=et, keys=None)
    return out


# ---- family 4: call forms -------------------------------------------------------------------------------------------

def div_calls(ctx):
    from props import c09
    rng = ctx.nprng()
    out = []

    def add(name, n, v, call, host, **kw):
        out.append(div_spec("calls", name, n, v, call=call, host=host, **kw))
        ctx.count(f"diversity:calls:{name}")

    for n in (2, 3, 4, 5):
        v = c09.rand_unit(rng, 2 ** n)
        nd = div_nondefault_partition(ctx, n)
        # a partition / rank on which both scheme options are used: one side of 1 qubit (n = 4: U or V is 8 x 2 -> iso_scheme,
        # the other 2 x 2 -> unitary_scheme); lr below the Schmidt rank wherever the rank allows
        side = [ctx.rng.choice([0, n - 1])] if n >= 3 else [1]
        if ctx.rng.random() < 0.5 and n >= 3:
            side = sorted(set(range(n)) - set(side))
        uns = list(nd)
        while len(uns) > 1 and uns == sorted(uns):
            ctx.rng.shuffle(uns)
        optsets = [
            ("none", dict(keys=None)),
            ("empty", dict(keys=())),
            ("lr-only", dict(keys=("lr",), lr=1)),
            ("lr2-only", dict(keys=("lr",), lr=2)),
            ("partition-only", dict(keys=("partition",), partition=nd)),
            ("iso-only", dict(keys=("iso_scheme",), iso="knill")),
            ("iso-ccd-explicit", dict(keys=("iso_scheme", "unitary_scheme"), iso="ccd", uni="qsd")),
            ("uni-only", dict(keys=("unitary_scheme",), uni="csd")),
            ("svd-only", dict(keys=("svd",), svd="regular")),
            ("lr+partition", dict(keys=("partition", "lr"), lr=1, partition=uns, ptype="tuple")),
            ("schemes", dict(keys=("iso_scheme", "unitary_scheme", "partition"), iso="knill", uni="csd", partition=side)),
            ("all-nondefault", dict(keys=("svd", "unitary_scheme", "iso_scheme", "partition", "lr"), lr=1, lrtype="np.int64", partition=uns,
                                    ptype="ndarray", iso="knill", uni="csd", svd="regular")),
            ("all-nondefault-lr2", dict(keys=DIV_KEYS_ALL, lr=2, partition=side, ptype="tuple", iso="knill", uni="csd", svd="regular")),
            ("all-None", dict(keys=DIV_KEYS_ALL, lr=0, lrtype="none", partition=None, ptype="none", iso=None, uni=None, svd=None)),
        ]
        for oname, kw in optsets:
            # every option set through every entry point and every keyword / positional spelling
            add("opts=" + oname, n, v, "ctor", None, **kw)
            add("opts=" + oname, n, v, "ctor-positional", None, label=None if ctx.rng.random() < 0.5 else "L", **kw)
            add("opts=" + oname, n, v, "ctor-kw", None, label=f"lab{n}", **kw)
            add("opts=" + oname, n, v, "static", host_none(ctx, n, nregs=1), **kw)
            add("opts=" + oname, n, v, "static", host_none(ctx, n, nregs=min(n, 3)), **kw)
            add("opts=" + oname, n, v, "static-positional", host_none(ctx, n), **kw)
            for qf in ("ints", "qubits"):
                add("opts=" + oname, n, v, "static", host_perm(ctx, n, qf), **kw)
            add("opts=" + oname, n, v, "static-positional", host_perm(ctx, n, ctx.rng.choice(["tuple", "npints", "mixed", "qubit-tuple"])), **kw)
        add("opts=none", n, v, "ctor-bare", None, keys=None)
        add("opts=none", n, v, "static-bare", host_none(ctx, n), keys=None)
        # qubit-specifier forms with options that change the prepared state
        kw = dict(keys=("lr", "partition"), lr=1, partition=nd)
        width = n + 2
        for qf in ("ints", "tuple", "npints", "qubits", "qubit-tuple", "mixed"):
            add("qubits=" + qf, n, v, "static", host_perm(ctx, n, qf), **kw)
        add("qubits=ndarray", n, v, "static", host_perm(ctx, n, "ndarray"), **kw)
        a = ctx.rng.randint(0, 2)
        add("qubits=range", n, v, "static", {"regs": div_regs(ctx, width), "qform": "range", "qubits": list(range(a, a + n)),
                                              "idle": div_idle(ctx, width)}, **kw)
        # a whole register of a host built from three registers, in both circuit orders
        for regs in ([["a", 1], ["b", n], ["c", 1]], [["c", 2], ["b", n]], [["b", n], ["a", 2]]):
            add("qubits=register", n, v, "static", {"regs": regs, "qform": "register", "register": "b", "idle": div_idle(ctx, width)}, **kw)
        # register slices, later register first (non-ascending wires)
        k = ctx.rng.randint(1, n - 1)
        regs = [["a", k + 1], ["b", n - k + 1]]
        add("qubits=slices", n, v, "static", {"regs": regs, "qform": "slices", "slices": [["b", 1, n - k + 1], ["a", 0, k]],
                                               "idle": div_idle(ctx, width)}, **kw)
        add("qubits=slices", n, v, "static", {"regs": regs[::-1], "qform": "slices", "slices": [["a", 1, k + 1], ["b", 0, n - k]],
                                               "idle": div_idle(ctx, width)}, keys=DIV_KEYS_ALL, lr=1, partition=uns, iso="knill", uni="csd",
            svd="regular")
        # forms of the constructed gate
        for oname, kw in (("lr1", dict(keys=("lr", "partition"), lr=1, partition=nd)), ("defaults", dict(keys=None)),
                          ("all", dict(keys=DIV_KEYS_ALL, lr=2, partition=uns, iso="knill", uni="csd", svd="regular"))):
            if n <= 3:
                add("twice:" + oname, n, v, "twice", host_perm(ctx, n, ctx.rng.choice(["ints", "qubits"]), extra=1, second=True), **kw)
            add("copy-before-definition:" + oname, n, v, "copy", host_perm(ctx, n), label=ctx.rng.choice([None, "cp"]), **kw)
            add("inverse:" + oname, n, v, "inverse", host_perm(ctx, n), label=ctx.rng.choice([None, "inv"]), **kw)
            add("to_gate:" + oname, n, v, "to_gate", host_perm(ctx, n), **kw)
            add("to_instruction:" + oname, n, v, "to_instruction", host_perm(ctx, n), **kw)
        # the same dict object (and state object) for two constructions with the contents changed in between
        p2 = div_nondefault_partition(ctx, n)
        firsts = [dict(keys=("lr", "partition"), lr=1, partition=nd), dict(keys=DIV_KEYS_ALL, lr=1, partition=uns, iso="knill", uni="csd", svd="regular"),
                  dict(keys=()), dict(keys=("lr",), lr=2)]
        seconds = [{"keys": ["lr", "partition"], "lr": 2, "partition": p2}, {"keys": [], "partition": None},
                   {"keys": ["partition", "lr", "iso_scheme"], "lr": 1, "partition": p2, "ptype": "tuple", "iso": "knill"},
                   {"keys": ["lr"], "lr": 0, "partition": None}]
        for i, kw in enumerate(firsts):
            for j, sec in enumerate(seconds):
                if (i + j) % 2 == 0 or n == 4:
                    add("dict-reuse", n, v, "reuse", None if (i + j) % 4 else host_perm(ctx, n), second=sec, read_between=bool((i + j) % 3 == 0), **kw)
    return out


# ---- family 5: sizes ------------------------------------------------------------------------------------------------

def div_sizes(ctx):
    from props import c09
    rng = ctx.nprng()
    out = []
    # n = 1: no bipartition; the initializer hands over to TopDownInitialize whatever the options say
    for name, v, et in (("generic", c09.rand_unit(rng, 2), "c128"), ("real-neg", np.array([0.6, -0.8]), "f64"),
                        ("one", np.array([0.0, 1.0]), "intlist"), ("zero-neg", np.array([-1.0, 0.0]), "inttuple"),
                        ("imag", np.array([0.0, 1j]), "complexlist"), ("half", np.array([1.0, 1j]) / math.sqrt(2), "c128")):
        for oname, kw in (("none", dict(keys=None)), ("empty", dict(keys=())), ("lr1", dict(keys=("lr",), lr=1)),
                          ("partition", dict(keys=("lr", "partition"), lr=1, partition=[0])),
                          ("all", dict(keys=DIV_KEYS_ALL, lr=2, partition=[0], iso="knill", uni="csd", svd="regular"))):
            for call, host in (("ctor", None), ("static", host_none(ctx, 1)), ("static", host_perm(ctx, 1, ctx.rng.choice(["ints", "qubits"]))),
                               ("inverse", host_perm(ctx, 1)), ("copy", host_perm(ctx, 1))):
                out.append(div_spec("sizes", f"n1-{name}-{oname}", 1, v, etype=et, call=call, host=host, **kw))
                ctx.count("diversity:sizes:n=1:" + call)
    # n = 2 .. 5: partition sizes 1 .. n-1, lr = 0 .. 5, for the constructor and for the static helper on a permuted host
    plan = {2: [[0], [1]], 3: [[0], [1], [2], [0, 1], [0, 2], [1, 2]],
            4: [[0, 1], [1, 2], [0, 3], [2], [0], [3], [0, 1, 2], [1, 2, 3], [0, 2, 3]], 5: [[1, 3], [0, 2, 4], [4], [0, 1, 2, 3]]}
    for n, parts in plan.items():
        v = c09.rand_unit(rng, 2 ** n)
        for part in parts:
            mind = min(2 ** len(part), 2 ** (n - len(part)))
            states = [("generic", v)]
            if mind >= 4:
                states.append(("rank3", c09.with_spectrum(rng, n, part, [0.8, 0.5, 0.33])))
            for name, w in states:
                for lr in range(0, 6 if n == 4 else 5):
                    if lr > mind + 1:
                        continue
                    iso, uni = SCHEMES[(lr + len(part)) % 2]
                    ents = [("ctor", None), ("static", host_perm(ctx, n, extra=2 if n < 5 else 1))]
                    div_cross(ctx, out, "sizes", name, n, w, entries=ents, partition=part, lr=lr, keys=DIV_KEYS_ALL[:4], iso=iso, uni=uni)
        # the default partition (first ceil(n/2) qubits) at every size
        for lr in (0, 1, 2):
            div_cross(ctx, out, "sizes", "default-partition", n, v, keys=("lr",), lr=lr)
    return out


# ---- family 6: valid falsy values and numpy integers of the options ----------------------------------------------------

def div_flagforms(ctx):
    """LowRankInitialize has no boolean option; its options with a VALID FALSY value are lr = 0 ("full rank"), a partition that
    consists of qubit 0 only ([0], (0,), ndarray [0]: `not partition` is true for the one-element ndarray, and qubit index 0 is
    falsy itself) and label '' (given, but falsy).  Each in every numeric / container form, next to a non-zero one, through the
    constructor (keyword and positional), the static helper (keyword and positional) and copy / inverse (label); lr as Python
    int and numpy integers of three widths at both ends of its range (0, 2^(n//2)) and in the middle; svd in each documented
    spelling.  Judged by the family's oracle (independent truncation, fidelity, spectrum) and tied (plan) with the canonical
    values."""
    from props import c09
    rng = ctx.nprng()
    out = []

    def add(name, n, v, call, host, counters, **kw):
        out.append(div_spec("flagforms", name, n, v, call=call, host=host, **kw))
        for c in counters:
            ctx.count(f"flagforms:{c}:via {call}")
            ctx.count(f"flagforms:{c}")

    def entries(n, j):
        ents = [("ctor", None), ("ctor-positional", None), ("ctor-kw", None), ("static", host_perm(ctx, n)),
                ("static-positional", host_perm(ctx, n, ctx.rng.choice(["ints", "qubits", "tuple"]))), ("static", host_none(ctx, n)),
                ("static-positional", host_none(ctx, n))]
        return [ents[(j + i) % len(ents)] for i in range(3)] if j is not None else ents
    # lr: 0 / middle / top of the range, each numeric form, rank-4 and rank-3 states across a 2+2 partition; rank-2 states at n = 3
    j = ctx.rng.randrange(7)
    for n, part, spectra in ((4, ctx.rng.choice([[0, 2], [1, 3], [0, 3]]), ([0.7, 0.5, 0.4, 0.3], [0.8, 0.5, 0.3])),
                             (3, ctx.rng.choice([[1], [0, 2], [2]]), ([0.8, 0.6],)), (5, [0, 3], ([0.7, 0.5, 0.4, 0.3],))):
        for si, spec_ in enumerate(spectra):
            v = c09.with_spectrum(rng, n, part, spec_)
            top = 2 ** (n // 2)
            for lr in sorted({0, 1, top // 2, top}):
                for lt in ("int", "np.int64", "np.int32", "np.uint8"):
                    j += 1
                    for call, host in (entries(n, j) if n < 5 else entries(n, j)[:1]):
                        add(f"lr-rank{len(spec_)}", n, v, call, host, [f"lr:{lt}:{'0' if lr == 0 else 'top' if lr == top else 'middle'}"],
                            partition=part, lr=lr, lrtype=lt, keys=("lr", "partition") if j % 2 else ("partition", "lr"))
    # lr = 0 / None / absent as the ONLY key, and with every other key at a non-default value
    for n in (2, 4):
        v = c09.rand_unit(rng, 2 ** n)
        nd = div_nondefault_partition(ctx, n)
        for lt in ("int", "np.int64", "np.uint8", "none"):
            for call, host in entries(n, None):
                add("lr0-only", n, v, call, host, [f"lr:{lt}:0-only-key"], keys=("lr",), lr=0, lrtype=lt)
            j += 1
            for call, host in entries(n, j):
                add("lr0-all-keys", n, v, call, host, [f"lr:{lt}:0-with-all-keys"], keys=DIV_KEYS_ALL, lr=0, lrtype=lt, partition=nd, iso="knill",
                    uni="csd", svd="regular")
    # partition = qubit 0 only (not the default for n >= 3), every container; next to [n-1] and [0, n-1]
    for n in (3, 4):
        v = c09.rand_unit(rng, 2 ** n)
        for part in ([0], [n - 1], [0, n - 1]):
            for ptype in ("list", "tuple", "ndarray", "npints", "range") if len(part) == 1 else ("ndarray", "tuple"):
                for lr in (0, 1):
                    j += 1
                    for call, host in entries(n, j):
                        add("partition-" + "".join(map(str, part)), n, v, call, host,
                            [f"partition:{ptype}:{'qubit-0-only' if part == [0] else 'last-qubit-only' if len(part) == 1 else 'both-ends'}"],
                            partition=part, ptype=ptype, lr=lr, keys=("partition",) if lr == 0 else ("lr", "partition"))
    # label '' (given, falsy) next to a non-empty one and None
    for n in (2, 3):
        v = c09.rand_unit(rng, 2 ** n)
        for label in ("", "L", None):
            for call, host in (("ctor-positional", None), ("ctor-kw", None), ("copy", host_perm(ctx, n)), ("inverse", host_perm(ctx, n))):
                for kw in (dict(keys=None), dict(keys=("lr", "partition"), lr=1, partition=[n - 1])):
                    add(f"label-{label!r}", n, v, call, host, ["label:" + repr(label)], label=label, **kw)
    # svd: every documented spelling below the size where 'auto' switches (the randomized one is C09's / the probes')
    for n in (3, 4):
        v = c09.rand_unit(rng, 2 ** n)
        for svd in ("auto", "regular", None):
            for lr in (0, 1):
                j += 1
                for call, host in entries(n, j)[:2]:
                    add("svd", n, v, call, host, [f"svd:{svd!r}"], keys=("svd", "lr"), lr=lr, svd=svd)
    return out


# ---- driver ---------------------------------------------------------------------------------------------------------

DIV_TIE_CALLS = ("ctor", "ctor-positional", "ctor-kw", "ctor-bare", "static", "static-positional", "static-bare", "copy", "reuse")


def div_tie_lines(spec, gates, vc):
    """Plan of the gate object(s) this call form constructed, for the model (see the table above for what is covered):
    [(op, observed lines)].  gates = None: the construction raised."""
    from props import c09
    n = spec["n"]
    out = []
    if gates is None:
        part, lr, iso, uni = div_canon(spec, n)
        s = np.linalg.svd(c09.ref_sep(n, vc, sorted(part)), compute_uv=False)
        return [({"op": "plan", "n": n, "P": part, "lr": lr, "s": [float(x) for x in s], "iso": iso, "uni": uni}, ["raised"])]
    band = spec.get("band") or NARROW_BAND
    for g, (part, lr, iso, uni) in gates:
        s = np.linalg.svd(c09.ref_sep(n, vc, sorted(part)), compute_uv=False)
        if any(band[0] <= x <= band[1] for x in s):
            continue
        lines, s2 = observe_plan(vc, n, part, lr, iso, uni, gate=g)
        out.append(({"op": "plan", "n": n, "P": [int(a) for a in part], "lr": int(lr), "s": s2, "iso": iso, "uni": uni}, lines))
    return out


def div_report(ctx, spec, problems, info):
    key = spec["key"]
    if problems is None:
        ctx.count("diversity:skipped:threshold-band")
        return
    if info.get("rejected"):
        ctx.count(f"diversity:{spec['etype']}:rejected-documented-ValueError")
        ctx.ok(key, nontrivial=False)
        return
    if info.get("unsupported"):
        ctx.count(f"diversity:qubits=ndarray:unsupported-form-raises-{info['unsupported']}")
        return
    if spec["etype"] in DIV_REDUCED and not problems:
        ctx.count(f"diversity:{spec['etype']}:accepted-correct-to-1e-5")
    if problems:
        rep = {k: v for k, v in spec.items() if k not in ("repo", "tie", "_no_a2")}
        rep["how"] = "tools/props/c07.py div_eval(spec): div_state / div_opts build the inputs, div_call executes spec['call']"
        blame = info.get("encoder_blame")
        if blame:
            report_finding(ctx, f"lowrank.encoder-precision:{blame['kind']}",
                           f"{key}: " + "; ".join(problems) + f" -- root cause: the encoder {blame['kind']} called by _encode "
                           f"reproduces its own {blame['rows']}x{blame['cols']} matrix only to {blame['err']:.2e} "
                           "(rank, norm and fidelity are right; no problem with qclib.unitary._apply_a2 bypassed)", rep)
        else:
            ctx.fail(key, "; ".join(problems), rep)
    else:
        if info.get("truncated") is not None:
            ctx.count("diversity:truncated" if info["truncated"] else "diversity:untruncated")
        ctx.ok(key, nontrivial=spec["n"] >= 2, sample=None)


def run_diversity(ctx, tie=True):
    from concurrent.futures import ProcessPoolExecutor
    import multiprocessing as mp
    specs = div_types(ctx) + div_partition(ctx) + div_lr(ctx) + div_scale(ctx) + div_phase(ctx) + div_calls(ctx) + div_sizes(ctx) + \
        div_flagforms(ctx)
    seen, uniq = set(), []
    for s in specs:
        if s["key"] not in seen:
            seen.add(s["key"])
            uniq.append(s)
    specs = uniq
    for s in specs:
        # the plan does not see the container / dtype / phases of the state: a third of those families is enough
        s["tie"] = bool(tie) and not (s["fam"] in ("types", "scale", "phase") and ctx.rng.random() > 0.34)
    workers = min(12, os.cpu_count() or 2)
    with ProcessPoolExecutor(max_workers=workers, mp_context=mp.get_context("fork")) as ex:
        results = list(ex.map(div_eval, specs, chunksize=16))
    for spec, (key, problems, info) in zip(specs, results):
        for op, lines in info.get("ties") or []:
            ctx.tie(op, lines, label=spec["key"][:200])
            ctx.count("diversity:tie:" + spec["fam"])
        if info.get("tie_error"):
            ctx.count("diversity:tie:observer-error")
            ctx.notes.append(f"plan observer failed on {spec['key']}: {info['tie_error']}")
        div_report(ctx, spec, problems, info)
    ctx.count("diversity:cases", len(specs))
    ctx.notes.append("diversity cases (keys div:*): forms of ordinary inputs per entry point - see the table in tools/props/c07.py; "
                     f"Schmidt coefficients stay outside {NARROW_BAND} around the 1e-7 rank cut (light tails 1e-3 .. 1e-6 are kept, "
                     "a factor >= 3 away); entry-wise comparison with the truncation when the gap at the cut exceeds "
                     f"{DIV_GAP}, otherwise fidelity, norm and the Schmidt spectrum of the prepared state only; generic float32 / "
                     "complex64 inputs may be rejected by the documented ValueError or must be right to 1e-5 for the "
                     "normalised up-cast vector")


def generate(ctx):
    """Rank rule re-translated from the current source (tools/schmidt_src.py, shared with C09; Gen/SchmidtRank.lean); a refusal
    raises (broken obligation)."""
    import schmidt_src
    return schmidt_src.generate(ctx, "QclibModel.Props.C07", ["Qclib.C07_rank_src"])


def run(ctx):
    from props import c09
    import schmidt_src
    schmidt_src.tie(ctx)
    run_tie(ctx)
    run_tie_branches(ctx)
    run_tie_boundaries(ctx)
    if ctx.quick:
        tasks = gen_tasks(ctx, nmax=6, nfull=5, per_n_budget=8)
    else:
        tasks = gen_tasks(ctx, nmax=7, nfull=6, per_n_budget=30)
    run_tasks(ctx, gen_boundary_tasks(ctx) + tasks + gen_branch_tasks(ctx))
    probe_one_qubit(ctx)
    run_diversity(ctx)
    ctx.notes.append("boundary cases: each conjunct of the randomized-SVD switch with the others true - n = 8..13 / 14 / 15 with lr = 1 and a "
                     "partition just above round(n/2.5) on states with 16-24 comparable Schmidt coefficients (an approximate rank-1 SVD "
                     "is visibly sub-optimal there; below n = 14 the fidelity must be the largest squared coefficient), partition AT the "
                     "bound at n = 14, 15, svd='regular', lr = 0 / 2; above the bound at n >= 14 only <= 13 coefficients (more: known "
                     f"finding K-C07-2); rank cut 1e-7: plans tied at 3e-7 / 3.3e-8, oracle at 3.3e-8 with excluded band {NARROW_BAND}; "
                     "randomized_svd's generator seeded per case from VERIF_SEED")
    probe_randomized_nested(ctx)
    probe_auto_randomized(ctx)
    probe_unsorted(ctx)
    probe_encoder_precision(ctx)
    ctx.notes.append(f"generated vectors keep every Schmidt coefficient outside [{c09.BAND[0]}, {c09.BAND[1]}] (rank threshold 1e-7); "
                     "entry-wise comparison with the independent truncation only when the cut is not inside a cluster of "
                     "equal singular values (gap > 1e-3), fidelity and exactness always; partitions are passed as "
                     "increasing lists and, for every subset of size >= 2, also as a shuffled list (families *-shuffled; fixed "
                     "regression probe under key " + UNSORTED_KEY + ")")


def search(ctx, hints):
    from props import c09
    rng = ctx.nprng()
    tasks = []
    for h in hints:
        op = h["op"]
        if op.get("op") == "plan":
            n, p = op["n"], list(op["P"])
            if n <= 8:
                for name, v in c09.families(ctx, rng, n, sorted(p))[:3]:
                    tasks.append(make_task(name, n, p, v, max(0, op["lr"]), op.get("iso", "ccd"), op.get("uni", "qsd")))
    tasks = tasks[:60] + gen_tasks(ctx, nmax=6, nfull=4, per_n_budget=12)
    run_tasks(ctx, tasks)
    run_diversity(ctx, tie=False)


def replay(ctx, payload):
    r = payload["replay"]
    if r.get("div"):
        import framework
        spec = dict(r, repo=framework.REPO)
        key, problems, info = div_eval(spec)
        div_report(ctx, spec, problems, info)
        return
    if r.get("family") == "auto-randomized-probe":
        probe_auto_randomized(ctx)
        return
    v = np.array(r["re"]) + (0 if r.get("real") else 1j * np.array(r["im"]))
    t = make_task(r.get("family", "replay"), r["n"], r["partition"], v, r["lr"], r["iso"], r["uni"], mode=r.get("mode"),
                  svd=r.get("svd"), label=r.get("label"), entry=r.get("entry"), rsvd_seed=r.get("rsvd_seed"), band=r.get("band"))
    run_tasks(ctx, [t])
