"""C18 — function-points preparation (qclib/state_preparation/fnpoints.py, Ventura–Martinez)."""
import cmath
import hashlib
import itertools
import math
import numpy as np

CLAIMED = True
TECHNIQUE = ("Lean 4 proof (induction over the ladder length and over the processed points, all n>=2, all m, any order) in "
             "amplitude-function semantics, amplitude algebra over R/C from Mathlib; gate-list correspondence with fnpoints.py; "
             "Statevector / sparse-propagation oracle")
LEVEL_TEXT = ("Full proof for the model: for every n>=2, every non-empty list of pairwise distinct n-bit points in any order, every "
              "output assignment and every N' != 0, the circuit fnPoints maps every state supported on x=g=c=0 to amplitude "
              "-(1/sqrt m)*exp(2 pi i s/N') on each listed input, zero on every other label, g and c back in |0> (C18_state, over C "
              "with the code's angles; C18_state_general over any commutative ring); the Toffoli ladder with X sandwiches flips c[0] "
              "iff x = z_p and restores g, for every n (C18_ladder); the squared-amplitude telescope over any field of "
              "characteristic 0 (C18_telescope). Tie: N' and the full flattened gate list incl. (theta,phi,lambda,gamma) of "
              "FnPointsInitialize(points, {n_output_values: N}).definition diffed against the executable model for every point "
              "subset with n<=3 (several orders and output assignments) and random sets to n<=6 (8 thorough). Oracle: full "
              "Statevector of the definition vs closed form on x tensor |0> on g,c (zeros elsewhere and g,c cleanliness included): every "
              "subset for n<=3, all m=1..2^n for n=4, sampled m for n=5 (all m thorough), shuffled orders, N=1..12 and the N' rule "
              "with outputs beyond N; sparse propagation of the real gate list for n=6 (to 8 thorough).")
LEVEL_NOTE = ("Trusted: Lean kernel (standard axioms), hand model <-> fnpoints.py beyond the explored sizes (the loops are uniform in "
              "n and m), qiskit x/cx/ccx/cu matrices (checked numerically each run), float arccos/sqrt/pi vs exact reals (compared "
              "to 1e-9), Python dict iteration order = insertion order.")
LEAN_TARGETS = ["QclibModel.Props.C18"]
THEOREMS = ["Qclib.C18_ladder", "Qclib.C18_telescope", "Qclib.C18_state_general", "Qclib.C18_state", "Qclib.C18_nprime",
            "Qclib.C18_nprime_src"]
TRUSTED = [
    "qiskit x/cx/ccx/cu matrices equal Mat2.X / smul (e^{i gamma}) (matU theta phi lambda) of Sem/Denote.lean (validated numerically each run)",
    "float: -2*arccos(sqrt(p/(p+1))) and -s*2*pi/N' are compared to the model's Float parameters to 1e-9",
    "tools/py2lean.py: the N' statements of FnPointsInitialize.__init__ are re-translated from the source on every run "
    "(Gen/FnNPrime.lean) and proved equal to the hand model fnNPrime for all arguments (C18_nprime_src); second tie: the "
    "generated definition run by the driver vs the real constructor for every (max s, opt_params form, N) in a small box",
]
ASSUMPTIONS = ["exact real/complex arithmetic in the theorem; implementation compared to 1e-7 (amplitudes) / 1e-9 (parameters)",
               "all qubits of the definition start in |0> (theorem: any state supported on x=g=c=0)",
               "a number of output values is requested or max s >= 2, so that N' != 0 (see note F-C18-1)"]
RULE = ("tie: (n, ordered key list, s list, N) whose N' and flattened gate list were diffed against the Lean model; oracle: "
        "the same kind of tuple whose full state vector (dense up to 11 qubits, sparse propagation of the real gate list above) "
        "was compared with the closed form incl. zeros elsewhere and g,c cleanliness; non-trivial = m>=2 with at least one "
        "non-zero output value")


# ------------------------------------------------------------------------------------------------
# source tie of the N' rule
# ------------------------------------------------------------------------------------------------

GEN_FILE_REL = "lean/QclibModel/Gen/FnNPrime.lean"
GEN_SOURCE = "qclib/state_preparation/fnpoints.py"


def generate(ctx):
    """Re-translate the N' statements of FnPointsInitialize.__init__ from the current source (a refusal raises: broken obligation)
    and re-check C18_nprime_src."""
    import os
    import framework
    import py2lean
    import srctie
    py2lean.ensure_prelude(framework.LEAN)
    blk = py2lean.translate_block(
        os.path.join(framework.REPO, GEN_SOURCE), "FnPointsInitialize.__init__", "fn_n_prime", "Qclib.Gen.FnNPrime",
        result="self.n_output_values", start=r"^default_n_output_values\b", stop=r"^if label is None",
        views={"max(params.values())": "max_value", "opt_params is None": ("opt_none", "Bool"),
               "opt_params.get('n_output_values')": ("opt_n", "OptInt")}, relpath=GEN_SOURCE)
    text = py2lean.write_module(os.path.join(framework.VERIF, GEN_FILE_REL), [blk],
                                [GEN_SOURCE + " :: FnPointsInitialize.__init__ (default_n_output_values .. self.n_output_values)"])
    srctie.verify(ctx, "QclibModel.Props.C18", ["Qclib.C18_nprime_src"])
    return {"file": GEN_FILE_REL, "bytes": len(text), "translated": ["FnPointsInitialize.__init__: self.n_output_values"]}


def gen_nprime_tie(ctx):
    """Second tie of the translation: generated N' rule (run by the driver) against the REAL constructor, for every maximum
    output -2..6, every opt_params form and every requested value -2..8.  (The constructor does not build the circuit, so
    N' = 0 is observable here.)"""
    from qclib.state_preparation.fnpoints import FnPointsInitialize
    for mx in range(-2, 7):
        params = {"00": mx - 3, "01": mx, "10": mx - 1}
        forms = [("none", None), ("empty", {}), ("none-key", {"n_output_values": None})]
        forms += [(f"N={N}", {"n_output_values": N}) for N in range(-2, 9)]
        for tag, opt in forms:
            try:
                lines = [f"nprime {int(FnPointsInitialize(params, opt_params=opt).n_output_values)} ;"]
            except Exception as e:
                lines = [f"raised {type(e).__name__} ;"]
            has = opt is not None and opt.get("n_output_values") is not None
            ctx.tie({"op": "gen_nprime", "max": mx, "opt_none": opt is None, "hasN": bool(has),
                     "N": int(opt["n_output_values"]) if has else 0}, lines, label=f"translated N' rule max={mx} opt={tag}",
                    compare=lambda op, impl, model: None if impl == model else f"impl={impl!r} generated={model!r}")
            ctx.count("gen-nprime")


# ------------------------------------------------------------------------------------------------
# real code
# ------------------------------------------------------------------------------------------------

UNREACHED_JUSTIFIED = {}   # fnpoints.py: with entry_forms() every statement and branch outcome is reached in the quick tier

FORMS = ("empty", "none-key", "label", "static", "static-qubits")


def build(keys, svals, N, form="plain", wires=None):
    """Returns the definition circuit of the REAL gate (declared num_qubits is C15's business).
    form: 'plain' (opt_params None when N is None, else {'n_output_values': N}); 'empty' = {} and 'none-key' =
    {'n_output_values': None} (both: default N'); 'label'; 'static' / 'static-qubits' = the static initialize() on a host
    circuit (gate = the host's only instruction, gate._host = host)."""
    from qiskit import QuantumCircuit
    from qclib.state_preparation.fnpoints import FnPointsInitialize
    params = {}
    for k, s in zip(keys, svals):
        params[k] = s
    opt = None if N is None else {"n_output_values": N}
    if form == "empty":
        opt = {}
    elif form == "none-key":
        opt = {"n_output_values": None}
    if form == "label":
        gate = FnPointsInitialize(params, label="f", opt_params=opt)
    elif form in ("static", "static-qubits"):
        w = 2 * len(keys[0]) + 1
        host = QuantumCircuit(w if form == "static" else w + 1)
        if form == "static":
            FnPointsInitialize.initialize(host, params, opt_params=opt)
        else:
            FnPointsInitialize.initialize(host, params, qubits=list(wires), opt_params=opt)
        gate = host.data[0].operation
        gate._host = host
    else:
        gate = FnPointsInitialize(params, opt_params=opt)
    return gate, gate.definition


def op_of(keys, svals, N):
    return {"op": "fnpoints", "n": len(keys[0]), "keys": list(keys), "s": [int(s) for s in svals],
            "hasN": N is not None, "N": 0 if N is None else int(N)}


def tie_case(ctx, keys, svals, N):
    from flatten import flatten, to_lines
    try:
        gate, circ = build(keys, svals, N)
        lines = [f"nprime {int(gate.n_output_values)} ;"] + to_lines(flatten(circ))
        ctx.count("tie:ok")
    except Exception as e:  # the model predicts which inputs the code rejects; anything else shows as a tie diff
        lines = [f"error_{type(e).__name__} ;"]
        ctx.count("tie:" + type(e).__name__)
    ctx.tie(op_of(keys, svals, N), lines)


def nprime_of(svals, N):
    """The property's rule, computed independently of the code."""
    return max(N, max(svals) - 1)


def target(keys, svals, nprime):
    m = len(keys)
    return {int(k, 2): -cmath.exp(2j * math.pi * s / nprime) / math.sqrt(m) for k, s in zip(keys, svals)}


def case_key(keys, svals, N, tag):
    h = hashlib.sha1(repr((list(keys), list(svals), N)).encode()).hexdigest()[:8]
    return f"fn:{tag}:n={len(keys[0])}:m={len(keys)}:N={N}:{h}"


def cu_matrix(theta, phi, lam, gamma):
    c, s = math.cos(theta / 2), math.sin(theta / 2)
    g = cmath.exp(1j * gamma)
    return [[g * c, -g * cmath.exp(1j * lam) * s],
            [g * cmath.exp(1j * phi) * s, g * cmath.exp(1j * (phi + lam)) * c]]


def sparse_run(gates):
    """Propagate |0…0> through a flattened list of x/cx/ccx/cu gates, as a dict index -> amplitude."""
    st = {0: 1.0 + 0j}
    for name, qs, ps in gates:
        if name == "x":
            st = {i ^ (1 << qs[0]): a for i, a in st.items()}
        elif name == "cx":
            st = {(i ^ (1 << qs[1])) if (i >> qs[0]) & 1 else i: a for i, a in st.items()}
        elif name == "ccx":
            st = {(i ^ (1 << qs[2])) if ((i >> qs[0]) & 1 and (i >> qs[1]) & 1) else i: a for i, a in st.items()}
        elif name == "cu":
            mat = cu_matrix(*ps)
            c, t = qs
            new = {}
            for i, a in st.items():
                if not (i >> c) & 1:
                    new[i] = new.get(i, 0) + a
                else:
                    col = (i >> t) & 1
                    i0 = i & ~(1 << t)
                    new[i0] = new.get(i0, 0) + mat[0][col] * a
                    new[i0 | (1 << t)] = new.get(i0 | (1 << t), 0) + mat[1][col] * a
            st = {i: a for i, a in new.items() if a != 0}
        else:
            raise RuntimeError("sparse_run: unexpected gate " + name)
    return st


def oracle_case(ctx, keys, svals, N, tag, dense=True):
    """Full state of the REAL definition vs the closed form of the property."""
    n, m = len(keys[0]), len(keys)
    rep = {"call": "FnPointsInitialize(dict(zip(keys, s)), opt_params={'n_output_values': N}).definition",
           "keys": list(keys), "s": [int(s) for s in svals], "N": N, "dense": dense}
    key = case_key(keys, svals, N, tag)
    try:
        gate, circ = build(keys, svals, N)
    except Exception as e:  # valid input: construction must not fail
        ctx.fail(key, f"construction raised {type(e).__name__}: {e}", rep)
        return
    nprime = nprime_of(svals, N)
    if int(gate.n_output_values) != nprime:
        ctx.fail(key, f"N' = {gate.n_output_values}, property says max(N, max s - 1) = {nprime}", rep)
        return
    want = target(keys, svals, nprime)
    if circ.num_qubits != 2 * n + 1:
        ctx.fail(key, f"definition has {circ.num_qubits} qubits, expected x,g,c = {2 * n + 1}", rep)
        return
    if dense:
        from qiskit.quantum_info import Statevector
        got = Statevector(circ).data
        ideal = np.zeros(2 ** circ.num_qubits, dtype=complex)
        for i, a in want.items():
            ideal[i] = a
        diff = np.abs(got - ideal)
        worst_i = int(np.argmax(diff))
        err = float(diff[worst_i])
    else:
        from flatten import flatten
        st = sparse_run(flatten(circ))
        err, worst_i = 0.0, 0
        for i in set(st) | set(want):
            d = abs(st.get(i, 0) - want.get(i, 0))
            if d > err:
                err, worst_i = d, i
    ctx.count(f"oracle:n={n}:{'dense' if dense else 'sparse'}")
    if err > 1e-7:
        where = "work/flag qubit not returned to |0>" if worst_i >> n else "x-register amplitude"
        ctx.fail(key, f"max |state - closed form| = {err:.3e} at index {worst_i} ({where}); N'={nprime}",
                 dict(rep, observed_err=err, index=worst_i))
    else:
        ctx.ok(key, nontrivial=m >= 2 and any(s != 0 for s in svals),
               sample={"n": n, "keys": list(keys)[:6], "s": [int(s) for s in svals][:6], "N": N, "m": m, "err": err})


def entry_forms(ctx):
    """The other entry paths of fnpoints.py: opt_params {} / {'n_output_values': None} (default N' = max s - 1), a label,
    the static initialize() with qubits=None and with an explicit permuted wire list on a wider host circuit.  Tie (same
    model op: the definition must not depend on the entry path) and dense oracle."""
    from flatten import flatten, to_lines
    from qiskit.quantum_info import Statevector
    r = ctx.rng
    for form in FORMS:
        for n in (2, 3):
            m = r.randint(2, 2 ** n)
            keys = r.sample(all_keys(n), m)
            if form in ("empty", "none-key"):
                N = None
                svals = [r.randrange(0, 6) for _ in keys]
                svals[r.randrange(m)] = r.randint(3, 7)           # default N' = max s - 1 >= 2
                nprime = max(svals) - 1
            else:
                N = r.choice([2, 3, 5, 8])
                svals = [r.randrange(N) for _ in keys]
                nprime = nprime_of(svals, N)
            w = 2 * n + 1
            wires = r.sample(range(w + 1), w) if form == "static-qubits" else list(range(w))
            entry_case(ctx, keys, svals, N, form, wires)


def entry_case(ctx, keys, svals, N, form, wires):
    from flatten import flatten, to_lines
    from qiskit.quantum_info import Statevector
    n = len(keys[0])
    w = 2 * n + 1
    nprime = max(svals) - 1 if N is None else nprime_of(svals, N)
    key = case_key(keys, svals, N, "form=" + form)
    rep = {"call": "FnPointsInitialize", "keys": list(keys), "s": [int(x) for x in svals], "N": N, "form": form, "wires": wires}
    try:
        gate, circ = build(keys, svals, N, form, wires)
    except Exception as e:
        ctx.fail(key, f"construction raised {type(e).__name__}: {e}", rep)
        return
    ctx.count("branch:entry-form:" + form)
    ctx.tie(op_of(keys, svals, N), [f"nprime {int(gate.n_output_values)} ;"] + to_lines(flatten(circ)))
    host = getattr(gate, "_host", None)
    full = host if host is not None else circ
    got = Statevector(full).data
    ideal = np.zeros(2 ** full.num_qubits, dtype=complex)
    for i, a in target(keys, svals, nprime).items():
        ideal[sum(((i >> b) & 1) << wires[b] for b in range(w))] = a
    err = float(np.abs(got - ideal).max())
    on = [full.find_bit(q).index for q in full.data[0].qubits] if host is not None else wires
    if int(gate.n_output_values) != nprime or err > 1e-7 or on != wires:
        ctx.fail(key, f"N'={gate.n_output_values} (expected {nprime}); wires {on} (asked {wires}); max |state - closed form| = {err:.3e}",
                 dict(rep, observed_err=err))
    else:
        ctx.ok(key, nontrivial=True, sample={"n": n, "form": form, "N": N, "err": err})


def gate_conventions(ctx):
    """K4 assumption: qiskit's matrices are the ones Sem/Denote.lean uses (little-endian: qubit 0 = first argument)."""
    from qiskit.circuit.library import CUGate, XGate, CXGate, CCXGate
    for (t, p, l, g) in ((0.7, -1.1, 2.3, 0.0), (-1.9, 0.4, -0.4, 0.6), (-math.pi, 0.0, -0.0, 0.0)):
        m = np.array(cu_matrix(t, p, l, g))
        ref = np.eye(4, dtype=complex)       # control = qubit 0, target = qubit 1
        for r in range(2):
            for c in range(2):
                ref[1 + 2 * r, 1 + 2 * c] = m[r, c]
        ctx.assumption_checks += 1
        if np.abs(CUGate(t, p, l, g).to_matrix() - ref).max() > 1e-12:
            ctx.fail("assumption:cu-matrix", "CUGate matrix convention changed", kind="assumption")
    ctx.assumption_checks += 3
    cx = np.array([[1, 0, 0, 0], [0, 0, 0, 1], [0, 0, 1, 0], [0, 1, 0, 0]])
    ccx = np.eye(8)
    ccx[[3, 7]] = ccx[[7, 3]]
    if np.abs(XGate().to_matrix() - np.array([[0, 1], [1, 0]])).max() > 0 or np.abs(CXGate().to_matrix() - cx).max() > 0 \
            or np.abs(CCXGate().to_matrix() - ccx).max() > 0:
        ctx.fail("assumption:x-matrices", "X/CX/CCX matrix convention changed", kind="assumption")


# ------------------------------------------------------------------------------------------------
# generators
# ------------------------------------------------------------------------------------------------

def all_keys(n):
    return ["".join(b) for b in itertools.product("01", repeat=n)]


def orders(ctx, keys, k):
    """ascending, descending and k random shuffles (deduplicated)."""
    out = [list(keys), list(keys)[::-1]]
    for _ in range(k):
        p = list(keys)
        ctx.rng.shuffle(p)
        out.append(p)
    seen, res = set(), []
    for o in out:
        if tuple(o) not in seen:
            seen.add(tuple(o))
            res.append(o)
    return res


def assignments(ctx, m, k):
    """(s list, N): binary function, N = m distinct values, N = 1, random N with random s in 0..N-1."""
    r = ctx.rng
    out = [([r.randrange(2) for _ in range(m)], 2),
           (r.sample(range(m), m), max(m, 1)),
           ([0] * m, 1)]
    for _ in range(k):
        N = r.choice([2, 3, 4, 5, 7, 8, 16, 33])
        out.append(([r.randrange(N) for _ in range(m)], N))
    return out


def nprime_rule_cases(ctx):
    """Where the property's N' = max(N, max s - 1) differs from N (outputs beyond the requested range)."""
    r = ctx.rng
    cases = []
    for n in (2, 3, 4):
        ks = all_keys(n)
        for _ in range(3):
            m = r.randint(2, 2 ** n)
            keys = r.sample(ks, m)
            N = r.choice([1, 2, 3])
            svals = [r.randrange(0, N) for _ in range(m)]
            svals[r.randrange(m)] = N + r.randint(2, 6)     # max s - 1 > N
            cases.append((keys, svals, N))
        keys = r.sample(ks, 2)
        cases.append((keys, [0, 3], 2))                     # max s - 1 == N
        cases.append((keys, [4, 0], 2))
    return cases


BOUNDARIES = {
    "fnpoints.py:71-79 default = max s - 1; opt_params None / key None / N' = max(N, default)":
        "for N = 1, 2, 3, 5: max s = N-1, N, N+1, N+2 (default N-2 < N, N-1 < N, = N, N+1 > N), the same points with N omitted "
        "(where max s != 1: N' = 0 is the note F-C18-1) and with {} / {'n_output_values': None}",
    "fnpoints.py:102 list(enumerate(self.params))[::-1], :155 idx_p / (idx_p + 1)":
        "m = 1, 2, 3, 2^n - 1, 2^n for n = 2..5 (6 sparse); ascending, descending and shuffled lists incl. n = 4, 5 full sets",
    "fnpoints.py:106-108 bits_z0[j] != k (move of the flag from the previous point)":
        "all-zeros point first / last in the list (no CX at all for the point processed first), all-ones point first / last, "
        "neighbours in the list differing in exactly one bit k (every k) and in every bit",
    "fnpoints.py:160 lamb = -s * 2 pi / N'": "all s = 0 (N = 1, 2, 7, omitted: N' = -1), all s = N - 1, s = 0 and s = N - 1 together, s = N",
    "fnpoints.py:124 range(2, n), :133 reg_g[n - 2], :135 range(n - 1, 1, -1), bits_z[k] == 0, _flipflop01 bits 0 / 1":
        "n = 2 (empty ladder loop), 3 (one step), 4, 5, 6; two stored points differing in exactly bit k for every k = 0..n-1 in "
        "both list orders (a control dropped or an X sandwich missing at index k makes the ladder match the neighbour), every "
        "single point for n = 4, single-one / single-zero points for n = 5",
}


def bcase(ctx, keys, svals, N, name, dense=True):
    """one boundary case: tie + oracle (opt_params None when N is None: entry_case does both)"""
    ctx.count("boundary:" + name)
    if N is None:
        entry_case(ctx, keys, svals, None, "plain", list(range(2 * len(keys[0]) + 1)))
    else:
        tie_case(ctx, keys, svals, N)
        oracle_case(ctx, keys, svals, N, "bv", dense=dense)


def boundary_cases(ctx):
    r = ctx.rng
    # ---- A: N' = max(N, max s - 1) around both max s - 1 and max s
    for n in (2, 3):
        for N in (1, 2, 3, 5):
            for dm, rel in ((-1, "N-1"), (0, "N"), (1, "N+1"), (2, "N+2")):
                top = N + dm
                m = r.randint(2, 2 ** n)
                keys = r.sample(all_keys(n), m)
                svals = [r.randint(0, top) for _ in keys]
                i = r.randrange(m)
                svals[i] = top
                svals[(i + 1 + r.randrange(m - 1)) % m] = 0
                bcase(ctx, keys, svals, N, f"N' rule: max s = {rel} (N given)")
                if top != 1:
                    bcase(ctx, keys, svals, None, f"N' rule: N omitted, max s = {top}")
                    if n == 2:
                        form = r.choice(["empty", "none-key"])
                        entry_case(ctx, keys, svals, None, form, list(range(2 * n + 1)))
    # ---- B: extreme outputs
    for n in (2, 3, 4):
        ks = all_keys(n)
        for N in (1, 2, 7, None):
            keys = r.sample(ks, r.randint(2, 2 ** n))
            bcase(ctx, keys, [0] * len(keys), N, "all outputs 0")
        for N in (2, 3, 8):
            keys = r.sample(ks, r.randint(2, 2 ** n))
            bcase(ctx, keys, [N - 1] * len(keys), N, "all outputs N-1")
            sv = [r.choice([0, N - 1]) for _ in keys]
            sv[0], sv[-1] = 0, N - 1
            bcase(ctx, keys, sv, N, "outputs 0 and N-1 together")
            sv = sv[::-1]
            bcase(ctx, keys, sv, N, "outputs 0 and N-1 together")
    # ---- C: list orders and the all-zeros / all-ones point at both ends, n = 4, 5 dense, 6 sparse
    for n in (4, 5, 6):
        ks = all_keys(n)
        dense = n <= 5
        zero, one = "0" * n, "1" * n
        if n <= 5:
            for name, keys in (("full set ascending", ks), ("full set descending", ks[::-1]),
                               ("2^n-1 points ascending, all-zeros missing", ks[1:]),
                               ("2^n-1 points descending, all-ones missing", ks[-2::-1])):
                N = r.choice([2, 3, len(keys)])
                bcase(ctx, keys, [r.randrange(N) for _ in keys], N, name, dense)
        mid = [k for k in r.sample(ks[1:-1], 3)]
        for name, keys in (("all-zeros point first", [zero] + mid), ("all-zeros point last", mid + [zero]),
                           ("all-ones point first", [one] + mid), ("all-ones point last", mid + [one]),
                           ("all-zeros first, all-ones last", [zero] + mid[:1] + [one]),
                           ("all-ones then all-zeros (every bit moves)", [one, zero]),
                           ("all-zeros then all-ones (every bit moves)", [zero, one])):
            N = r.choice([2, 3, 5])
            sv = [r.randrange(N) for _ in keys]
            sv[0] = N - 1
            bcase(ctx, keys, sv, N, name, dense)
    # ---- D: ladder controls: two stored points differing in exactly bit k, both orders
    for n in (2, 3, 4, 5, 6):
        ks = all_keys(n)
        dense = n <= 5
        bases = ["0" * n, "1" * n, r.choice(ks)]
        for k in (range(n) if n <= 5 else (0, 1, 2, n - 1)):
            for b in (bases if n <= 4 else bases[1:] if k % 2 else bases[:1] + bases[2:]):
                nb = b[:k] + ("1" if b[k] == "0" else "0") + b[k + 1:]
                for keys in ([b, nb], [nb, b]):
                    bcase(ctx, keys, [0, 1], 2, f"two points differing in exactly one bit (n={n})", dense)
        b = r.choice(ks)
        nbs = [b[:k] + ("1" if b[k] == "0" else "0") + b[k + 1:] for k in range(n)]
        keys = [b] + nbs
        r.shuffle(keys)
        bcase(ctx, keys, list(range(len(keys))), len(keys), f"a point and all its n one-bit neighbours (n={n})", dense)
    # ---- E: m = 1 for every point (n = 4), single-one / single-zero points (n = 5)
    for k in all_keys(4):
        bcase(ctx, [k], [r.randrange(3)], 3, "m = 1, every point of n = 4")
    for j in range(5):
        for k in ("0" * j + "1" + "0" * (4 - j), "1" * j + "0" + "1" * (4 - j)):
            bcase(ctx, [k], [1], 2, "m = 1, single-one / single-zero point of n = 5")


# ------------------------------------------------------------------------------------------------
# input-diversity section: the same observable on the FORMS an ordinary valid input / call can take
# ------------------------------------------------------------------------------------------------

DIVERSITY = {
    "element types": "outputs as python int / numpy int64, int32, int8 scalars (dict built from a numpy array) / integral python float, "
                     "numpy float64, float32; n_output_values as python int / numpy int64 / integral float; keys as "
                     "str and numpy str_; params as dict / OrderedDict",
    "scale": "all outputs equal, exactly repeated outputs, one output far beyond the requested range (N' = max s - 1 >> N), huge N "
             "(phases 2 pi s / N of 1e-3 .. 1e-6 rad), m = 1 .. 2^n",
    "phase": "phases exactly 0, pi/2, pi, 3pi/2 (N' = 4, 2), s = N' and s = N' + 1 (phase 2 pi and beyond), N' = 1 (all phases multiples "
             "of 2 pi)",
    "call forms": "opt_params None / {} / {'n_output_values': None} / {'n_output_values': N} / with an unrelated extra key; the same "
                  "opt_params dict object reused for a second construction with a different N; label together with opt_params; copy() "
                  "before / after the definition is built; one gate object appended twice; static initialize with opt_params AND "
                  "qubits given as permuted non-ascending int list / Qubit objects / registers c,g,x declared in another order on a "
                  "wider host; the caller's dicts must be left unchanged",
    "sizes": "n = 2 (empty ladder loop), 3 (one step), 4 (two steps); m = 1, 2, 3, 2^n",
}

SCALARS = {
    "int": int, "np-int64": lambda x: np.int64(x), "np-int32": lambda x: np.int32(x), "np-int8": lambda x: np.int8(x),
    "np-uint8": lambda x: np.uint8(x), "np-uint16": lambda x: np.uint16(x),      # unsigned: -s and 2*s wrap inside the type
    "float": float, "np-float64": lambda x: np.float64(x), "np-float32": lambda x: np.float32(x),
}   # complex outputs are not a form of "integer outputs" (max() has no order on them: TypeError) -- not generated
OPTFORMS = ("none", "empty", "none-key", "N", "N-extra-key", "N-np-int64", "N-float", "reused-dict")
NFORMS = {"N": "int", "N-np-int64": "np.int64", "N-np-int32": "np.int32", "N-float": "float", "N-np-float64": "np.float64"}   # forms of the number N
DIV_HOWS = ("ctor", "ctor-label", "copy-before-def", "def-then-copy", "append-twice", "static-none", "static-ints",
            "static-qubit-objs", "static-registers")


def _div_params(keys, svals, stype, container):
    vals = [SCALARS[stype](x) for x in svals]
    if container == "nparray-values":                 # dict(zip(keys, array)): the values are numpy scalars of the array's dtype
        vals = list(np.array(svals, dtype={"np-int64": np.int64, "np-int32": np.int32, "np-int8": np.int8, "np-uint8": np.uint8, "np-uint16": np.uint16, "np-float64": np.float64,
                                           "np-float32": np.float32}.get(stype, np.int64)))
    ks = [np.str_(k) for k in keys] if container == "npstr-keys" else list(keys)
    if container == "ordered":
        from collections import OrderedDict
        return OrderedDict(zip(ks, vals))
    return dict(zip(ks, vals))


def _div_opt(N, optform):
    """(opt_params object handed to the library, N the property sees (None = not requested))"""
    if optform == "none":
        return None, None
    if optform == "empty":
        return {}, None
    if optform == "none-key":
        return {"n_output_values": None}, None
    if optform == "N-extra-key":
        return {"n_output_values": N, "aux": True, "label": "x"}, N
    if optform == "N-np-int64":
        return {"n_output_values": np.int64(N)}, N
    if optform == "N-float":
        return {"n_output_values": float(N)}, N
    if optform == "N-np-int32":
        return {"n_output_values": np.int32(N)}, N
    if optform == "N-np-float64":
        return {"n_output_values": np.float64(N)}, N
    return {"n_output_values": N}, N


def div_build(params, opt, how, w, wires=None, reuse=None):
    """(gate, definition, host or None, wires the instruction must sit on)"""
    from qiskit import QuantumCircuit, QuantumRegister
    from qclib.state_preparation.fnpoints import FnPointsInitialize
    if reuse is not None:
        # the SAME dict object served a previous construction with other contents (and that gate's definition was built)
        other_params, other_N = reuse
        opt_obj = opt
        good = dict(opt_obj)
        opt_obj.clear()
        opt_obj["n_output_values"] = other_N
        g0 = FnPointsInitialize(other_params, opt_params=opt_obj)
        _ = g0.definition
        opt_obj.clear()
        opt_obj.update(good)
    if how == "ctor":
        g = FnPointsInitialize(params, opt_params=opt)
        return g, g.definition, None, None
    if how == "ctor-label":
        g = FnPointsInitialize(params, label="div", opt_params=opt)
        return g, g.definition, None, None
    if how == "copy-before-def":
        g = FnPointsInitialize(params, opt_params=opt)
        g2 = g.copy()
        host = QuantumCircuit(w)
        host.append(g2, list(range(w)))
        return g2, g2.definition, host, list(range(w))
    if how == "def-then-copy":
        g = FnPointsInitialize(params, opt_params=opt)
        _ = g.definition
        g2 = g.copy()
        host = QuantumCircuit(w)
        host.append(g2, list(range(w)))
        return g2, g2.definition, host, list(range(w))
    if how == "append-twice":
        g = FnPointsInitialize(params, opt_params=opt)
        host = QuantumCircuit(2 * w)
        host.append(g, list(range(w)))
        host.append(g, list(wires))
        return g, g.definition, host, list(range(w))
    if how == "static-none":
        host = QuantumCircuit(w)
        FnPointsInitialize.initialize(host, params, opt_params=opt)
    elif how == "static-ints":
        host = QuantumCircuit(w + 2)
        FnPointsInitialize.initialize(host, params, qubits=list(wires), opt_params=opt)
    elif how == "static-pos-ints":                     # every argument positional: initialize(q_circuit, state, qubits, opt_params)
        host = QuantumCircuit(w + 2)
        FnPointsInitialize.initialize(host, params, list(wires), opt)
    elif how == "ctor-pos":                            # FnPointsInitialize(params, label, opt_params)
        g = FnPointsInitialize(params, None, opt)
        return g, g.definition, None, None
    elif how == "static-qubit-objs":
        host = QuantumCircuit(QuantumRegister(2, "a"), QuantumRegister(w, "b"))
        FnPointsInitialize.initialize(host, params, qubits=[host.qubits[i] for i in wires], opt_params=opt)
    elif how == "static-registers":                    # registers declared as c, g, x; the gate wants x, g, c
        n = (w - 1) // 2
        c, gq, x = QuantumRegister(2, "c"), QuantumRegister(n - 1, "g"), QuantumRegister(n, "x")
        host = QuantumCircuit(c, gq, x)
        FnPointsInitialize.initialize(host, params, qubits=list(x) + list(gq) + list(c), opt_params=opt)
        wires = [host.find_bit(q).index for q in list(x) + list(gq) + list(c)]
    else:
        raise ValueError(how)
    g = host.data[0].operation
    return g, g.definition, host, (list(range(w)) if how == "static-none" else list(wires))


def _div_wires(rng, how, w):
    if how == "append-twice":
        return rng.sample(range(w, 2 * w), w)
    if how in ("static-ints", "static-qubit-objs", "static-pos-ints"):
        ws = rng.sample(range(w + 2), w)
        return ws[::-1] if ws == sorted(ws) else ws
    return None


def div_case(ctx, name, keys, svals, N, stype="int", container="dict", optform="N", how="ctor", wires=None, reuse=None, tie=True):
    """svals / N: the integers the property speaks of; the library gets them in the given scalar type / container / option form /
    call form.  Observable: N', full state of the definition (and of the host) vs the closed form."""
    from flatten import flatten, to_lines
    from qiskit.quantum_info import Statevector
    import copy as _copy
    n, m = len(keys[0]), len(keys)
    w = 2 * n + 1
    params = _div_params(keys, svals, stype, container)
    opt, N_seen = _div_opt(N, optform)
    h = hashlib.sha1(repr((list(keys), list(svals), N)).encode()).hexdigest()[:8]
    key = f"fn:div:{name}:n={n}:m={m}:N={N_seen}:{stype}:{container}:{optform}:{how}:{h}"
    rep = {"call": "FnPointsInitialize", "keys": list(keys), "s": [int(x) for x in svals], "N": N, "div": True, "name": name,
           "stype": stype, "container": container, "optform": optform, "how": how, "wires": wires,
           "reuse": None if reuse is None else [dict(reuse[0]), reuse[1]]}
    for c in ("diversity:" + name, "diversity:type:" + stype, "diversity:container:" + container, "diversity:opt:" + optform,
              "diversity:call:" + how):
        ctx.count(c)
    p_before, o_before = repr(params), repr(opt)
    try:
        gate, circ, host, on_want = div_build(params, opt, how, w, wires, reuse if optform == "reused-dict" else None)
    except Exception as e:
        ctx.fail(key + ":raises", f"construction raised {type(e).__name__}: {e}", rep)
        return
    if repr(params) != p_before or repr(opt) != o_before:
        ctx.fail(key + ":input-mutated", f"the caller's params / opt_params were modified: {p_before} -> {params!r}; {o_before} -> {opt!r}", rep)
    nprime = max(svals) - 1 if N_seen is None else nprime_of(svals, N_seen)
    if tie:
        ctx.tie(op_of(keys, svals, N_seen), [f"nprime {int(gate.n_output_values)} ;"] + to_lines(flatten(circ)))
    want = target(keys, svals, nprime)
    try:
        got = Statevector(circ).data
        ideal = np.zeros(2 ** w, dtype=complex)
        for i, a in want.items():
            ideal[i] = a
        err = float(np.abs(got - ideal).max()) if circ.num_qubits == w else float("inf")
        herr, on = 0.0, on_want
        if host is not None:
            on = [host.find_bit(q).index for q in host.data[0].qubits]
            hv = np.asarray(Statevector(host).data)
            hw = np.zeros(2 ** host.num_qubits, dtype=complex)
            if how == "append-twice":
                for i, a in want.items():
                    for j, b in want.items():
                        hw[i + sum(((j >> t) & 1) << wires[t] for t in range(w))] = a * b
            else:
                for i, a in want.items():
                    hw[sum(((i >> t) & 1) << on_want[t] for t in range(w))] = a
            herr = float(np.abs(hv - hw).max())
    except Exception as e:
        ctx.fail(key + ":raises", f"simulation raised {type(e).__name__}: {e}", rep)
        return
    if int(gate.n_output_values) != nprime or not err <= 1e-7 or not herr <= 1e-7 or on != on_want:
        ctx.fail(key, f"N'={gate.n_output_values} (expected {nprime}); instruction on wires {on} (asked {on_want}); definition: max |state - "
                      f"closed form| = {err:.3e}; host: {herr:.3e}", dict(rep, observed_err=max(err, herr)))
    else:
        ctx.ok(key, nontrivial=m >= 2 and any(x != 0 for x in svals), sample={"n": n, "m": m, "N": N, "err": err})
        if name.startswith("flagforms"):
            if optform in NFORMS:
                ctx.count(f"flagforms:n_output_values:{NFORMS[optform]}")
                ctx.count(f"flagforms:n_output_values:{NFORMS[optform]}:{N}:via {how}")
            if not any(svals):
                ctx.count(f"flagforms:output-value:{stype}:all-zero:via {how}")


def _diversity_cases(ctx):
    r = ctx.rng
    cyc = [0]
    ctx.notes.append("precision remark (below the oracle tolerance, not alarmed): with outputs given as numpy float32 scalars and "
                     "max s - 1 > N the code keeps N' as numpy.float32, so -s*2*pi/N' is rounded to binary32 (phase error up to "
                     "~5e-7 rad, amplitudes ~1e-7); float32 outputs are therefore generated only with N >= max s - 1")

    def next_how():
        cyc[0] += 1
        return DIV_HOWS[cyc[0] % len(DIV_HOWS)]

    def pts(n, m):
        return r.sample(all_keys(n), m)

    def go(name, keys, svals, N, **kw):
        how = kw.pop("how", None) or next_how()
        div_case(ctx, name, keys, svals, N, how=how, wires=_div_wires(r, how, 2 * len(keys[0]) + 1), **kw)

    # ---- 1. element types of the outputs / of N / of the keys / of the container
    for n in (2, 3):
        for stype in SCALARS:
            m = r.randint(2, 2 ** n)
            N = r.choice([2, 3, 5])
            sv = [r.randrange(N) for _ in range(m)]
            sv[r.randrange(m)] = N - 1
            go("scalar type of the outputs", pts(n, m), sv, N, stype=stype, how="ctor")
            go("scalar type of the outputs", pts(n, m), sv, N, stype=stype)
            # beyond the requested range, so that max(...) - 1 of that scalar type decides N'
            if stype == "np-float32":
                continue          # N' would be a numpy float32 and the phases rounded to binary32 (<= ~1e-7 on amplitudes): see note
            sv2 = list(sv)
            sv2[r.randrange(m)] = N + r.randint(2, 4)
            go("scalar type of the outputs, N' = max s - 1", pts(n, m), sv2, N, stype=stype)
            go("scalar type of the outputs, N omitted", pts(n, m), sv2, None, stype=stype, optform=r.choice(["none", "empty", "none-key"]))
        for stype in ("np-int64", "np-int32", "np-int8", "np-uint8", "np-uint16", "np-float64", "np-float32"):
            m = r.randint(2, 2 ** n)
            go("values taken from a numpy array", pts(n, m), [r.randrange(4) for _ in range(m - 1)] + [3], 4, stype=stype,
               container="nparray-values")
        for container in ("ordered", "npstr-keys"):
            m = r.randint(2, 2 ** n)
            go("container / key type", pts(n, m), [r.randrange(3) for _ in range(m - 1)] + [2], 3, container=container)
        for optform in ("N-np-int64", "N-float", "N-extra-key"):
            m = r.randint(2, 2 ** n)
            go("type of n_output_values / unrelated extra key", pts(n, m), [r.randrange(5) for _ in range(m - 1)] + [4], 5,
               optform=optform)
            go("type of n_output_values / unrelated extra key", pts(n, m), [r.randrange(5) for _ in range(m - 1)] + [9], 5,
               optform=optform, how=r.choice(["static-ints", "static-qubit-objs"]))
    # ---- 2. scale structure
    for n in (2, 3, 4):
        m = r.randint(2, min(2 ** n, 6))
        go("all outputs equal (non-zero)", pts(n, m), [3] * m, 5)
        go("exactly repeated outputs", pts(n, m), [[1, 4][i % 2] for i in range(m)], 5)
        go("one output far beyond the requested range", pts(n, m), [r.randrange(2) for _ in range(m - 1)] + [1000], 2)
        go("one output far beyond the requested range, first in the list", pts(n, m), [257] + [r.randrange(3) for _ in range(m - 1)], 3)
        for N in (10 ** 3, 10 ** 6):
            go("huge N (tiny phases)", pts(n, m), [r.randrange(1, 4) for _ in range(m)], N)
            go("huge N, outputs spread over the range", pts(n, m), [0, N - 1] + [r.randrange(N) for _ in range(m - 2)], N)
    # ---- 3. phases exactly 0, pi/2, pi, 3pi/2; 2 pi and beyond; N' = 1
    for n in (2, 3):
        m = min(2 ** n, 5)
        go("phases exactly +1, i, -1, -i", pts(n, m), [i % 4 for i in range(m)], 4)
        go("phases exactly +1, -1", pts(n, m), [i % 2 for i in range(m)], 2)
        for N in (2, 3, 5):
            go("s = N' (phase 2 pi) and s = N' + 1", pts(n, m), [N, N + 1, 0, 1, N - 1][:m], N)
        go("N' = 1 (every phase a multiple of 2 pi)", pts(n, m), [0, 1, 2, 1, 0][:m], 1)
    # ---- 4. call forms: every option form x every call form on small inputs; N larger than max s - 1 so that dropping it shows
    for n in (2, 3):
        for optform in OPTFORMS:
            for how in DIV_HOWS:
                if n == 3 and (OPTFORMS.index(optform) + DIV_HOWS.index(how)) % 3:
                    continue
                m = r.randint(2, 2 ** n)
                keys = pts(n, m)
                if optform in ("none", "empty", "none-key"):
                    sv = [r.randrange(6) for _ in range(m - 1)] + [r.randint(3, 7)]
                    N = None
                else:
                    N = r.choice([3, 5, 8])
                    sv = [r.randrange(1, N) for _ in range(m)]
                r.shuffle(sv)
                reuse = None
                if optform == "reused-dict":
                    reuse = (dict(zip(pts(n, 2), [0, 12])), N + 4)       # earlier construction: other points, larger N, larger max s
                div_case(ctx, "option form x call form", keys, sv, N, optform=optform, how=how,
                         wires=_div_wires(r, how, 2 * n + 1), reuse=reuse)
    # ---- 6. n_output_values at its FALSY value 0 (the property's N' = max(N, max s - 1) then is max s - 1; needs max s >= 2), at 1 and 2,
    #         in every numeric form (int / numpy int64, int32 / float / numpy float64), through the constructor (keyword, positional),
    #         copies and the static helper (keyword, positional); and the falsy OUTPUT value: every output 0, in every scalar type
    fhows = ("ctor", "ctor-pos", "static-ints", "static-pos-ints", "static-none", "copy-before-def", "static-qubit-objs", "ctor-label")
    j = r.randrange(8)
    for n in (2, 3):
        for N in (0, 1, 2):
            for optform in NFORMS:
                for rep_ in range(2):
                    j += 1
                    m = r.randint(2, 2 ** n)
                    top = r.randint(2, 5) if (N == 0 or rep_) else N            # rep_ = 1: N' decided by max s - 1, else by N (N >= 1)
                    sv = [r.randrange(top + 1) for _ in range(m - 1)] + [top]
                    r.shuffle(sv)
                    how = fhows[j % len(fhows)]
                    div_case(ctx, "flagforms: n_output_values 0 / 1 / 2 in each numeric form", pts(n, m), sv, N, optform=optform, how=how,
                             wires=_div_wires(r, how, 2 * n + 1))
        for stype in SCALARS:
            if stype in ("np-uint8", "np-uint16"):
                # max(outputs) - 1 wraps inside an unsigned type when every output is 0 (N' = 255 / 65535 instead of the
                # requested N); every phase is exp(0) = 1 there, so the prepared state - the property's observable - is the same:
                # counted, not generated (the N' attribute is compared by this harness as part of the tie)
                ctx.count("flagforms:outputs-all-zero:" + stype + ":not-generated(unsigned wrap of N', state unaffected)")
                continue
            for N in (1, 3):
                j += 1
                m = r.randint(2, 2 ** n)
                how = fhows[j % len(fhows)]
                div_case(ctx, "flagforms: every output 0", pts(n, m), [0] * m, N, stype=stype, optform=list(NFORMS)[j % len(NFORMS)], how=how,
                         wires=_div_wires(r, how, 2 * n + 1))
    # ---- 5. sizes: n = 2, 3, 4 with m = 1, 2, 3, 2^n through the static helper with every keyword set
    for n in (2, 3, 4):
        for m in (1, 2, 3, 2 ** n):
            N = r.choice([3, 7])
            sv = [r.randrange(N) for _ in range(m)]
            sv[0] = N - 1
            how = ["static-ints", "static-qubit-objs", "static-registers"][(n + m) % 3]
            if n == 4 and how != "static-registers":
                how = "static-registers"                   # 11 wires stay within the dense cap
            div_case(ctx, "static helper, every keyword, each size", pts(n, m), sv, N, how=how, wires=_div_wires(r, how, 2 * n + 1))


def run(ctx, tie_nmax=None, or_nmax=None, sparse_nmax=None):
    gate_conventions(ctx)
    tie_nmax_given = tie_nmax
    if tie_nmax is None:
        gen_nprime_tie(ctx)
    boundary_cases(ctx)
    r = ctx.rng
    quick = ctx.quick
    # ---- tie: every subset for n <= 3
    for n in (2, 3):
        ks = all_keys(n)
        for mask in range(1, 2 ** len(ks)):
            sub = [k for i, k in enumerate(ks) if (mask >> i) & 1]
            for o in orders(ctx, sub, 1 if quick else 3):
                for svals, N in assignments(ctx, len(sub), 1 if quick else 3):
                    tie_case(ctx, o, svals, N)
    # ---- tie: random sets for larger n
    tie_nmax = tie_nmax or (6 if quick else 8)
    for n in range(4, tie_nmax + 1):
        ks = all_keys(n)
        for m in sorted({1, 2, 3, 2 ** n, 2 ** n - 1} | {r.randint(1, 2 ** n) for _ in range(4 if quick else 10)}):
            if m > 64 and quick and m != 2 ** n:
                m = r.randint(4, 64)
            keys = r.sample(ks, m)
            svals, N = r.choice(assignments(ctx, m, 2))
            tie_case(ctx, keys, svals, N)
    # ---- tie: N' rule, omitted N, and the rejected inputs
    for keys, svals, N in nprime_rule_cases(ctx):
        tie_case(ctx, keys, svals, N)
    tie_case(ctx, ["01", "10"], [0, 2], None)          # default N' = 1
    tie_case(ctx, ["01", "10", "11"], [5, 2, 0], None)  # default N' = 4
    tie_case(ctx, ["01", "10"], [0, 0], None)          # default N' = -1 (all phases 0)
    tie_case(ctx, ["01", "10"], [0, 1], None)          # default N' = 0: ZeroDivisionError (F-C18-1), model rejects too
    tie_case(ctx, ["01", "10"], [0, 1], 0)             # requested N = 0 -> N' = 0
    tie_case(ctx, ["0", "1"], [0, 1], 2)               # n = 1: IndexError, model rejects too
    ctx.notes.append("F-C18-1 (not alarmed): with n_output_values omitted and max s = 1 the code computes N' = 0 and raises "
                     "ZeroDivisionError; the property presupposes a requested N >= 1, so this input is outside the quantifier. "
                     "The model rejects the same inputs (tied).")
    ctx.notes.append("the oracle is built from .definition directly (x,g,c = 2n+1 qubits); the gate's declared num_qubits is "
                     "property C15's business")

    entry_forms(ctx)
    if tie_nmax_given is None:
        _diversity_cases(ctx)

    # ---- oracle: dense, all subsets n <= 3, all m for n = 4, sampled m for n = 5
    or_nmax = or_nmax or 5
    for n in range(2, min(or_nmax, 3) + 1):
        ks = all_keys(n)
        for mask in range(1, 2 ** len(ks)):
            sub = [k for i, k in enumerate(ks) if (mask >> i) & 1]
            for o in orders(ctx, sub, 1 if quick else 2)[(1 if quick and n == 3 else 0):]:
                svals, N = r.choice(assignments(ctx, len(sub), 2)[:2] + assignments(ctx, len(sub), 2)[3:])
                oracle_case(ctx, o, svals, N, "subset")
    for n in range(4, or_nmax + 1):
        ks = all_keys(n)
        ms = list(range(1, 2 ** n + 1))
        if n >= 5 and quick:
            ms = sorted({1, 2, 2 ** n - 1, 2 ** n} | set(r.sample(ms, 8)))
        for m in ms:
            for rep_i in range(1 if quick else 2):
                keys = r.sample(ks, m)             # shuffled order
                svals, N = r.choice(assignments(ctx, m, 3)[:2] + assignments(ctx, m, 3)[3:])
                oracle_case(ctx, keys, svals, N, "random")
    # all N for one fixed set (N = 1 … 2m+2)
    keys = r.sample(all_keys(3), 5)
    for N in range(1, 13):
        oracle_case(ctx, keys, [r.randrange(N) for _ in keys], N, "allN")
    # N' rule where it differs from N
    for keys, svals, N in nprime_rule_cases(ctx):
        oracle_case(ctx, keys, svals, N, "nprime-rule")
    # ---- oracle: sparse propagation of the real gate list above the dense cap
    sparse_nmax = sparse_nmax or (6 if quick else 8)
    # self-check of the sparse simulator against qiskit on one dense-size instance
    k4 = r.sample(all_keys(4), 7)
    s4 = [r.randrange(5) for _ in k4]
    oracle_case(ctx, k4, s4, 5, "sparse-selfcheck-dense")
    oracle_case(ctx, k4, s4, 5, "sparse-selfcheck", dense=False)
    for n in range(6, sparse_nmax + 1):
        ks = all_keys(n)
        for m in sorted({1, 2, 2 ** n} | {r.randint(3, 2 ** n) for _ in range(2 if quick else 5)}):
            if m == 2 ** n and n > 6 and quick:
                continue
            keys = r.sample(ks, m)
            svals, N = r.choice(assignments(ctx, m, 3)[:2] + assignments(ctx, m, 3)[3:])
            oracle_case(ctx, keys, svals, N, "sparse", dense=False)


def search(ctx, hints):
    """Failing-input search after a red proof/tie: the disagreeing inputs first, then the generator at larger sizes."""
    for h in hints[:50]:
        op = h["op"]
        if op.get("op") != "fnpoints" or not op.get("hasN") or op["N"] < 1 or op["n"] < 2:
            continue
        oracle_case(ctx, op["keys"], op["s"], op["N"], "hint", dense=op["n"] <= 5)
    if ctx.failures:
        return
    run(ctx, tie_nmax=4, or_nmax=5, sparse_nmax=7)


def replay(ctx, payload):
    r = payload["replay"]
    if r.get("div"):
        reuse = r.get("reuse")
        div_case(ctx, r.get("name", "replay"), r["keys"], r["s"], r["N"], stype=r["stype"], container=r["container"],
                 optform=r["optform"], how=r["how"], wires=r.get("wires"), reuse=None if not reuse else (reuse[0], reuse[1]), tie=False)
        return
    if r.get("form"):
        entry_case(ctx, r["keys"], r["s"], r["N"], r["form"], r["wires"])
        return
    oracle_case(ctx, r["keys"], r["s"], r["N"], "replay", dense=r.get("dense", True))
