"""C15 — gates compose: arbitrary placement, inverse, declared width, inputs untouched, determinism.

Three channels (see LEVEL_TEXT):
  * Lean theorems about the shared gate syntax `G` (placement naturality, inverse, width table);
  * tie: width table four-way (real declared / real circuit / model declared / model circuit) and
    `G.inv`, `place` against qiskit's `inverse()` / `append` on random circuits;
  * oracle (DIFFERENTIAL TESTING of the real code): every documented entry point on random ordered
    qubit subsets of a larger host, inverse, aliasing of inputs, determinism.
"""
import copy
import math
import numpy as np

CLAIMED = True
TECHNIQUE = ("Lean 4 proofs over the shared gate syntax (naturality of the amplitude-function semantics in wire renaming, "
             "by cases over all gate constructors and induction over the list; inverse of every well-formed gate list over any "
             "RotLaws instance; width table declared = circuit for all parameters); four-way width tie and qiskit "
             "inverse/append tie; differential testing of every entry point of the real code")
LEVEL_TEXT = ("PROVED for all inputs (model level): C15_placement - for every circuit over the gate alphabet G, every wire "
              "renaming with a left inverse (every injective one: C15_placement_inj) and every state, the renamed circuit acts "
              "as the circuit on the renamed wires and as the identity elsewhere, spectators in ANY (entangled) state; "
              "C15_spectator (a product spectator factor is returned unchanged); C15_place (place c ws for duplicate-free ws is "
              "such a renaming). C15_inverse - for every gate list whose gates have their target outside their controls, "
              "c.reverse.map G.inv composed with c in either order is the identity on every state, over any RotLaws instance. "
              "C15_width - for each of the 26 initializer / gate classes the width the constructor declares equals the sum of "
              "the register sizes its _define allocates, for all parameters of the class's stated domain. "
              "TIED: the width table against gate.num_qubits and gate.definition.num_qubits for every class and option that "
              "affects width (n = 1..6, k = 1..7), four-way equality; G.inv and place against qiskit's QuantumCircuit.inverse() "
              "and append() on random circuits over the alphabet (parameters to 1e-12). "
              "ONLY TESTED (differential testing of the real code, not proved): that each documented entry point "
              "Cls.initialize(host, state, qubits=..., opt_params=...) / host.append(Cls(state), qubits) and each static gate "
              "helper places the gate's own definition on exactly the given ordered qubits (random permuted, non-contiguous "
              "subsets; spectators random product and Haar-entangled), that the prepared state is the requested one for the "
              "exact classes, gate.inverse() composed with the gate is the identity for reset-free classes, that building "
              "never changes the caller's array / dict / matrix / opt_params (byte comparison) and that building twice gives "
              "the same operator.")
LEVEL_NOTE = ("Trusted: Lean kernel (standard axioms); the link between the classes' qiskit definitions and gate lists over G "
              "(only qclib's own composite gates flatten to G; UnitaryGate/UCGate/DiagonalGate blocks are K4 primitives) - hence "
              "placement/inverse of the REAL entry points is differential testing; value semantics cannot express aliasing, so "
              "'inputs untouched' and determinism are tested, not proved. Exempt from determinism: LowRankInitialize with "
              "svd='randomized' (or 'auto' at n >= 14, rank 1), which draws a random sketch matrix by design.")
LEAN_TARGETS = ["QclibModel.Props.C15", "QclibModel.Props.C15Link"]
THEOREMS = ["Qclib.C15_placement", "Qclib.C15_placement_inj", "Qclib.C15_spectator", "Qclib.C15_place",
            "Qclib.C15_inverse", "Qclib.C15_width", "Qclib.C15_width_src",
            # Props/C15Link.lean: the gate lists of the other properties' models stay below the declared width of the table
            "Qclib.C15_link_mcxVchainDirty", "Qclib.C15_link_linearMcx", "Qclib.C15_link_toffoli", "Qclib.C15_link_ucr",
            "Qclib.C15_link_pqm", "Qclib.C15_link_fnPoints", "Qclib.C15_link_blackBox", "Qclib.C15_link_dcsp",
            "Qclib.C15_link_bdsp", "Qclib.C15_link_topDown", "Qclib.C15_link_cvoqram", "Qclib.C15_link_pivot",
            "Qclib.C15_link_ldmcu", "Qclib.C15_link_qdmcu", "Qclib.C15_link_mcg", "Qclib.C15_link_mcu",
            "Qclib.C15_link_ldmcsu", "Qclib.C15_link_ldMcSpecialUnitary", "Qclib.C15_link_multiTargetMCSU2"]
TRUSTED = [
    "qiskit QuantumCircuit.append/compose/inverse, Statevector/Operator/DensityMatrix (oracle side)",
    "the definitions of the real classes are not gate lists over G in general (UnitaryGate, UCGate, DiagonalGate, "
    "Isometry blocks): placement and inverse of the real entry points are tested differentially, not derived from the theorems",
    "width table: hand model of each constructor's width expression and of the registers _define allocates, tied on the "
    "sweep only — except the six constructors that compute their width themselves (Cvoqram, FnPoints, Pivot, McxVchainDirty, "
    "LinearMcx, MultiTargetMCSU2): their width expression is re-translated from the source on every run (tools/py2lean.py -> "
    "Gen/Widths.lean) and proved equal to declaredWidth (C15_width_src); second tie: generated definitions run by the driver "
    "vs num_qubits of the real constructors over a small box",
]
ASSUMPTIONS = ["exact arithmetic in the theorems; implementation compared to 1e-7 (states/operators), 1e-12 (inverse parameters)",
               "float idioms in width expressions (log2 of a power of two, ceil(log2 m)) are modelled by Nat.log2 / clog2"]
RULE = ("tie: (class, parameters) rows of the width table and random circuits over the gate alphabet; oracle: one evaluation = "
        "one (class, options, input, host size, ordered subset, entry point) placement, one inverse, one aliasing/determinism "
        "build; non-trivial = host strictly larger than the gate, subset not the identity placement, or a gate with >= 2 qubits")

TOL = 1e-7

# ------------------------------------------------------------------------------------------------
# helpers
# ------------------------------------------------------------------------------------------------


def _rng(seed):
    return np.random.default_rng(int(seed))


def snap(x):
    """Byte-level snapshot of a caller-owned input (arrays, dicts, lists, scalars), order included."""
    if isinstance(x, np.ndarray):
        return ("nd", str(x.dtype), x.shape, x.tobytes(), bool(x.flags.writeable))
    if isinstance(x, dict):
        return ("dict", tuple((snap(k), snap(v)) for k, v in x.items()))
    if isinstance(x, (list, tuple)):
        return (type(x).__name__, tuple(snap(v) for v in x))
    if isinstance(x, (complex, float, int, str, bool)) or x is None:
        return (type(x).__name__, repr(x))
    if isinstance(x, type):
        return ("type", x.__name__)
    return ("obj", repr(x))


def vec_kind(r, n, kind):
    d = 2 ** n
    if kind == "haar":
        v = r.normal(size=d) + 1j * r.normal(size=d)
    elif kind == "real":
        v = r.normal(size=d).astype(float)
    elif kind == "sparse":
        v = np.zeros(d, dtype=complex)
        for i in r.choice(d, size=max(1, d // 2), replace=False):
            v[i] = r.normal() + 1j * r.normal()
    elif kind == "basis":
        v = np.zeros(d, dtype=complex)
        v[r.integers(d)] = np.exp(1j * r.uniform(0, 6.28))
    elif kind == "product":
        v = np.array([1.0 + 0j])
        for _ in range(n):
            q = r.normal(size=2) + 1j * r.normal(size=2)
            v = np.kron(v, q / np.linalg.norm(q))
    elif kind == "npint":
        # integer ndarray (np.int64 entries are np.number but not int/float/complex: second branch of validate_parameter)
        v = np.zeros(d, dtype=np.int64)
        v[r.integers(d)] = 1
        return v
    elif kind == "f32":
        # float32 ndarray, uniform over a power-of-four number of entries so that the norm is exactly 1 in float32
        cnt = 4 ** (n // 2) if n >= 2 else 1
        v = np.zeros(d, dtype=np.float32)
        v[r.choice(d, size=cnt, replace=False)] = np.float32(1.0 / math.sqrt(cnt))
        return v
    elif kind == "list":
        # plain Python list with int, float and complex entries: the caller's list must stay as it is
        a, b = sorted(int(i) for i in r.choice(d, size=2, replace=False))
        v = [0] * d
        v[a], v[b] = 0.6, 0.8j
        return v
    else:
        v = np.ones(d, dtype=complex)
    v = v / np.linalg.norm(v)
    return v


def sparse_dict(r, n, m, real=False, hamming_sorted=False):
    keys = sorted(int(k) for k in r.choice(2 ** n, size=m, replace=False))
    if not hamming_sorted:
        keys = [int(k) for k in r.permutation(keys)]
    else:
        keys = sorted(keys, key=lambda k: (bin(k).count("1"), k))
    amps = r.normal(size=m) + (0 if real else 1j * r.normal(size=m))
    amps = amps / np.linalg.norm(amps)
    return {format(k, f"0{n}b"): (float(a.real) if real else complex(a)) for k, a in zip(keys, amps)}


def haar_unitary(r, d=2):
    z = r.normal(size=(d, d)) + 1j * r.normal(size=(d, d))
    q, rr = np.linalg.qr(z)
    return q * (np.diag(rr) / np.abs(np.diag(rr)))


def su2(r):
    u = haar_unitary(r)
    return u / np.sqrt(np.linalg.det(u))


def rot_matrix(axis, t):
    c, s = math.cos(t / 2), math.sin(t / 2)
    if axis == "x":
        return np.array([[c, -1j * s], [-1j * s, c]])
    if axis == "y":
        return np.array([[c, -s], [s, c]], dtype=complex)
    return np.array([[np.exp(-0.5j * t), 0], [0, np.exp(0.5j * t)]])


def clog2(x):
    return 0 if x <= 1 else (x - 1).bit_length()


def apply_local(psi, u_local, subset, m):
    """Apply the 2^w x 2^w matrix `u_local` (little-endian: local qubit i = bit i) to the qubits
    `subset` (subset[i] carries local qubit i) of the m-qubit vector `psi`.  Independent of qiskit."""
    w = len(subset)
    t = np.asarray(psi, dtype=complex).reshape([2] * m)
    axes = [m - 1 - q for q in subset[::-1]]          # most significant local qubit first
    t = np.moveaxis(t, axes, list(range(w)))
    shp = t.shape
    t = (u_local @ t.reshape(2 ** w, -1)).reshape(shp)
    t = np.moveaxis(t, list(range(w)), axes)
    return t.reshape(-1)


def product_state(m, singles):
    """singles: dict qubit -> 2-vector; other qubits |0>.  Little-endian."""
    v = np.array([1.0 + 0j])
    for q in range(m):
        s = singles.get(q, np.array([1.0, 0.0], dtype=complex))
        v = np.kron(s, v)
    return v


def evolve(psi0, circ):
    from qiskit.quantum_info import Statevector
    return Statevector(np.asarray(psi0, dtype=complex)).evolve(circ).data


def opmat(circ):
    from qiskit.quantum_info import Operator
    return Operator(circ).data


def jsonable(x):
    if isinstance(x, np.ndarray):
        return jsonable(x.tolist())
    if isinstance(x, complex):
        return {"re": x.real, "im": x.imag}
    if isinstance(x, (np.floating, np.integer)):
        return x.item()
    if isinstance(x, dict):
        return {str(k): jsonable(v) for k, v in x.items()}
    if isinstance(x, (list, tuple)):
        return [jsonable(v) for v in x]
    if isinstance(x, type):
        return x.__name__
    return x


# ---- forms of a boolean / integer / float option value (truthy-falsy values that are not the singletons True / False,
# ---- valid falsy values in each numeric form).  A case carries the CANONICAL value (True / False, the Python int / float) in
# ---- its parameters - keys, width rows of the tie and the reference construction use that - and `forms: {option: form}`
# ---- says in which form the call under test hands it over.

FLAG_FORMS = ("bool", "np.bool_", "int")
NUM_FORMS = ("int", "np.int64", "float", "np.float64")


def form_value(v, form):
    if v is None:
        return None
    return {"bool": bool, "np.bool_": np.bool_, "int": int, "np.int64": np.int64, "np.int32": np.int32, "float": float,
            "np.float64": np.float64, "np.float32": np.float32}[form](v)


def apply_forms(kw, forms):
    """-> copy of the keyword dictionary `kw` (constructor keywords, `opt_params` one level down) with every option named in
    `forms` converted to its form."""
    if not forms:
        return kw
    out = dict(kw)
    if isinstance(out.get("opt_params"), dict):
        out["opt_params"] = dict(out["opt_params"])
    for k_, form in forms.items():
        if k_ in out:
            out[k_] = form_value(out[k_], form)
        if isinstance(out.get("opt_params"), dict) and k_ in out["opt_params"]:
            out["opt_params"][k_] = form_value(out["opt_params"][k_], form)
    return out


def kw_option(kw, name):
    """Value of the option `name` in a keyword dictionary (constructor keyword or key of `opt_params`)."""
    if name in kw:
        return kw[name]
    return (kw.get("opt_params") or {}).get(name)


def forms_tag(forms):
    return ",".join(f"{k_}={forms[k_]}" for k_ in sorted(forms or {}))


# ------------------------------------------------------------------------------------------------
# class registry
# ------------------------------------------------------------------------------------------------

class Spec:
    """One initializer / gate class: how to draw an input from parameters `p`, build the gate, call
    the documented entry point, and which row of the Lean width table it is."""
    kind = "dense"
    reset_free = True
    exact = False            # prepared state equals the requested vector (checked in placement)
    has_entry = True

    def __init__(self, name):
        self.name = name

    def cls(self):
        raise NotImplementedError

    def inputs(self, p, r):
        """-> (args list, kwargs dict) owned by the caller."""
        raise NotImplementedError

    def build(self, args, kw):
        return self.cls()(*args, **kw)

    def entry(self, host, args, kw, qubits):
        kk = {k: v for k, v in kw.items() if k in ("opt_params", "probabilities")}
        if qubits is None:
            self.cls().initialize(host, *args, **kk)
        else:
            self.cls().initialize(host, *args, qubits=qubits, **kk)

    def width_op(self, p):
        raise NotImplementedError

    def requested(self, args, kw):
        return None

    def ref_kw(self, entry, kw):
        """Keyword arguments of the reference gate: the static `initialize` can only pass some of them."""
        return kw


def _imp(path, name):
    import importlib
    return getattr(importlib.import_module(path), name)


class Dense(Spec):
    exact = True

    def __init__(self, name, path, cname, lean, opts=None, nmin=1):
        super().__init__(name)
        self.path, self.cname, self.lean, self.opts, self.nmin = path, cname, lean, opts, nmin

    def cls(self):
        return _imp(self.path, self.cname)

    def inputs(self, p, r):
        v = vec_kind(r, p["n"], p.get("vec", "haar"))
        if p.get("offnorm") and isinstance(v, np.ndarray) and v.dtype.kind in "fc" and v.dtype.itemsize >= 8:
            # inside the accepted tolerance (1e-10) but not exactly normalised: an in-place
            # renormalisation of the caller's array changes its bytes
            v = v * (1 + 2e-12)
        kw = {}
        if p.get("opt") is not None:
            kw["opt_params"] = copy.deepcopy(p["opt"])
        if p.get("label") is not None:
            kw["label"] = p["label"]
        return [v], kw

    def width_op(self, p):
        return {"op": "width", "cls": self.lean, "len": 2 ** p["n"]}

    def requested(self, args, kw):
        o = dict(kw.get("opt_params") or {})
        for k_, exact_values in (("lr", (0, None)), ("svd", ("regular", None)), ("global_phase", (True, None)), ("lib", (None,)),
                                 ("strategy", ("greedy",)), ("target_state", (0,))):
            if k_ in o and o[k_] in exact_values:
                o.pop(k_)      # explicit default value: still the exact preparation from |0..0>
        if set(o) - {"unitary_scheme", "iso_scheme", "partition", "scheme"}:
            return None        # approximate (lr, fidelity loss), phase-free (global_phase=False) or other start state (UCG)
        return np.asarray(args[0], dtype=complex)


class Bdsp(Dense):
    exact = False

    def width_op(self, p):
        n = p["n"]
        s = (p.get("opt") or {}).get("split")
        return {"op": "width", "cls": "bdsp", "len": 2 ** n, "s": s if s is not None else (n + 1) // 2}


class Mixed(Spec):
    kind = "mixed"

    def cls(self):
        return _imp("qclib.state_preparation.mixed", "MixedInitialize")

    def inputs(self, p, r):
        ens = [vec_kind(r, p["n"], p.get("vec", "haar")) for _ in range(p["k"])]
        kw = {"reset": p.get("reset", True), "classical": p.get("classical", True)}
        if p.get("label") is not None:
            kw["label"] = p["label"]
        if p.get("probs"):
            pr = r.uniform(0.1, 1.0, size=p["k"])
            kw["probabilities"] = list((pr / pr.sum()).tolist())
        if p.get("opt") is not None:
            kw["opt_params"] = copy.deepcopy(p["opt"])
        return [ens], kw

    def entry(self, host, args, kw, qubits):
        kk = {k: v for k, v in kw.items() if k in ("opt_params", "probabilities")}
        if qubits is None:
            self.cls().initialize(host, args[0], **kk)
        else:
            self.cls().initialize(host, args[0], qubits=qubits, **kk)

    def ref_kw(self, entry, kw):
        if entry.startswith("initialize"):      # MixedInitialize.initialize cannot pass reset / classical
            return {k: v for k, v in kw.items() if k in ("opt_params", "probabilities")}
        return kw

    def width_op(self, p):
        return {"op": "width", "cls": "mixed", "len": 2 ** p["n"], "m": p["k"]}


class Sparse(Spec):
    kind = "sparse"

    def __init__(self, name, cname, lean, exact=False, hamming=False):
        super().__init__(name)
        self.cname, self.lean, self.exact, self.hamming = cname, lean, exact, hamming

    def cls(self):
        return _imp("qclib.state_preparation", self.cname)

    def inputs(self, p, r):
        d = sparse_dict(r, p["n"], p["m"], real=p.get("real", False), hamming_sorted=self.hamming)
        if p.get("offnorm"):
            d = {k: v * (1 + 2e-12) for k, v in d.items()}
        kw = {}
        if p.get("opt") is not None:
            kw["opt_params"] = copy.deepcopy(p["opt"])
        if p.get("label") is not None:
            kw["label"] = p["label"]
        return [d], kw

    def width_op(self, p):
        o = p.get("opt") or {}
        v = o.get("aux") if self.lean == "pivot" else o.get("with_aux")
        aux = bool(v) if v is not None else (self.lean != "pivot")     # a missing key and an explicit None are the default
        return {"op": "width", "cls": self.lean, "n": p["n"], "m": p["m"], "aux": aux}


class FnPoints(Sparse):
    def inputs(self, p, r):
        n, m = p["n"], p["m"]
        keys = [int(k) for k in r.permutation(r.choice(2 ** n, size=m, replace=False))]
        nout = p.get("nout", 3)
        d = {format(k, f"0{n}b"): int(r.integers(nout)) for k in keys}
        how = p.get("fnopt", "given")
        if how != "given":
            # n_output_values left at its default (max value - 1): keep the maximum at 2 so that the default is >= 1
            d[format(keys[0], f"0{n}b")] = 2
        kw = {"opt_params": {"n_output_values": nout}} if how == "given" else ({"opt_params": {}} if how == "empty" else {})
        if p.get("label") is not None:
            kw["label"] = p["label"]
        return [d], kw


class GateSpec(Spec):
    kind = "gate"
    has_entry = False

    def __init__(self, name, path, cname, lean):
        super().__init__(name)
        self.path, self.cname, self.lean = path, cname, lean

    def cls(self):
        return _imp(self.path, self.cname)

    def width_op(self, p):
        return {"op": "width", "cls": self.lean, "k": p.get("k", 0), "t": p.get("t", 1)}


class McxV(GateSpec):
    def inputs(self, p, r):
        return [p["k"], p.get("t", 1)], {"ctrl_state": p.get("cs"), "relative_phase": p.get("rp", False),
                                        "action_only": p.get("ao", False)}


class Linear(GateSpec):
    def inputs(self, p, r):
        return [p["k"]], {"ctrl_state": p.get("cs"), "action_only": p.get("ao", False)}


class Toff(GateSpec):
    def inputs(self, p, r):
        return [], {"cancel": p.get("cancel")}


class U2Gate(GateSpec):
    """Gates built from a 2x2 matrix and a number of controls."""

    def __init__(self, name, path, cname, lean, special=False):
        super().__init__(name, path, cname, lean)
        self.special = special

    def inputs(self, p, r):
        how = p.get("u", "haar")
        if how == "x":
            u = np.array([[0, 1], [1, 0]], dtype=complex)
        elif how == "z":
            u = np.array([[1, 0], [0, -1]], dtype=complex)
        elif how in ("rx", "ry", "rz"):
            u = rot_matrix(how[1], float(r.uniform(0.2, 2.8)))
        elif self.special or how == "su2":
            u = su2(r)
        else:
            u = haar_unitary(r)
        kw = {"ctrl_state": p.get("cs")}
        if "error" in p:
            kw["error"] = p["error"]
        if "utd" in p:
            kw["up_to_diagonal"] = p["utd"]          # Mcg only
        return [u, p["k"]], kw


class MultiT(GateSpec):
    def inputs(self, p, r):
        ax = p.get("axis", "x")
        us = [rot_matrix(ax, float(r.uniform(0.2, 2.8))) for _ in range(p["t"])]
        return [us, p["k"]], {"num_target": p["t"]}


SP = "qclib.state_preparation"
REG = {s.name: s for s in [
    Dense("TopDownInitialize", SP + ".topdown", "TopDownInitialize", "topDown"),
    Dense("LowRankInitialize", SP + ".lowrank", "LowRankInitialize", "lowRank"),
    Dense("SVDInitialize", SP + ".svd", "SVDInitialize", "svd", nmin=2),
    Dense("UCGInitialize", SP + ".ucg", "UCGInitialize", "ucg"),
    Dense("UCGEInitialize", SP + ".ucge", "UCGEInitialize", "ucge"),
    Dense("IsometryInitialize", SP + ".isometry", "IsometryInitialize", "isometry"),
    Dense("BaaLowRankInitialize", SP + ".baa_lowrank", "BaaLowRankInitialize", "baa"),
    Bdsp("BdspInitialize", SP + ".bdsp", "BdspInitialize", "bdsp"),
    Dense("DcspInitialize", SP + ".dcsp", "DcspInitialize", "dcsp"),
    Dense("BlackBoxInitialize", SP + ".blackbox", "BlackBoxInitialize", "blackBox"),
    Mixed("MixedInitialize"),
    Sparse("MergeInitialize", "MergeInitialize", "merge", exact=True),
    Sparse("PivotInitialize", "PivotInitialize", "pivot"),
    Sparse("CvoqramInitialize", "CvoqramInitialize", "cvoqram", hamming=True),
    FnPoints("FnPointsInitialize", "FnPointsInitialize", "fnPoints"),
    McxV("McxVchainDirty", "qclib.gates.mcx", "McxVchainDirty", "mcxVchainDirty"),
    Linear("LinearMcx", "qclib.gates.mcx", "LinearMcx", "linearMcx"),
    Toff("Toffoli", "qclib.gates.toffoli", "Toffoli", "toffoli"),
    U2Gate("Ldmcu", "qclib.gates.ldmcu", "Ldmcu", "ldmcu"),
    U2Gate("Ldmcsu", "qclib.gates.ldmcsu", "Ldmcsu", "ldmcsu", special=True),
    U2Gate("LdMcSpecialUnitary", "qclib.gates.ldmcsu", "LdMcSpecialUnitary", "ldMcSpecialUnitary", special=True),
    U2Gate("Qdmcu", "qclib.gates.qdmcu", "Qdmcu", "qdmcu"),
    U2Gate("Mcg", "qclib.gates.mcg", "Mcg", "mcg"),
    U2Gate("MCU", "qclib.gates.mcu", "MCU", "mcu"),
    MultiT("MultiTargetMCSU2", "qclib.gates.multitargetmcsu2", "MultiTargetMCSU2", "multiTargetMCSU2"),
]}
REG["DcspInitialize"].exact = False
REG["BlackBoxInitialize"].exact = False
REG["MixedInitialize"].reset_free = False   # decided per case from the `reset` option


def key_of(case):
    p = case.get("p", {})
    bits = [case["kind"], case.get("cls", case.get("fn", "?"))]
    for k in sorted(p):
        v = p[k]
        if isinstance(v, dict):
            v = ",".join(f"{a}={v[a]}" for a in sorted(v))
        bits.append(f"{k}={v}")
    for k in ("entry", "m", "subset"):
        if k in case:
            bits.append(f"{k}={case[k]}")
    return ":".join(str(b) for b in bits)


# ------------------------------------------------------------------------------------------------
# case runners (each is re-executable from its JSON `case` dict = the replay)
# ------------------------------------------------------------------------------------------------

def build_case(case, canon=False):
    """-> (spec, positional arguments, keywords) of the case; option values in the form `p["forms"]` names (`canon`: in their
    canonical form - the reference construction of a case that carries forms)."""
    spec = REG[case["cls"]]
    r = _rng(case.get("seed", 0))
    args, kw = spec.inputs(case["p"], r)
    if not canon:
        kw = apply_forms(kw, case["p"].get("forms"))
    return spec, args, kw


def form_vs_canonical(ctx, case, spec, gate, key):
    """A case that hands an option over in a non-canonical form: the gate must be the gate of the canonical value (same width,
    same operator).  -> False after reporting a difference."""
    forms = case["p"].get("forms")
    if not forms:
        return True
    tag = forms_tag(forms)
    try:
        _, a0, k0 = build_case(case, canon=True)
        g0 = spec.build(a0, k0)
        d0, d1 = g0.definition, gate.definition
        if (g0.num_qubits, d0.num_qubits) != (gate.num_qubits, d1.num_qubits):
            ctx.fail(f"flagforms:{spec.name}:{tag}:width", f"{spec.name} with {tag}: declared/definition width "
                     f"{gate.num_qubits}/{d1.num_qubits}, with the canonical value {g0.num_qubits}/{d0.num_qubits} [{key}]", case)
            return False
        err = _dv_same(d0, d1) if d0.num_qubits <= 9 else same_operator(d0, d1)
    except Exception as e:
        ctx.fail(f"flagforms:{spec.name}:{tag}:raise", f"{spec.name} with {tag} raised {type(e).__name__}: {str(e)[:160]} [{key}]", case)
        return False
    if err > TOL:
        ctx.fail(f"flagforms:{spec.name}:{tag}:operator", f"{spec.name} with {tag}: definition differs from the one built with the "
                 f"canonical value by {err:.3e} [{key}]", case)
        return False
    for k_, f_ in forms.items():
        ctx.count(f"flagforms:{k_}:{f_}")
    return True


def run_width(ctx, case):
    """declared width == circuit width on the real class + tie of both numbers to the Lean table."""
    spec, args, kw = build_case(case)
    key = "width:" + key_of(case)[6:]
    try:
        gate = spec.build(args, kw)
        decl = gate.num_qubits
        circ = gate.definition.num_qubits
    except Exception as e:  # construction fails on an input of the class's domain
        ctx.fail(key, f"building {spec.name} raised {type(e).__name__}: {str(e)[:200]}", case)
        return
    ctx.tie(spec.width_op(case["p"]), [f"decl {decl}", f"circ {circ}"], label=key)
    ctx.count("width:" + spec.name)
    if not form_vs_canonical(ctx, case, spec, gate, key):
        return
    if decl != circ:
        ctx.fail(key, f"{spec.name}: declared num_qubits = {decl} but definition has {circ} qubits", case)
    else:
        ctx.ok(key, nontrivial=decl >= 2, sample={"width": spec.name, "p": case["p"], "declared": decl, "circuit": circ})


def spectator_states(r, m, subset):
    singles = {}
    for q in range(m):
        if q not in subset:
            if r.random() < 0.3:
                s = np.array([1, 1], dtype=complex) / math.sqrt(2)      # |+>
            else:
                s = r.normal(size=2) + 1j * r.normal(size=2)
                s = s / np.linalg.norm(s)
            singles[q] = s
    return singles


def as_qubits(host, subset, style):
    if subset is None:
        return None
    if style == "qubit":
        return [host.qubits[i] for i in subset]
    return list(subset)


def run_place(ctx, case):
    """Entry point on an ordered subset of a larger host == the gate's own definition embedded on
    exactly those wires (numpy embedding), spectators product and Haar-entangled."""
    from qiskit import QuantumCircuit
    spec, args, kw = build_case(case)
    key = "place:" + key_of(case)[6:]
    r = _rng(case.get("seed", 0) + 17)
    m, subset, entry = case["m"], case["subset"], case["entry"]
    try:
        kw_canon = build_case(case, canon=True)[2] if case["p"].get("forms") else kw
        ref_gate = spec.build(copy.deepcopy(args), copy.deepcopy(spec.ref_kw(case["entry"], kw_canon)))
        w = ref_gate.num_qubits
        ref_def = ref_gate.definition
    except Exception as e:
        ctx.fail(key, f"building {spec.name} raised {type(e).__name__}: {str(e)[:200]}", case)
        return
    if ref_def.num_qubits != w:
        return  # reported by the width channel; placement is meaningless
    host = QuantumCircuit(m)
    try:
        if entry == "initialize":
            spec.entry(host, args, kw, as_qubits(host, subset, case.get("style", "int")))
        elif entry == "initialize-none":
            spec.entry(host, args, kw, None)
        elif entry == "append":
            host.append(spec.build(args, kw), as_qubits(host, subset, case.get("style", "int")))
        elif entry == "append-inverse":
            g = spec.build(args, kw)
            host.append(g, as_qubits(host, subset, "int"))
            host.append(g.inverse(), as_qubits(host, subset, "int"))
    except Exception as e:
        ctx.fail(key, f"{spec.name} via {entry} on qubits {subset} of a {m}-qubit circuit raised "
                      f"{type(e).__name__}: {str(e)[:200]}", case)
        return
    eff = list(range(m)) if entry == "initialize-none" else list(subset)
    unitary_def = not has_reset(ref_def)
    if case["p"].get("forms") and has_reset(host) == unitary_def:
        ctx.fail(f"flagforms:{spec.name}:{forms_tag(case['p']['forms'])}:reset-structure", f"{spec.name} via {entry} with "
                 f"{forms_tag(case['p']['forms'])}: the placed gate {'contains' if unitary_def else 'does not contain'} resets, "
                 f"the gate of the canonical value {'does not' if unitary_def else 'does'} [{key}]", case)
        return
    worst, what = 0.0, ""
    if unitary_def:
        u = opmat(ref_def)
        if entry == "append-inverse":
            u = np.eye(2 ** w)
        psi0 = product_state(m, spectator_states(r, m, eff))
        psi1 = r.normal(size=2 ** m) + 1j * r.normal(size=2 ** m)
        psi1 = psi1 / np.linalg.norm(psi1)
        if m <= 8:
            # ONE evaluation of the host circuit serves every comparison ...
            uh = opmat(host)
            out, out1 = uh @ psi0, uh @ psi1
            # ... and a second evaluation of the same circuit object must give the same operator
            again = evolve(psi1, host)
            dre = float(np.abs(again - out1).max())
            if dre > TOL:
                ctx.fail(f"reeval:{spec.name}:{entry}", f"{spec.name} placed via {entry}: evaluating the SAME host circuit "
                         f"twice gives operators that differ by {dre:.3e} (the gate rebuilds its definition on every copy)", case)
                return
        else:
            out, out1 = evolve(psi0, host), evolve(psi1, host)
        # (1) gate wires |0>, spectators random single-qubit states
        worst, what = float(np.abs(out - apply_local(psi0, u, eff, m)).max()), "product spectators"
        # (2) Haar-random entangled state on the whole host
        e2 = float(np.abs(out1 - apply_local(psi1, u, eff, m)).max())
        if e2 > worst:
            worst, what = e2, "entangled spectators"
        # (3) exact classes: the prepared state is the requested one, on those qubits in that order
        req = spec.requested(args, kw) if (spec.exact and entry != "append-inverse") else None
        if spec.kind == "sparse" and spec.exact and entry != "append-inverse":
            n = case["p"]["n"]
            req = np.zeros(2 ** n, dtype=complex)
            for k, a in args[0].items():
                # MergeInitialize: key[i] <-> qubit i
                req[sum((1 << i) for i, ch in enumerate(k) if ch == "1")] = a
            ph = np.vdot(req, u[:, 0])          # sparse preparations are exact up to a global phase
            if abs(ph) > 1e-9:
                req = req * (ph / abs(ph))
        if req is not None and len(req) == 2 ** w:
            zero = np.zeros(2 ** w, dtype=complex)
            zero[0] = 1
            prep = np.outer(req, zero.conj())          # |req><0| : what the gate must do to |0>
            exp3 = apply_local(psi0, prep, eff, m)
            e3 = float(np.abs(out - exp3).max())
            if e3 > worst:
                worst, what = e3, "prepared state vs requested vector"
    else:
        from qiskit.quantum_info import DensityMatrix
        psi0 = product_state(m, spectator_states(r, m, eff))
        out = DensityMatrix(psi0).evolve(host).data
        loc = QuantumCircuit(m)
        loc.compose(ref_def, qubits=eff, inplace=True)   # qiskit's compose is the (trusted) reference here
        exp = DensityMatrix(psi0).evolve(loc).data
        worst, what = float(np.abs(out - exp).max()), "density matrix (definition contains reset)"
    if worst > TOL:
        ctx.fail(key, f"{spec.name} via {entry} on ordered qubits {subset} of {m}: differs from its own definition "
                      f"on those wires (+ identity elsewhere) by {worst:.3e} [{what}]", case)
    else:
        nontriv = m > w or eff != list(range(w))
        ctx.ok(key, nontrivial=nontriv, sample={"place": spec.name, "p": case["p"], "m": m, "subset": subset,
                                                "entry": entry, "worst": worst})
        ctx.count("place:" + spec.name)
        for k_, f_ in (case["p"].get("forms") or {}).items():
            ctx.count(f"flagforms:{k_}:{f_}")
            ctx.count(f"flagforms:{k_}:{f_}:{kw_option(kw_canon, k_)!r}:via {entry}")


def run_inverse(ctx, case):
    """gate.inverse() composed with the gate, both orders, is the identity; the original is unchanged."""
    spec, args, kw = build_case(case)
    key = "inverse:" + key_of(case)[8:]
    try:
        gate = spec.build(args, kw)
        d0 = gate.definition
        w = gate.num_qubits
    except Exception as e:
        ctx.fail(key, f"building {spec.name} raised {type(e).__name__}: {str(e)[:200]}", case)
        return
    if d0.num_qubits != w:
        return
    if not form_vs_canonical(ctx, case, spec, gate, key):
        return
    u0 = opmat(d0)
    try:
        inv = gate.inverse()
        di = inv.definition
    except Exception as e:
        ctx.fail(key, f"{spec.name}.inverse() raised {type(e).__name__}: {str(e)[:200]}", case)
        return
    if inv.num_qubits != w or di.num_qubits != w:
        ctx.fail(key, f"{spec.name}.inverse(): width {inv.num_qubits}/{di.num_qubits} instead of {w}", case)
        return
    eye = np.eye(2 ** w)
    e1 = float(np.abs(opmat(d0.compose(di)) - eye).max())
    e2 = float(np.abs(opmat(di.compose(d0)) - eye).max())
    e3 = float(np.abs(opmat(gate.definition) - u0).max())      # inverse() must not change the gate itself
    lab = getattr(gate, "label", None)
    relabel_ok = True
    if spec.kind != "gate":
        relabel_ok = isinstance(inv.label, str) and inv.label == (lab or "") + "_dg" and gate.label == lab
        if kw.get("label") is not None and lab != kw["label"]:
            relabel_ok = False       # an explicit label must be the gate's label
    if max(e1, e2) > TOL:
        ctx.fail(key, f"{spec.name}: definition . inverse().definition differs from identity by {e1:.3e} / {e2:.3e}", case)
    elif e3 > TOL:
        ctx.fail(key, f"{spec.name}.inverse() changed the gate's own definition by {e3:.3e}", case)
    elif not relabel_ok:
        ctx.fail(key, f"{spec.name}.inverse(): label {inv.label!r} (gate label {gate.label!r}, was {lab!r})", case)
    else:
        ctx.ok(key, nontrivial=w >= 2, sample={"inverse": spec.name, "p": case["p"], "err": max(e1, e2)})
        ctx.count("inverse:" + spec.name)


def has_reset(circ):
    """Does the circuit contain a reset (looked up through qclib's composite gates, without asking qiskit
    to synthesise its own library gates)?"""
    from flatten import flatten
    return any(name == "reset" for name, _, _ in flatten(circ))


def same_operator(c1, c2):
    """-> max abs difference (Operator for <= 9 qubits, flattened gate lists above)."""
    if c1.num_qubits != c2.num_qubits:
        return float("inf")
    if c1.num_qubits <= 9 and not has_reset(c1):
        return float(np.abs(opmat(c1) - opmat(c2)).max())
    from flatten import flatten, to_lines
    import framework
    d = framework.diff_lines(to_lines(flatten(c1)), to_lines(flatten(c2)), tol=1e-9)
    return 0.0 if d is None else float("inf")


def run_pure(ctx, case):
    """Building never modifies the caller's inputs; building twice gives the same operator."""
    from qiskit import QuantumCircuit
    spec, args, kw = build_case(case)
    key = "pure:" + key_of(case)[5:]
    before = snap((args, kw))
    stage = "constructor"
    try:
        gate = spec.build(args, kw)
        if snap((args, kw)) == before:
            stage = "definition"
            d1 = gate.definition
        if snap((args, kw)) == before and spec.reset_free and case["p"].get("reset", False) is False:
            stage = "inverse"
            gate.inverse().definition
        if snap((args, kw)) == before and spec.has_entry:
            stage = "initialize"
            host = QuantumCircuit(gate.num_qubits)
            spec.entry(host, args, kw, None)
            if snap((args, kw)) == before:
                stage = "initialize(qubits=...)"
                host = QuantumCircuit(gate.num_qubits + 1)
                spec.entry(host, args, kw, list(range(1, gate.num_qubits + 1)))
    except Exception as e:
        ctx.fail(key, f"{spec.name} raised {type(e).__name__} during {stage}: {str(e)[:200]}", case)
        return
    if snap((args, kw)) != before:
        ctx.fail("alias:" + key[5:], f"{spec.name}: the caller's input was modified during {stage}", case)
        return
    gate2 = spec.build(args, kw)
    diff = same_operator(gate.definition, gate2.definition)
    # a third build from an independent deep copy (no shared state through the caller's objects)
    a3, k3 = copy.deepcopy((args, kw))
    diff = max(diff, same_operator(gate.definition, spec.build(a3, k3).definition))
    if diff > TOL:
        ctx.fail("determinism:" + key[5:], f"{spec.name}: two builds from the same input differ by {diff:.3e}", case)
        return
    if hasattr(gate, "_define"):
        # a second build of the definition on the SAME object (what qiskit does when the cached definition is dropped):
        # state kept on the object between builds must not change the gate (seeded change C06i)
        first = gate.definition
        try:
            gate._define()
            diff = same_operator(first, gate.definition)
        except Exception as e:
            ctx.fail("rebuild:" + key[5:], f"{spec.name}: the second _define() on the same object raised "
                     f"{type(e).__name__}: {str(e)[:200]}", case)
            return
        ctx.count("rebuild-same-object:" + spec.name)
        if diff > TOL:
            ctx.fail("rebuild:" + key[5:], f"{spec.name}: the second build of the definition on the same object differs "
                     f"from the first by {diff:.3e}", case)
            return
    ctx.ok(key, nontrivial=gate.num_qubits >= 2, sample={"pure": spec.name, "p": case["p"]})
    ctx.count("pure:" + spec.name)


# ---- functions that are not gate classes: unitary, isometry.decompose, schmidt_decomposition, BAA, cnot counts

def _typed_matrix(r, rows, cols, how):
    """Unitary / isometry of a given operand type: complex Haar (None), real orthogonal float64 ('real'), int64 permutation
    ('int'), nested Python list ('list'), Fortran-ordered complex ('fortran')."""
    if how == "real":
        q, rr = np.linalg.qr(r.normal(size=(rows, rows)))
        return np.ascontiguousarray((q * np.sign(np.diag(rr)))[:, :cols])
    if how == "int":
        return np.eye(rows, dtype=np.int64)[r.permutation(rows)][:, :cols].copy()
    if how == "list":
        return haar_unitary(r, rows)[:, :cols].tolist()
    if how == "fortran":
        return np.asfortranarray(haar_unitary(r, rows)[:, :cols])
    return np.ascontiguousarray(haar_unitary(r, rows)[:, :cols])


def fn_call(name, p, r):
    """-> (callable, args, kwargs) for the pure-function checks."""
    n = p["n"]
    if name == "unitary":
        from qclib.unitary import unitary
        kw = {"decomposition": p.get("scheme", "qsd")}
        if "iso" in p:
            kw["iso"] = p["iso"]
        if "a2" in p:
            kw["apply_a2"] = p["a2"]
        return unitary, [_typed_matrix(r, 2 ** n, 2 ** n, p.get("dtype"))], kw
    if name == "unitary.cnot_count":
        from qclib.unitary import cnot_count
        kw = {"decomposition": p.get("scheme", "qsd"), "method": p.get("method", "exact")}
        if "iso" in p:
            kw["iso"] = p["iso"]
        if "a2" in p:
            kw["apply_a2"] = p["a2"]
        return cnot_count, [haar_unitary(r, 2 ** n)], kw
    if name == "isometry.decompose":
        from qclib.isometry import decompose
        if p.get("dtype"):
            return decompose, [_typed_matrix(r, 2 ** n, 2 ** p.get("mcols", 0), p["dtype"])], {"scheme": p.get("scheme", "ccd")}
        q = haar_unitary(r, 2 ** n)[:, : 2 ** p.get("mcols", 0)]
        return decompose, [np.ascontiguousarray(q)], {"scheme": p.get("scheme", "ccd")}
    if name == "isometry.decompose.vec":
        from qclib.isometry import decompose
        return decompose, [vec_kind(r, n, "haar")], {"scheme": p.get("scheme", "ccd")}
    if name == "isometry.cnot_count":
        from qclib.isometry import cnot_count
        q = haar_unitary(r, 2 ** n)[:, : 2 ** p.get("mcols", 0)]
        q = np.ascontiguousarray(q[:, 0]) if p.get("vector") else np.ascontiguousarray(q)
        return cnot_count, [q], {"scheme": p.get("scheme", "ccd"), "method": p.get("method", "exact")}
    if name == "schmidt_decomposition":
        from qclib.entanglement import schmidt_decomposition
        part = p.get("part") or list(range((n + 1) // 2))
        return schmidt_decomposition, [vec_kind(r, n, p.get("vec", "haar")), list(part)], {"rank": p.get("rank", 0)}
    if name == "adaptive_approximation":
        from qclib.state_preparation.util.baa import adaptive_approximation
        return adaptive_approximation, [vec_kind(r, n, p.get("vec", "haar")), p.get("loss", 0.1)], \
            {"strategy": p.get("strategy", "greedy"), "use_low_rank": p.get("lr", False)}
    if name == "lowrank.cnot_count":
        from qclib.state_preparation.lowrank import cnot_count
        kw = {}
        if "lr" in p:
            kw["low_rank"] = p["lr"]
        if "part" in p:
            kw["partition"] = list(p["part"])
        return cnot_count, [vec_kind(r, n, p.get("vec", "haar"))], kw
    if name == "schmidt_composition":
        from qclib.entanglement import schmidt_decomposition, schmidt_composition
        part = list(range((n + 1) // 2))
        _, u, s, v = schmidt_decomposition(vec_kind(r, n, "haar"), part)
        return schmidt_composition, [u, v, s, part], {}
    if name == "meyer_wallach":
        from qclib.entanglement import meyer_wallach_entanglement
        return meyer_wallach_entanglement, [vec_kind(r, n, "haar")], {}
    raise KeyError(name)


def result_fingerprint(res):
    from qiskit import QuantumCircuit
    if isinstance(res, QuantumCircuit):
        return ("circ", res)
    if isinstance(res, tuple):
        return ("tuple", [np.asarray(x, dtype=complex) if isinstance(x, (np.ndarray, list, int, float, complex,
                                                                          np.number)) else None for x in res])
    if isinstance(res, (int, float, complex, np.number)):
        return ("num", complex(res))
    if hasattr(res, "vectors") and hasattr(res, "qubits"):
        return ("tuple", [np.concatenate([np.asarray(v, dtype=complex).ravel() for v in res.vectors]),
                          np.asarray([q for qs in res.qubits for q in qs], dtype=complex),
                          np.asarray(res.ranks, dtype=complex)])
    return ("other", None)


def fp_diff(a, b):
    if a[0] != b[0]:
        return float("inf")
    if a[0] == "circ":
        return same_operator(a[1], b[1])
    if a[0] == "num":
        return abs(a[1] - b[1])
    if a[0] == "tuple":
        worst = 0.0
        for x, y in zip(a[1], b[1]):
            if x is None or y is None:
                continue
            if x.shape != y.shape:
                return float("inf")
            if x.size:
                worst = max(worst, float(np.abs(x - y).max()))
        return worst
    return 0.0


def run_fn(ctx, case):
    name = case["fn"]
    r = _rng(case.get("seed", 0))
    key = key_of(case)
    try:
        fn, args, kw = fn_call(name, case["p"], r)
    except Exception as e:
        ctx.notes.append(f"harness: could not set up {name}: {type(e).__name__} {e}")
        return
    before = snap((args, kw))
    try:
        r1 = result_fingerprint(fn(*args, **kw))
    except Exception as e:
        ctx.fail(key, f"{name} raised {type(e).__name__}: {str(e)[:200]}", case)
        return
    if snap((args, kw)) != before:
        ctx.fail("alias:" + key[7:], f"{name}: the caller's input was modified by the call", case)
        return
    r2 = result_fingerprint(fn(*args, **kw))
    d = fp_diff(r1, r2)
    if d > TOL:
        ctx.fail("determinism:" + key[7:], f"{name}: two calls with the same input differ by {d:.3e}", case)
        return
    ctx.ok(key, sample={"purefn": name, "p": case["p"]})
    ctx.count("purefn:" + name)


# ---- static helper entry points of the gate classes

def helper_call(name, host, p, r, controls, targets):
    """Call the static helper on `host`; return the reference gate (whose definition is embedded
    on controls + targets)."""
    k = len(controls)
    cs = p.get("cs")
    if name == "Ldmcu.ldmcu":
        from qclib.gates.ldmcu import Ldmcu
        u = haar_unitary(r)
        Ldmcu.ldmcu(host, u, controls, targets[0], ctrl_state=cs)
        return Ldmcu(u, k, ctrl_state=cs)
    if name == "Ldmcsu.ldmcsu":
        from qclib.gates.ldmcsu import Ldmcsu
        u = su2(r)
        Ldmcsu.ldmcsu(host, u, controls, targets[0], ctrl_state=cs)
        return Ldmcsu(u, k, ctrl_state=cs)
    if name == "LdMcSpecialUnitary.ldmcsu":
        from qclib.gates.ldmcsu import LdMcSpecialUnitary
        u = su2(r)
        LdMcSpecialUnitary.ldmcsu(host, u, controls, targets[0], ctrl_state=cs)
        return LdMcSpecialUnitary(u, k, ctrl_state=cs)
    if name == "Qdmcu.qdmcu":
        from qclib.gates.qdmcu import Qdmcu
        u = haar_unitary(r)
        Qdmcu.qdmcu(host, u, controls, targets[0], ctrl_state=cs)
        return Qdmcu(u, k, ctrl_state=cs)
    if name == "Mcg.mcg":
        from qclib.gates.mcg import Mcg
        u = haar_unitary(r) if p.get("u") != "su2" else su2(r)
        Mcg.mcg(host, u, controls, targets[0], ctrl_state=cs)
        return Mcg(u, k, ctrl_state=cs)
    if name == "MCU.mcu":
        from qclib.gates.mcu import MCU
        from qclib.gates.ldmcu import Ldmcu
        u = np.array([[0, 1], [1, 0]], dtype=complex) if p.get("u", "x") == "x" else np.diag([1.0 + 0j, -1.0])
        err = p.get("error", 0.3)
        MCU.mcu(host, u, controls, targets[0], err, ctrl_state=cs)
        return Ldmcu(u, k, ctrl_state=cs) if err == 0 else MCU(u, k, err, ctrl_state=cs)
    if name == "LinearMcx.mcx":
        from qclib.gates.mcx import LinearMcx
        LinearMcx.mcx(host, controls, targets[0], ctrl_state=cs, action_only=p.get("ao", False))
        return LinearMcx(k, ctrl_state=cs, action_only=p.get("ao", False))
    if name == "McxVchainDirty.mcx_vchain_dirty":
        from qclib.gates.mcx import McxVchainDirty
        McxVchainDirty.mcx_vchain_dirty(host, controls, targets[0], ctrl_state=cs,
                                        relative_phase=p.get("rp", False), action_only=p.get("ao", False))
        return McxVchainDirty(k, 1, ctrl_state=cs, relative_phase=p.get("rp", False), action_only=p.get("ao", False))
    if name == "Toffoli.ccx":
        from qclib.gates.toffoli import Toffoli
        Toffoli.ccx(host, controls, targets[0], cancel=p.get("cancel"))
        return Toffoli(p.get("cancel"))
    if name == "MultiTargetMCSU2.multi_target_mcsu2":
        from qclib.gates.multitargetmcsu2 import MultiTargetMCSU2
        us = [rot_matrix(p.get("axis", "x"), float(r.uniform(0.2, 2.8))) for _ in targets]
        MultiTargetMCSU2.multi_target_mcsu2(host, us, controls, targets)
        return MultiTargetMCSU2(us, k, num_target=len(targets))
    if name == "MultiTargetMCSU2.multi_target_mcsu2.single":
        from qclib.gates.multitargetmcsu2 import MultiTargetMCSU2
        from qclib.gates.ldmcsu import Ldmcsu
        u = rot_matrix(p.get("axis", "x"), float(r.uniform(0.2, 2.8)))
        MultiTargetMCSU2.multi_target_mcsu2(host, u, controls, targets[0], ctrl_state=cs)
        return Ldmcsu(u, k, ctrl_state=cs)
    raise KeyError(name)


def run_helper(ctx, case):
    """Static helper on permuted qubits of a larger host == the class's own definition on controls+target."""
    from qiskit import QuantumCircuit
    name, p, m = case["fn"], case["p"], case["m"]
    controls, targets = case["controls"], case["targets"]
    key = "helper:" + name + ":" + ":".join(f"{k}={p[k]}" for k in sorted(p)) + f":m={m}:c={controls}:t={targets}"
    r = _rng(case.get("seed", 0))
    host = QuantumCircuit(m)
    try:
        ref = helper_call(name, host, p, r, list(controls), list(targets))
    except Exception as e:
        ctx.fail(case.get("key") or key, f"{name}(controls={controls}, target={targets}, {p}) on a {m}-qubit circuit raised "
                 f"{type(e).__name__}: {str(e)[:200]}", case)
        return
    try:
        eff = list(controls) + list(targets)
        extra = case.get("ancillas") or []
        eff = eff[:len(controls)] + list(extra) + eff[len(controls):]
        u = opmat(ref.definition)
        r2 = _rng(case.get("seed", 0) + 5)
        psi = r2.normal(size=2 ** m) + 1j * r2.normal(size=2 ** m)
        psi /= np.linalg.norm(psi)
        out = evolve(psi, host)
        err = float(np.abs(out - apply_local(psi, u, eff, m)).max())
    except Exception as e:
        ctx.fail(case.get("key") or key, f"{name}: appended instruction cannot be evaluated: {type(e).__name__}: {str(e)[:200]}", case)
        return
    if err > TOL:
        ctx.fail(case.get("key") or key, f"{name} on controls {controls}, targets {targets} of {m} qubits differs from the class's "
                 f"definition on those wires by {err:.3e}", case)
    else:
        ctx.ok(key, sample={"helper": name, "p": p, "m": m, "controls": controls, "targets": targets, "err": err})
        ctx.count("helper:" + name)


def run_pqm(ctx, case):
    """pqm.initialize on permuted registers of a larger host == the same function on the natural layout, embedded."""
    from qiskit import QuantumCircuit
    from qclib.memory import pqm
    n, m, classical = case["p"]["n"], case["m"], case["p"]["classical"]
    mem, aux, pat = case["mem"], case["aux"], case.get("pat")
    key = f"helper:pqm.initialize:n={n}:classical={classical}:m={m}:mem={mem}:aux={aux}:pat={pat}"
    r = _rng(case.get("seed", 0))
    bits = [int(b) for b in r.integers(2, size=n)]
    host = QuantumCircuit(m)
    w = n + 1 + (0 if classical else n)
    loc = QuantumCircuit(w)
    try:
        if classical:
            pqm.initialize(host, list(bits), [host.qubits[i] for i in mem], host.qubits[aux], is_classical_pattern=True)
            pqm.initialize(loc, list(bits), loc.qubits[:n], loc.qubits[n], is_classical_pattern=True)
            eff = list(mem) + [aux]
        else:
            pqm.initialize(host, [host.qubits[i] for i in pat], [host.qubits[i] for i in mem], host.qubits[aux],
                           is_classical_pattern=False)
            pqm.initialize(loc, loc.qubits[:n], loc.qubits[n:2 * n], loc.qubits[2 * n], is_classical_pattern=False)
            eff = list(pat) + list(mem) + [aux]
    except Exception as e:
        ctx.fail(key, f"pqm.initialize raised {type(e).__name__}: {str(e)[:200]}", case)
        return
    touched = sorted({host.find_bit(q).index for inst in host.data for q in inst.qubits})
    psi = r.normal(size=2 ** m) + 1j * r.normal(size=2 ** m)
    psi /= np.linalg.norm(psi)
    err = float(np.abs(evolve(psi, host) - apply_local(psi, opmat(loc), eff, m)).max())
    if touched != sorted(eff):
        ctx.fail(key, f"pqm.initialize touches wires {touched}, registers given are {sorted(eff)}", case)
    elif err > TOL:
        ctx.fail(key, f"pqm.initialize on permuted registers differs from the natural layout embedded by {err:.3e}", case)
    else:
        ctx.ok(key, sample={"helper": "pqm.initialize", "n": n, "classical": classical, "eff": eff})
        ctx.count("helper:pqm.initialize")
    ctx.tie({"op": "width", "cls": "pqm", "n": n, "classical": classical}, [f"decl {len(eff)}", f"circ {len(touched)}"],
            label=key)


# ---- tie (2): G.inv and place against qiskit on random circuits over the alphabet

ALPHABET = ["x", "h", "cx", "cz", "ccx", "mcx", "ry", "rz", "p", "cp", "u", "cu", "swap", "cswap", "gphase"]


def random_gates(r, nq, length):
    gs = []
    for _ in range(length):
        while True:
            g = ALPHABET[int(r.integers(len(ALPHABET)))]
            need = {"x": 1, "h": 1, "ry": 1, "rz": 1, "p": 1, "u": 1, "cx": 2, "cz": 2, "cp": 2, "cu": 2, "swap": 2,
                    "ccx": 3, "cswap": 3, "mcx": 4, "gphase": 0}[g]
            if need <= nq:
                break
        if g == "mcx":
            need = int(r.integers(4, min(nq, 6) + 1))
        ws = [int(q) for q in r.permutation(nq)[:need]]
        np_ = {"ry": 1, "rz": 1, "p": 1, "cp": 1, "u": 3, "cu": 4, "gphase": 1}.get(g, 0)
        ps = [float(r.uniform(-6.0, 6.0)) for _ in range(np_)]
        gs.append({"g": g, "w": ws, "p": ps})
    return gs


def to_qiskit(gs, nq):
    from qiskit import QuantumCircuit
    c = QuantumCircuit(nq)
    for e in gs:
        g, w, p = e["g"], e["w"], e["p"]
        if g == "gphase":
            c.global_phase += p[0]
        elif g == "mcx":
            c.mcx(w[:-1], w[-1])
        elif g == "cu":
            c.cu(p[0], p[1], p[2], p[3], w[0], w[1])
        else:
            getattr(c, g)(*p, *w)
    return c


def norm_lines(lines):
    """gphase is a scalar: collect all of it into one leading line (qiskit keeps one global phase per circuit,
    the model keeps the gphase gates where they are)."""
    import framework
    tot, rest = 0.0, []
    for ln in lines:
        name, _, params = framework.parse_line(ln)
        if name == "gphase":
            tot += params[0]
        else:
            rest.append(ln)
    return tot, rest


def compare(op, impl, model):
    import framework
    if op.get("op") in ("inv", "place"):
        gi, ri = norm_lines(impl)
        gm, rm = norm_lines(model)
        d = (gi - gm + math.pi) % (2 * math.pi) - math.pi
        if abs(d) > 1e-9:
            return f"global phase {gi} vs {gm}"
        return framework.diff_lines(ri, rm, tol=1e-12)
    return framework.diff_lines(impl, model)


def run_alphabet_tie(ctx, case):
    from qiskit import QuantumCircuit
    from flatten import flatten, to_lines
    r = _rng(case["seed"])
    nq = case["nq"]
    gs = random_gates(r, nq, case["len"])
    circ = to_qiskit(gs, nq)
    # one gphase only at the front in the model op (sum), because qiskit stores a single number
    ctx.tie({"op": "inv", "gates": gs}, to_lines(flatten(circ.inverse())), label=f"inv:{case['seed']}")
    m = nq + int(r.integers(0, 3))
    ws = [int(q) for q in r.permutation(m)[:nq]]
    host = QuantumCircuit(m)
    host.append(circ.to_instruction() if not any(e["g"] == "gphase" for e in gs) else circ.to_gate(), ws)
    ctx.tie({"op": "place", "gates": gs, "ws": ws}, to_lines(flatten(host)), label=f"place:{case['seed']}")
    # and the composite statement on qiskit itself: placing then inverting = identity (sanity of the K4 base)
    ctx.assumption_checks += 1
    if nq <= 6:
        e = float(np.abs(opmat(circ.compose(circ.inverse())) - np.eye(2 ** nq)).max())
        if e > 1e-9:
            ctx.fail("assumption:qiskit-inverse", f"qiskit inverse() of a circuit over the alphabet is off by {e:.2e}",
                     case, kind="assumption")


RUNNERS = {"requested": lambda ctx, case: run_sparse_requested(ctx, case), "width": run_width, "place": run_place, "inverse": run_inverse, "pure": run_pure, "purefn": run_fn,
           "helper": run_helper, "pqm": run_pqm, "alphabet": run_alphabet_tie}


def run_case(ctx, case):
    RUNNERS[case["kind"]](ctx, case)


# ------------------------------------------------------------------------------------------------
# case generation
# ------------------------------------------------------------------------------------------------

def dense_options(name, n, quick):
    """Option values per dense class (those that change the code path / width)."""
    if name == "TopDownInitialize":
        return [None, {"global_phase": False}]
    if name == "LowRankInitialize":
        o = [None, {"unitary_scheme": "csd"}, {"iso_scheme": "knill"}]
        if n >= 2:
            o.append({"lr": 1})
            o.append({"partition": [n - 1]})
        return o
    if name in ("UCGInitialize", "UCGEInitialize"):
        return [None, {"target_state": (2 ** n) - 1, "preserve_previous": False},
                {"target_state": 1 % (2 ** n), "preserve_previous": True}]
    if name == "IsometryInitialize":
        return [None, {"scheme": "csd"}] + ([{"scheme": "knill"}] if n >= 2 else [])
    if name == "BaaLowRankInitialize":
        return [None, {"max_fidelity_loss": 0.2}, {"max_fidelity_loss": 0.1, "strategy": "brute_force", "use_low_rank": True}]
    if name == "BdspInitialize":
        return [None] + [{"split": s} for s in range(1, n + 1)]
    return [None]


def width_cases(ctx):
    quick = ctx.quick
    cases = []
    nmax = 6
    for name, spec in REG.items():
        if isinstance(spec, Dense):
            for n in range(spec.nmin, nmax + 1):
                if name == "DcspInitialize" and n > 6:
                    continue
                for opt in dense_options(name, n, quick):
                    if name == "BdspInitialize" and opt and (opt["split"] + 1) * 2 ** (n - opt["split"]) - 1 > 70:
                        continue
                    if quick and n >= 5 and opt is not None and name not in ("BdspInitialize",):
                        continue
                    if name == "TopDownInitialize" and n <= 4:
                        cases.append({"kind": "width", "cls": name, "p": {"n": n, "opt": {"lib": "qiskit"}}})
                    cases.append({"kind": "width", "cls": name, "p": {"n": n, "opt": opt}})
    for n in range(1, 5):
        for k in range(1, 6):
            for classical in (True, False):
                for reset in (True, False):
                    if quick and (n > 3 or k > 4):
                        continue
                    if n + clog2(k) > 6 or (not classical and (k < 2 or n < 2)):
                        continue      # in-circuit purification: needs >= 2 states of >= 2 qubits (see notes)
                    cases.append({"kind": "width", "cls": "MixedInitialize",
                                  "p": {"n": n, "k": k, "classical": classical, "reset": reset}})
    for n in range(1, nmax + 1):
        for m in sorted({1, 2, 3, 4, 5, 8, 9, 2 ** n}):
            if m > 2 ** n or (quick and n >= 5 and m not in (3, 5)):
                continue
            cases.append({"kind": "width", "cls": "MergeInitialize", "p": {"n": n, "m": m}})
            if m >= 2:
                cases.append({"kind": "width", "cls": "PivotInitialize", "p": {"n": n, "m": m, "opt": {"aux": False}}})
                cases.append({"kind": "width", "cls": "PivotInitialize", "p": {"n": n, "m": m}})
            if m >= 3:
                cases.append({"kind": "width", "cls": "PivotInitialize", "p": {"n": n, "m": m, "opt": {"aux": True}}})
            for aux in (True, False):
                for meth in (("linear", "barenco", "qiskit") if (not aux and n <= 4) else ("linear",)):
                    cases.append({"kind": "width", "cls": "CvoqramInitialize",
                                  "p": {"n": n, "m": m, "opt": {"with_aux": aux, "mcg_method": meth}}})
            cases.append({"kind": "width", "cls": "CvoqramInitialize", "p": {"n": n, "m": m}})
            if n >= 2:
                cases.append({"kind": "width", "cls": "FnPointsInitialize", "p": {"n": n, "m": m}})
    kmax = 7
    for k in range(1, kmax + 1):
        for t in (1, 2, 3):
            for rp in (False, True):
                for ao in (False, True):
                    if quick and t == 3 and (rp or ao):
                        continue
                    cases.append({"kind": "width", "cls": "McxVchainDirty", "p": {"k": k, "t": t, "rp": rp, "ao": ao}})
        cases.append({"kind": "width", "cls": "McxVchainDirty", "p": {"k": k, "t": 1, "cs": "0" * k}})
        for ao in (False, True):
            cases.append({"kind": "width", "cls": "LinearMcx", "p": {"k": k, "ao": ao}})
        cases.append({"kind": "width", "cls": "LinearMcx", "p": {"k": k, "cs": "01" * (k // 2) + "1" * (k % 2)}})
        for cname in ("Ldmcu", "Ldmcsu", "LdMcSpecialUnitary", "Qdmcu", "Mcg"):
            cases.append({"kind": "width", "cls": cname, "p": {"k": k}})
            cases.append({"kind": "width", "cls": cname, "p": {"k": k, "cs": "0" + "1" * (k - 1)}})
        cases.append({"kind": "width", "cls": "Mcg", "p": {"k": k, "u": "su2"}})
        if k >= 5:
            cases.append({"kind": "width", "cls": "MCU", "p": {"k": k, "u": "x", "error": 0.3}})
            cases.append({"kind": "width", "cls": "MCU", "p": {"k": k, "u": "z", "error": 0.3}})
        for t in (1, 2, 3):
            for ax in ("x", "z"):
                cases.append({"kind": "width", "cls": "MultiTargetMCSU2", "p": {"k": k, "t": t, "axis": ax}})
    cases.append({"kind": "width", "cls": "Ldmcu", "p": {"k": 0}})
    cases.append({"kind": "width", "cls": "Mcg", "p": {"k": 0}})
    for c in (None, "left", "right"):
        cases.append({"kind": "width", "cls": "Toffoli", "p": {"cancel": c}})
    for i, c in enumerate(cases):
        c["seed"] = 1000 + i
    return cases


def place_params(ctx):
    """(class, p) pairs small enough for dense simulation of a strictly larger host."""
    quick = ctx.quick
    out = []
    nmax = 3 if quick else 4
    for name, spec in REG.items():
        if isinstance(spec, Dense):
            for n in range(spec.nmin, nmax + 1):
                opts = dense_options(name, n, quick)
                if quick and n == nmax:
                    opts = opts[:2]
                for opt in opts:
                    w = {"BdspInitialize": None, "DcspInitialize": 2 ** n - 1, "BlackBoxInitialize": n + 1}.get(name, n)
                    if name == "BdspInitialize":
                        s = (opt or {}).get("split", (n + 1) // 2)
                        w = (s + 1) * 2 ** (n - s) - 1
                    if w > (7 if quick else 9):
                        continue
                    if name == "IsometryInitialize" and opt and opt.get("scheme") == "qiskit":
                        continue    # qiskit's Isometry instruction, not qclib code
                    for vec in (("haar",) if quick else ("haar", "real", "sparse", "basis", "product")):
                        out.append((name, {"n": n, "opt": opt, "vec": vec}, w))
    for n in (1, 2):
        for k in (2, 3):
            for classical in (True, False):
                for reset in (False, True):
                    if (quick and n == 2 and k == 3 and reset) or (not classical and n < 2):
                        continue
                    out.append(("MixedInitialize", {"n": n, "k": k, "classical": classical, "reset": reset,
                                                    "probs": bool((n + k) % 2)}, n + clog2(k)))
    for n in range(1, nmax + 1):
        for m in sorted({1, 2, 3, 5, 2 ** n}):
            if m > 2 ** n:
                continue
            out.append(("MergeInitialize", {"n": n, "m": m, "real": bool(m % 2)}, n))
            if m >= 2:
                out.append(("PivotInitialize", {"n": n, "m": m, "opt": {"aux": False}}, n))
            if m >= 3:
                out.append(("PivotInitialize", {"n": n, "m": m, "opt": {"aux": True}}, n + clog2(m) - 1))
            for aux in (True, False):
                w = n + 1 + (n - 1 if aux else 0)
                if w <= 8:
                    out.append(("CvoqramInitialize", {"n": n, "m": m, "opt": {"with_aux": aux}}, w))
            if not quick and n >= 2:
                for meth in ("barenco", "qiskit"):
                    out.append(("CvoqramInitialize", {"n": n, "m": m, "opt": {"with_aux": False, "mcg_method": meth}}, n + 1))
            if 2 <= n and 2 * n + 1 <= 9:
                out.append(("FnPointsInitialize", {"n": n, "m": m}, 2 * n + 1))
    return out


def gate_params(ctx):
    quick = ctx.quick
    out = []
    for k in range(1, 5 if quick else 6):
        for t in (1, 2):
            for rp, ao in ((False, False), (True, False), (False, True)):
                w = k + max(k - 2, 0) + t
                if w <= 9:
                    out.append(("McxVchainDirty", {"k": k, "t": t, "rp": rp, "ao": ao}, w))
        out.append(("McxVchainDirty", {"k": k, "t": 1, "cs": "0" + "1" * (k - 1)}, k + max(k - 2, 0) + 1))
        out.append(("LinearMcx", {"k": k}, k + 2))
        out.append(("LinearMcx", {"k": k, "cs": "1" * (k - 1) + "0", "ao": True}, k + 2))
        for cname in ("Ldmcu", "Ldmcsu", "LdMcSpecialUnitary", "Qdmcu", "Mcg"):
            out.append((cname, {"k": k}, k + 1))
            out.append((cname, {"k": k, "cs": "0" + "1" * (k - 1)}, k + 1))
        for t in (1, 2):
            out.append(("MultiTargetMCSU2", {"k": k, "t": t, "axis": "x" if k % 2 else "z"}, k + t))
    for k in (5, 6):
        out.append(("MCU", {"k": k, "u": "x", "error": 0.3}, k + 1))
    for c in (None, "left", "right"):
        out.append(("Toffoli", {"cancel": c}, 3))
    return [o for o in out if o[2] <= 9]


def random_subset(rng, m, w):
    """Ordered subset of size w of range(m): permuted and, when possible, non-contiguous."""
    for _ in range(20):
        s = rng.sample(range(m), w)
        if w == 1 or s != sorted(s) or m == w:
            if m == w and s == list(range(w)) and w > 1:
                continue
            return s
    return s


def oracle_cases(ctx):
    rng = ctx.rng
    cases = []
    for name, p, w in place_params(ctx):
        spec = REG[name]
        seed = rng.getrandbits(31)
        extra = rng.choice([1, 2]) if w <= 7 else 1
        m = w + extra
        sub = random_subset(rng, m, w)
        style = rng.choice(["int", "qubit"])
        cases.append({"kind": "place", "cls": name, "p": p, "m": m, "subset": sub, "entry": "initialize", "style": style,
                      "seed": seed})
        sub2 = random_subset(rng, m, w)
        cases.append({"kind": "place", "cls": name, "p": p, "m": m, "subset": sub2, "entry": "append", "style": "int",
                      "seed": seed})
        # same width, permuted order only
        cases.append({"kind": "place", "cls": name, "p": p, "m": w, "subset": random_subset(rng, w, w),
                      "entry": "initialize", "style": "int", "seed": seed})
        cases.append({"kind": "place", "cls": name, "p": p, "m": w, "subset": list(range(w)), "entry": "initialize-none",
                      "seed": seed})
        reset_free = not (name == "MixedInitialize" and p.get("reset", True))
        if reset_free and not (p.get("opt") or {}).get("lib") == "qiskit":
            if w <= 8:
                cases.append({"kind": "inverse", "cls": name, "p": p, "seed": seed})
            cases.append({"kind": "place", "cls": name, "p": p, "m": m, "subset": random_subset(rng, m, w),
                          "entry": "append-inverse", "seed": seed})
        cases.append({"kind": "pure", "cls": name, "p": dict(p, offnorm=True) if (isinstance(spec, Dense) or type(spec) is Sparse) else p,
                      "seed": seed})
    for name, p, w in gate_params(ctx):
        seed = rng.getrandbits(31)
        m = w + (1 if w >= 8 else rng.choice([1, 2]))
        cases.append({"kind": "place", "cls": name, "p": p, "m": m, "subset": random_subset(rng, m, w), "entry": "append",
                      "style": rng.choice(["int", "qubit"]), "seed": seed})
        if w <= 8:
            cases.append({"kind": "inverse", "cls": name, "p": p, "seed": seed})
        cases.append({"kind": "pure", "cls": name, "p": p, "seed": seed})
    # pure functions
    nfn = 3 if ctx.quick else 4
    for n in range(1, nfn + 1):
        for scheme in ("qsd", "csd", "qr"):
            cases.append({"kind": "purefn", "fn": "unitary", "p": {"n": n, "scheme": scheme}, "seed": rng.getrandbits(31)})
        cases.append({"kind": "purefn", "fn": "unitary.cnot_count", "p": {"n": n, "scheme": "qsd"}, "seed": rng.getrandbits(31)})
        for scheme in ("ccd", "knill", "csd"):
            if scheme == "knill" and n == 1:
                continue        # rejected by design ("Knill decomposition does not work on a 1 qubit isometry")
            for mc in range(0, n + 1):
                cases.append({"kind": "purefn", "fn": "isometry.decompose", "p": {"n": n, "scheme": scheme, "mcols": mc},
                              "seed": rng.getrandbits(31)})
            cases.append({"kind": "purefn", "fn": "isometry.decompose.vec", "p": {"n": n, "scheme": scheme},
                          "seed": rng.getrandbits(31)})
        cases.append({"kind": "purefn", "fn": "isometry.cnot_count", "p": {"n": n, "scheme": "ccd", "mcols": n // 2},
                      "seed": rng.getrandbits(31)})
        if n >= 2:
            for vec in ("haar", "product", "real"):
                cases.append({"kind": "purefn", "fn": "schmidt_decomposition", "p": {"n": n, "vec": vec},
                              "seed": rng.getrandbits(31)})
            cases.append({"kind": "purefn", "fn": "schmidt_decomposition", "p": {"n": n, "vec": "haar", "rank": 1, "part": [n - 1]},
                          "seed": rng.getrandbits(31)})
            cases.append({"kind": "purefn", "fn": "schmidt_composition", "p": {"n": n}, "seed": rng.getrandbits(31)})
            cases.append({"kind": "purefn", "fn": "meyer_wallach", "p": {"n": n}, "seed": rng.getrandbits(31)})
            cases.append({"kind": "purefn", "fn": "lowrank.cnot_count", "p": {"n": n}, "seed": rng.getrandbits(31)})
            for strat, lr in (("greedy", False), ("brute_force", True)):
                cases.append({"kind": "purefn", "fn": "adaptive_approximation",
                              "p": {"n": n, "loss": 0.15, "strategy": strat, "lr": lr}, "seed": rng.getrandbits(31)})
    # static helpers on permuted qubits
    for k in range(1, 5 if ctx.quick else 6):
        for fn in ("Ldmcu.ldmcu", "Ldmcsu.ldmcsu", "LdMcSpecialUnitary.ldmcsu", "Qdmcu.qdmcu", "Mcg.mcg",
                   "MultiTargetMCSU2.multi_target_mcsu2.single"):
            for cs in (None, "0" + "1" * (k - 1)):
                m = k + 1 + rng.choice([1, 2])
                s = random_subset(rng, m, k + 1)
                cases.append({"kind": "helper", "fn": fn, "p": {"cs": cs}, "m": m, "controls": s[:k], "targets": s[k:],
                              "seed": rng.getrandbits(31)})
        for t in (1, 2, 3):
            m = k + t + rng.choice([1, 2])
            s = random_subset(rng, m, k + t)
            cases.append({"kind": "helper", "fn": "MultiTargetMCSU2.multi_target_mcsu2", "p": {"axis": "x" if t % 2 else "z"},
                          "m": m, "controls": s[:k], "targets": s[k:], "seed": rng.getrandbits(31)})
    for k in (5, 6):
        for err in (0.3, 0):
            m = k + 2
            s = random_subset(rng, m, k + 1)
            cases.append({"kind": "helper", "fn": "MCU.mcu", "p": {"u": "x", "error": err}, "m": m, "controls": s[:k],
                          "targets": s[k:], "seed": rng.getrandbits(31)})
    for c in (None, "left", "right"):
        s = random_subset(rng, 5, 3)
        cases.append({"kind": "helper", "fn": "Toffoli.ccx", "p": {"cancel": c}, "m": 5, "controls": s[:2], "targets": s[2:],
                      "seed": rng.getrandbits(31)})
    for n in (1, 2, 3):
        for classical in (True, False):
            w = n + 1 + (0 if classical else n)
            m = w + 2
            s = random_subset(rng, m, w)
            c = {"kind": "pqm", "p": {"n": n, "classical": classical}, "m": m, "seed": rng.getrandbits(31)}
            if classical:
                c.update(mem=s[:n], aux=s[n])
            else:
                c.update(pat=s[:n], mem=s[n:2 * n], aux=s[2 * n])
            cases.append(c)
    return cases


# ---- generator-quality audit: inputs chosen for the branches of the anchored files the sweep above does not take

UNREACHED_JUSTIFIED = {
    "qclib/gates/initialize.py:47": "raise for a length that is not a positive power of two: invalid input, C16",
    "qclib/gates/initialize.py:51": "raise for a vector off the unit norm: invalid input, C16",
    "qclib/gates/initialize.py:61": "raise for a parameter that is not a number: invalid input",
    "qclib/gates/initialize_sparse.py:49": "raise for a key that is not a binary string: invalid input",
    "qclib/gates/initialize_sparse.py:53": "raise for params that are not a dictionary: invalid input (the one negative "
                                           "test of the library covers it)",
    "qclib/gates/initialize_mixed.py:21 initialize": "body-less base-class stub (`pass`), overridden by MixedInitialize; "
                                                     "no caller reaches it",
    "qclib/gates/initialize_mixed.py:41": "raise for a parameter that is not a number: invalid input",
    "qclib/state_preparation/merge.py:410->427": "real/real operand pair of _compute_angles: the constructor turns every "
                                                 "amplitude into a complex, the pair only arises from intermediate norms for "
                                                 "pre-screened key sets; C06 owns that generator (operand-kind families)",
    "qclib/state_preparation/pivot.py:163->168": "no differing target bit between the pivoted indices (data-dependent step of "
                                                 "the pivoting algorithm): C06",
    "qclib/state_preparation/pivot.py:229->237": "no free index among the first 2^s (data-dependent): C06",
    "qclib/state_preparation/cvoqram.py:88->97": "the loading loop always leaves through `break` on the last pattern; it is "
                                                 "exhausted only for an empty dictionary (rejected earlier)",
    "qclib/unitary.py:45": "raise for a non-square / non power-of-two matrix: invalid input, C16",
    "qclib/unitary.py:47": "raise for a non-unitary matrix: invalid input, C16",
    "qclib/unitary.py:212->214 _closest_unitary": "degenerate spectrum of the demultiplexing step (eigenvectors returned "
                                                  "non-orthogonal): numerical branch of the synthesis, C02",
    "qclib/unitary.py:381->416": "QR scheme: no wire differs in the required direction (data-dependent): C02",
    "qclib/isometry.py:75": "raise: row count not a power of two, invalid input, C16",
    "qclib/isometry.py:79": "raise: column count not a power of two, invalid input, C16",
    "qclib/isometry.py:83": "raise: more columns than rows, invalid input, C16",
    "qclib/isometry.py:85": "raise: columns not orthonormal, invalid input, C16",
    "qclib/isometry.py:105": "raise: Knill scheme on one qubit, rejected by design (noted in the run notes)",
    "qclib/isometry.py:301->315": "zero leading column inside the column-by-column decomposition (data-dependent): C03",
}


def branch_cases(ctx):
    """Cases for branches that depend on HOW the caller passes the input rather than on its size: an explicit `label`
    (inverse must relabel it), integer / float32 ndarrays and plain lists (second branch of validate_parameter; the
    caller's object must stay untouched), vectors with zero amplitudes (UCG's identity / diagonal operators), option
    dictionaries that leave the width-relevant key at its default, FnPointsInitialize without n_output_values, and the
    estimate branches of the three cnot_count functions (called for their side effects on the input only)."""
    rng = ctx.rng
    cases = []

    def add(fam, case):
        case.setdefault("seed", rng.getrandbits(31))
        cases.append(case)
        ctx.count("branch:" + fam)

    def small(name):
        spec = REG[name]
        if isinstance(spec, Dense):
            return {"n": max(2, spec.nmin)}
        if name == "MixedInitialize":
            return {"n": 2, "k": 2, "classical": True, "reset": False}
        return {"n": 3, "m": 3}

    inits = [n for n, sp in REG.items() if sp.kind != "gate"]
    # (1) explicit label: constructor keeps it, inverse() appends "_dg", width unchanged
    for name in inits:
        p = dict(small(name), label="L15")
        add("label given", {"kind": "inverse", "cls": name, "p": p})
        add("label given", {"kind": "width", "cls": name, "p": p})
    add("label given", {"kind": "inverse", "cls": "MixedInitialize",
                        "p": {"n": 2, "k": 3, "classical": False, "reset": False, "label": "L15"}})
    # (2) operand types of the state vector
    for name in inits:
        spec = REG[name]
        if not isinstance(spec, Dense):
            continue
        n = max(2, spec.nmin)
        w = {"BdspInitialize": 3, "DcspInitialize": 3, "BlackBoxInitialize": 3}.get(name, n)    # widths at n = 2
        for vec in ("npint", "f32", "list"):
            p = {"n": n, "vec": vec}
            m = w + 1
            add("vector type " + vec, {"kind": "place", "cls": name, "p": p, "m": m, "subset": random_subset(rng, m, w),
                                       "entry": "initialize", "style": "int"})
            add("vector type " + vec, {"kind": "pure", "cls": name, "p": p})
        # (3) zero amplitudes (quick tier: the main sweep draws Haar vectors only)
        for vec, nn in (("basis", n), ("sparse", n), ("sparse", 3), ("basis", 3)):
            if nn < spec.nmin or (nn == 3 and name in ("BdspInitialize", "DcspInitialize")):
                continue
            ww = {"BdspInitialize": 3, "DcspInitialize": 3, "BlackBoxInitialize": nn + 1}.get(name, nn)
            m = ww + 1
            add("vector with zeros " + vec, {"kind": "place", "cls": name, "p": {"n": nn, "vec": vec}, "m": m,
                                             "subset": random_subset(rng, m, ww), "entry": "append", "style": "int"})
    # zero amplitudes with a target state other than |0..0> (UCG's diagonal operator for target bit '1')
    for name in ("UCGInitialize", "UCGEInitialize"):
        for vec, nn in (("basis", 2), ("sparse", 3), ("basis", 3)):
            p = {"n": nn, "vec": vec, "opt": {"target_state": 2 ** nn - 1, "preserve_previous": False}}
            add("vector with zeros, target_state given", {"kind": "place", "cls": name, "p": p, "m": nn + 1,
                                                          "subset": random_subset(rng, nn + 1, nn), "entry": "initialize",
                                                          "style": "int"})
    for vec in ("npint", "f32"):
        p = {"n": 2, "k": 2, "classical": True, "reset": False, "vec": vec}
        add("mixed ensemble type " + vec, {"kind": "width", "cls": "MixedInitialize", "p": p})
        add("mixed ensemble type " + vec, {"kind": "pure", "cls": "MixedInitialize", "p": p})
    # (4) option dictionaries without the width-relevant key, FnPoints defaults
    for n, m_ in ((3, 3), (4, 5)):
        for name, opt, w in (("PivotInitialize", {}, n), ("CvoqramInitialize", {"mcg_method": "linear"}, 2 * n)):
            p = {"n": n, "m": m_, "opt": opt}
            add("opt_params without the width key", {"kind": "width", "cls": name, "p": p})
            if w + 1 <= 8:
                add("opt_params without the width key",
                    {"kind": "place", "cls": name, "p": p, "m": w + 1, "subset": random_subset(rng, w + 1, w),
                     "entry": "initialize", "style": "int"})
        for how in ("none", "empty"):
            p = {"n": n, "m": m_, "fnopt": how}
            add("FnPoints n_output_values default (" + how + ")", {"kind": "width", "cls": "FnPointsInitialize", "p": p})
            if n == 3:
                add("FnPoints n_output_values default (" + how + ")",
                    {"kind": "place", "cls": "FnPointsInitialize", "p": p, "m": 8, "subset": random_subset(rng, 8, 7),
                     "entry": "initialize", "style": "int"})
                add("FnPoints n_output_values default (" + how + ")", {"kind": "pure", "cls": "FnPointsInitialize", "p": p})
    # (5) estimate branches of the cnot_count functions (inputs untouched, same answer twice)
    for n in (1, 2, 3, 4):
        for scheme, iso, a2 in (("qsd", 0, True), ("qsd", 0, False), ("csd", 0, True), ("qsd", 1, True), ("qsd", 1, False),
                                ("qsd", n, True)):
            add("unitary.cnot_count estimate", {"kind": "purefn", "fn": "unitary.cnot_count",
                                                "p": {"n": n, "scheme": scheme, "method": "estimate", "iso": iso, "a2": a2}})
        for scheme in ("ccd", "knill", "csd"):
            for mc, vector in ((0, True), (0, False), (n // 2, False), (n, False)):
                add("isometry.cnot_count estimate", {"kind": "purefn", "fn": "isometry.cnot_count",
                                                     "p": {"n": n, "scheme": scheme, "mcols": mc, "method": "estimate",
                                                           "vector": vector}})
    for p in ({"n": 3, "vec": "product"}, {"n": 4, "vec": "haar", "lr": 1}, {"n": 5, "vec": "haar", "lr": 2, "part": [0, 1, 2]},
              {"n": 5, "vec": "haar", "part": [0, 1, 2, 3]}, {"n": 4, "vec": "basis"}):
        add("lowrank.cnot_count rank / partition", {"kind": "purefn", "fn": "lowrank.cnot_count", "p": p})
    return cases


# ---- boundary-value coverage: inputs AT and next to every size / count / option boundary of the anchored entry points

BOUNDARIES_COVERED = {
    "gates/initialize.py:43-53 num_qubits = log2(len(params))": "declared width at n = 1, 2, 3 for every dense class "
                                                                "(width sweep from nmin) + placements at the two smallest n",
    "gates/initialize_sparse.py:33-34 num_qubits = len(first key)": "n = 1, 2, 3 for every sparse class, m = 1, 2, 3",
    "gates/initialize_mixed.py:33 ceil(log2(len(params[0]))) + ceil(log2(len(params)))":
        "k = 1, 2, 3, 4, 5, 8, 9 (the control-register size changes at 2^j + 1) at n = 1, 2; placements at k = 1, 4, 5",
    "*.py `if qubits is None`": "every static initialize: qubits=None (host = width), explicit natural list, reversed list, "
                                "permuted list; host = width, width+1, width+2",
    "*.py `if opt_params is None` / `opt_params.get(k) is None`": "None, {}, partial dicts, explicit default values",
    "*.py `if label is None`": "None, 'L15', '' (falsy but given)",
    "pivot.py:54-56 width += max(ceil(log2 m) - 1, 0)": "m = 2 (0 work qubits; with aux only when no pivot step is needed - otherwise outside the domain, noted), 3, 4, 5, 7, 8, 9, 15, 16, 17, 31, 32, 33; aux on/off",
    "pivot.py:90 non_zero <= 2": "m = 2, 3 (m = 1 is outside the class's domain: IndexError, noted)",
    "pivot.py:191 num_qubits >= 5 and control_size <= control_limit": "n = 4, 5, 6 with m = 8, 9 (3 vs 4 controls), aux off",
    "cvoqram.py:66-67, 80 with_aux": "n = 1 (empty work register), 2, 3, 4 with and without aux, placement incl. n = 4",
    "cvoqram.py:92 k < len(params) - 1": "m = 1, 2, 3",
    "fnpoints.py:124/135 range(2, n)": "n = 2 (loop empty), 3 (one pass), placement at both",
    "lowrank.py:120 num_qubits < 2": "n = 1, 2", "lowrank.py:134/140 e_bits > 0 / range(e_bits)": "product (rank 1), rank 2 (lr = 2 at "
                                                                                                 "n = 4), full rank",
    "unitary.py:68 size > 4": "2x2, 4x4, 8x8 for qsd / csd / qr, iso = 0 / 1, apply_a2 on / off, real / integer / list input",
    "isometry.py:49 len(iso.shape) == 1, :149 log_lines == log_cols": "vector, 1 column, 2^n columns at n = 1, 2, 3; real and "
                                                                      "Fortran-ordered input (defensive copy)",
}


def _bsubsets(w, full):
    """Ordered qubit lists at the boundary of the host size: host = w, w+1, w+2; natural, reversed, permuted."""
    nat = list(range(w))
    out = [("host=w natural explicit list", w, nat)]
    if w >= 2:
        out.append(("host=w reversed", w, nat[::-1]))
    out.append(("host=w+1 natural low", w + 1, nat))
    out.append(("host=w+1 natural high", w + 1, [q + 1 for q in nat]))
    if w >= 2:
        out.append(("host=w+1 reversed", w + 1, [q + 1 for q in nat][::-1]))
    if full:
        out.append(("host=w+2 natural middle", w + 2, [q + 1 for q in nat]))
        out.append(("host=w+2 reversed high", w + 2, [q + 2 for q in nat][::-1]))
        if w >= 2:
            gap = [0] + [q + 2 for q in nat[1:]]
            out.append(("host=w+2 permuted with gap", w + 2, gap[1:] + gap[:1]))
    return out


def _width_of(name, p):
    spec = REG[name]
    args, kw = spec.inputs(p, _rng(1))
    return spec.build(args, kw).num_qubits


def boundary_small_params():
    """(class, p) at the two smallest sizes each class accepts."""
    out = []
    for name, spec in REG.items():
        if isinstance(spec, Dense):
            for n in (spec.nmin, spec.nmin + 1):
                out.append((name, {"n": n, "opt": None, "vec": "haar"}))
    out += [("MixedInitialize", {"n": 1, "k": 1, "classical": True, "reset": False}),
            ("MixedInitialize", {"n": 1, "k": 2, "classical": True, "reset": False}),
            ("MixedInitialize", {"n": 2, "k": 3, "classical": True, "reset": False, "probs": True}),
            ("MixedInitialize", {"n": 2, "k": 2, "classical": False, "reset": False}),
            ("MergeInitialize", {"n": 1, "m": 1}), ("MergeInitialize", {"n": 1, "m": 2}),
            ("MergeInitialize", {"n": 2, "m": 2}), ("MergeInitialize", {"n": 2, "m": 3}),
            ("PivotInitialize", {"n": 1, "m": 2}), ("PivotInitialize", {"n": 2, "m": 2, "opt": {"aux": False}}),
            ("PivotInitialize", {"n": 2, "m": 3}), ("PivotInitialize", {"n": 2, "m": 3, "opt": {"aux": True}}),
            ("CvoqramInitialize", {"n": 1, "m": 1, "opt": {"with_aux": True}}),
            ("CvoqramInitialize", {"n": 1, "m": 2, "opt": {"with_aux": False}}),
            ("CvoqramInitialize", {"n": 2, "m": 2, "opt": {"with_aux": True}}),
            ("CvoqramInitialize", {"n": 2, "m": 3, "opt": {"with_aux": False}}),
            ("FnPointsInitialize", {"n": 2, "m": 1}), ("FnPointsInitialize", {"n": 2, "m": 3})]
    return out


def boundary_cases(ctx):
    """Boundary-value cases (see BOUNDARIES_COVERED).  Every case is an ordinary width / place / inverse / pure / purefn
    case, so it is tied (width rows) and judged by the same oracles as the sweep."""
    rng = ctx.rng
    cases = []

    def add(fam, case):
        case.setdefault("seed", rng.getrandbits(31))
        cases.append(case)
        ctx.count("boundary:" + fam)

    # (1) host size = width, width+1, width+2; natural / reversed / permuted lists; every static initialize + append
    for name, p in boundary_small_params():
        try:
            w = _width_of(name, p)
        except Exception:
            add("smallest size", {"kind": "width", "cls": name, "p": p})      # reported by the width runner
            continue
        add("smallest size", {"kind": "width", "cls": name, "p": p})
        seed = rng.getrandbits(31)
        for i, (fam, m, sub) in enumerate(_bsubsets(w, full=w <= 5)):
            entry = ("initialize", "append", "initialize")[i % 3]
            style = ("int", "int", "qubit")[i % 3]
            add(fam, {"kind": "place", "cls": name, "p": p, "m": m, "subset": sub, "entry": entry, "style": style, "seed": seed})
        add("host=w qubits=None", {"kind": "place", "cls": name, "p": p, "m": w, "subset": list(range(w)),
                                   "entry": "initialize-none", "seed": seed})

    # (2) width formulas at the sizes where a count changes
    for m_ in (2, 3, 4, 5, 7, 8, 9, 15, 16, 17, 31, 32, 33):
        n0 = max(1, clog2(m_))
        for n in (n0, n0 + 1):
            if n > 6:
                continue
            for opt in ({"aux": False}, {"aux": True}, None):
                if m_ == 2 and opt and opt.get("aux") and n >= 2:
                    continue                    # needs a pivot step with a 0-qubit work register: see boundary_probes
                add(f"pivot aux count m={m_}", {"kind": "width", "cls": "PivotInitialize", "p": {"n": n, "m": m_, "opt": opt}})
    for n in (4, 5, 6):
        for m_ in (8, 9):
            add("pivot n>=5 and controls<=ceil(n/2)", {"kind": "width", "cls": "PivotInitialize",
                                                       "p": {"n": n, "m": m_, "opt": {"aux": False}}})
    for n in (1, 2):
        for k in (1, 2, 3, 4, 5, 8, 9):
            add(f"mixed control register k={k}", {"kind": "width", "cls": "MixedInitialize",
                                                  "p": {"n": n, "k": k, "classical": True, "reset": bool(k % 2)}})
    for k in (4, 5):
        add(f"mixed control register k={k}", {"kind": "width", "cls": "MixedInitialize",
                                              "p": {"n": 2, "k": k, "classical": False, "reset": False}})
    extra_place = [("MixedInitialize", {"n": 1, "k": 1, "classical": True, "reset": True}, "mixed k=1 (no control qubit)"),
                   ("MixedInitialize", {"n": 1, "k": 4, "classical": True, "reset": False}, "mixed k=4"),
                   ("MixedInitialize", {"n": 1, "k": 5, "classical": True, "reset": False, "probs": True}, "mixed k=5"),
                   ("MixedInitialize", {"n": 1, "k": 5, "classical": True, "reset": True}, "mixed k=5"),
                   ("MixedInitialize", {"n": 2, "k": 4, "classical": False, "reset": False}, "mixed k=4"),
                   ("PivotInitialize", {"n": 3, "m": 4, "opt": {"aux": True}}, "pivot aux m=4"),
                   ("PivotInitialize", {"n": 3, "m": 7, "opt": {"aux": True}}, "pivot aux m=7"),
                   ("PivotInitialize", {"n": 3, "m": 8, "opt": {"aux": True}}, "pivot aux m=8"),
                   ("PivotInitialize", {"n": 4, "m": 9, "opt": {"aux": True}}, "pivot aux m=9"),
                   ("PivotInitialize", {"n": 5, "m": 8, "opt": {"aux": False}}, "pivot n=5 dirty v-chain"),
                   ("PivotInitialize", {"n": 5, "m": 9, "opt": {"aux": False}}, "pivot n=5 Mcg"),
                   ("CvoqramInitialize", {"n": 4, "m": 3, "opt": {"with_aux": True}}, "cvoqram with_aux n=4"),
                   ("CvoqramInitialize", {"n": 4, "m": 3, "opt": {"with_aux": False}}, "cvoqram without aux n=4"),
                   ("FnPointsInitialize", {"n": 3, "m": 2}, "fnpoints n=3"),
                   ("LowRankInitialize", {"n": 2, "opt": None, "vec": "product"}, "lowrank e_bits=0"),
                   ("LowRankInitialize", {"n": 3, "opt": None, "vec": "product"}, "lowrank e_bits=0"),
                   ("LowRankInitialize", {"n": 4, "opt": {"lr": 2}, "vec": "haar"}, "lowrank e_bits=1"),
                   ("LowRankInitialize", {"n": 4, "opt": {"lr": 1}, "vec": "haar"}, "lowrank e_bits=0"),
                   ("BaaLowRankInitialize", {"n": 3, "opt": None, "vec": "product"}, "lowrank e_bits=0"),
                   ("SVDInitialize", {"n": 3, "opt": None, "vec": "product"}, "lowrank e_bits=0")]
    for name, p, fam in extra_place:
        try:
            w = _width_of(name, p)
        except Exception:
            add(fam, {"kind": "width", "cls": name, "p": p})
            continue
        seed = rng.getrandbits(31)
        add(fam, {"kind": "width", "cls": name, "p": p, "seed": seed})
        if w + 1 <= 9:
            add(fam, {"kind": "place", "cls": name, "p": p, "m": w + 1, "subset": random_subset(rng, w + 1, w),
                      "entry": "initialize", "style": "int", "seed": seed})
        add(fam, {"kind": "place", "cls": name, "p": p, "m": w, "subset": list(range(w))[::-1], "entry": "append",
                  "style": "int", "seed": seed})
        if not p.get("reset", False) and w <= 8:
            add(fam, {"kind": "inverse", "cls": name, "p": p, "seed": seed})

    # (3) options: opt_params None vs {} vs partial dicts vs explicit default values; label '' (given, but falsy)
    opt_rows = [("TopDownInitialize", {}), ("TopDownInitialize", {"global_phase": True}), ("TopDownInitialize", {"lib": None}),
                ("LowRankInitialize", {}), ("LowRankInitialize", {"lr": 0}), ("LowRankInitialize", {"svd": "regular"}),
                ("LowRankInitialize", {"iso_scheme": "ccd"}), ("LowRankInitialize", {"unitary_scheme": "qsd", "lr": None}),
                ("IsometryInitialize", {}), ("IsometryInitialize", {"scheme": None}), ("BaaLowRankInitialize", {}),
                ("BaaLowRankInitialize", {"strategy": "greedy"}), ("BdspInitialize", {}),
                ("UCGInitialize", {"target_state": 0}), ("UCGEInitialize", {"target_state": 0}),
                ("UCGInitialize", {"target_state": 2}), ("UCGEInitialize", {"target_state": 2})]
    for name, opt in opt_rows:
        for n in (2, 3):
            if name == "BdspInitialize" and n == 3:
                continue
            p = {"n": n, "opt": opt, "vec": "haar"}
            fam = "opt_params " + (("{}" if not opt else "partial dict") if name[:3] != "UCG" else "partial dict (target_state only)")
            seed = rng.getrandbits(31)
            try:
                w = _width_of(name, p)
            except Exception:
                add(fam, {"kind": "width", "cls": name, "p": p, "seed": seed})
                continue
            add(fam, {"kind": "width", "cls": name, "p": p, "seed": seed})
            add(fam, {"kind": "place", "cls": name, "p": p, "m": w + 1, "subset": random_subset(rng, w + 1, w),
                      "entry": "initialize", "style": "int", "seed": seed})
            add(fam, {"kind": "place", "cls": name, "p": p, "m": w, "subset": list(range(w)), "entry": "initialize-none",
                      "seed": seed})
            if n == 2:
                add(fam, {"kind": "pure", "cls": name, "p": p, "seed": seed})
    for name, p, w in (("PivotInitialize", {"n": 3, "m": 3, "opt": {"aux": None}}, 3),
                       ("CvoqramInitialize", {"n": 2, "m": 3, "opt": {}}, 4),
                       ("CvoqramInitialize", {"n": 2, "m": 3, "opt": {"with_aux": None, "mcg_method": None}}, 4),
                       ("MixedInitialize", {"n": 2, "k": 2, "classical": True, "reset": False, "opt": {}}, 3),
                       ("MixedInitialize", {"n": 2, "k": 3, "classical": True, "reset": False, "opt": {"lr": 0}}, 4)):
        fam = "opt_params " + ("{}" if not p["opt"] else "partial dict")
        seed = rng.getrandbits(31)
        add(fam, {"kind": "width", "cls": name, "p": p, "seed": seed})
        add(fam, {"kind": "place", "cls": name, "p": p, "m": w + 1, "subset": random_subset(rng, w + 1, w),
                  "entry": "initialize", "style": "int", "seed": seed})
        add(fam, {"kind": "pure", "cls": name, "p": p, "seed": seed})
    for name, spec in REG.items():
        if spec.kind == "gate":
            continue
        p = {"n": max(2, getattr(spec, "nmin", 1)), "label": ""} if isinstance(spec, Dense) else \
            ({"n": 2, "k": 2, "classical": True, "reset": False, "label": ""} if name == "MixedInitialize"
             else {"n": 2, "m": 2 if name != "PivotInitialize" else 3, "label": ""})
        add("label '' (given, falsy)", {"kind": "inverse", "cls": name, "p": p})

    # (4) unitary() / isometry.decompose(): defensive copies and determinism at 2x2, 4x4, 8x8, 1 column / 2^n columns,
    #     real / integer / list / Fortran-ordered input, iso and apply_a2 options
    for n in (1, 2, 3):
        for scheme in ("qsd", "csd", "qr"):
            for dt in ("real", "int", "list"):
                if scheme == "qr" and (dt == "int" or (n == 3 and dt != "real")):
                    continue        # integer unitaries are signed permutations: zero entries, which the QR scheme does not take (C02)
                add(f"unitary {2 ** n}x{2 ** n} input type", {"kind": "purefn", "fn": "unitary",
                                                               "p": {"n": n, "scheme": scheme, "dtype": dt}})
        for iso, a2 in ((0, False), (1, True), (1, False)):
            add(f"unitary {2 ** n}x{2 ** n} iso/apply_a2", {"kind": "purefn", "fn": "unitary",
                                                            "p": {"n": n, "scheme": "qsd", "iso": iso, "a2": a2}})
        for scheme in ("ccd", "csd", "knill"):
            if scheme == "knill" and n == 1:
                continue
            for mc in (0, n):
                for dt in ("real", "fortran"):
                    add(f"isometry {2 ** n} rows, {2 ** mc} column(s) input type",
                        {"kind": "purefn", "fn": "isometry.decompose", "p": {"n": n, "scheme": scheme, "mcols": mc, "dtype": dt}})
    return cases


def _keys_amps(r, keys, real=False):
    amps = r.normal(size=len(keys)) + (0 if real else 1j * r.normal(size=len(keys)))
    amps = amps / np.linalg.norm(amps)
    return {k: complex(a) for k, a in zip(keys, amps)}


def sparse_requested_rows(r):
    """(class, dictionary, opt_params, number of work qubits BEFORE the data register in the gate's qubit list, modulus only,
    loop family).  Sizes at which every internal loop of the class runs at least twice (trip counts 0 / 1 / 2+):
    pivot's v-chain ladder `range(2, t)` needs t = ceil(log2 m) >= 4 controls (m >= 9) and a key outside the low block;
    cvoqram's `_mcuvchain` ladder needs a pattern with >= 4 ones (with_aux); fnpoints' ladder `range(2, n)` needs n >= 4."""
    rows = []
    for m_ in (9, 10):
        forced = ["10000", "00001", "11111", "10110"]           # keys outside the low 2^t block: pivot steps are emitted
        pool = [format(k, "05b") for k in r.permutation(32) if format(k, "05b") not in forced]
        keys = [str(k) for k in r.permutation(forced + pool[:m_ - len(forced)])]
        d = _keys_amps(r, keys)
        rows.append(("PivotInitialize", d, {"aux": True}, clog2(m_) - 1, False, "pivot aux v-chain ladder, 4 controls"))
        rows.append(("PivotInitialize", d, {"aux": False}, 0, False, "pivot without aux, 4 controls"))
    d = _keys_amps(r, [str(k) for k in r.permutation(["100", "011", "110", "001", "111"])])
    rows.append(("PivotInitialize", d, {"aux": True}, 2, False, "pivot aux, 3 controls (ladder runs once)"))
    for n, keys in ((4, ["0001", "0110", "0111", "1011", "1111"]), (5, ["00100", "01010", "10111", "11110", "11111"])):
        keys = sorted(keys, key=lambda k: (k.count("1"), k))      # CVO-QRAM's contract: non-decreasing number of ones
        d = _keys_amps(r, keys)
        rows.append(("CvoqramInitialize", d, {"with_aux": True}, n, False, f"cvoqram _mcuvchain ladder, pattern with {n} ones"))
        if n == 4:
            rows.append(("CvoqramInitialize", d, {"with_aux": False}, 1, False, "cvoqram without aux, pattern with 4 ones"))
    rows.append(("FnPointsInitialize", {"0001": 0, "0110": 1, "1011": 2, "1111": 1, "0100": 2}, {"n_output_values": 3}, 0, True,
                 "fnpoints ladder range(2, n), n = 4"))
    rows.append(("FnPointsInitialize", {"001": 0, "110": 1, "111": 1}, {"n_output_values": 2}, 0, True,
                 "fnpoints ladder range(2, n), n = 3 (runs once)"))
    return rows


def run_sparse_requested(ctx, case):
    """The sparse initializers through `Cls.initialize(host, dict, qubits=<permuted subset>)` on a host with one spectator in
    |+>: the data qubits (given order, int(key, 2) little-endian) hold exactly the requested amplitudes (FnPoints: modulus
    1/sqrt(m) on the listed points), EVERY work qubit is back in |0>, the spectator is untouched."""
    from qiskit import QuantumCircuit
    r = _rng(case["seed"])
    rows = sparse_requested_rows(r)
    cname, d, opt, before, modulus, fam = rows[case["row"]]
    key = f"requested:{cname}:{fam}"
    cls = REG[cname].cls()
    try:
        g = cls(dict(d), opt_params=dict(opt))
        w, n = g.num_qubits, len(next(iter(d)))
        mm = w + 1
        rr = _rng(case["seed"] + 1)
        sub = [int(q) for q in rr.permutation(mm)[:w]]
        spect = [q for q in range(mm) if q not in sub][0]
        host = QuantumCircuit(mm)
        host.h(spect)
        cls.initialize(host, dict(d), qubits=sub, opt_params=dict(opt))
        psi0 = np.zeros(2 ** mm, dtype=complex)
        psi0[0] = 1
        out = evolve(psi0, host)
    except Exception as e:
        ctx.fail(key, f"{cname}.initialize(host, {len(d)} strings on {len(next(iter(d)))} qubits, qubits=<subset>, opt_params={opt}) "
                      f"raised {type(e).__name__}: {str(e)[:160]}", case)
        return
    exp = np.zeros(2 ** mm, dtype=complex)
    for k, amp in d.items():
        val, idx = int(k, 2), 0
        for j in range(n):
            if (val >> j) & 1:
                idx |= 1 << sub[before + j]
        a = (1 / math.sqrt(len(d))) if modulus else amp
        for sbit in (0, 1):
            exp[idx | (sbit << spect)] = a / math.sqrt(2)
    err = float(np.abs(np.abs(out) - np.abs(exp)).max()) if modulus else float(np.abs(out - exp).max())
    data = {sub[before + j] for j in range(n)}
    work = [q for q in sub if q not in data]
    p_work = float(sum(abs(out[i]) ** 2 for i in range(2 ** mm) if any((i >> q) & 1 for q in work)))
    ctx.count("boundary:loops>=2:" + cname if "runs once" not in fam and "3 controls" not in fam else "boundary:loops=1:" + cname)
    if err > TOL or p_work > TOL:
        ctx.fail(key, f"{cname} ({fam}; {len(d)} strings on {n} qubits, opt_params={opt}) placed on qubits {sub} of {mm}: host state "
                      f"differs from (requested state on the data qubits) x |0..0>_work x |+> by {err:.3e}; probability of a work "
                      f"qubit not being |0>: {p_work:.3e}", case)
    else:
        ctx.ok(key, sample={"requested": cname, "family": fam, "subset": sub, "err": err, "p_work": p_work})


def loop_cases(ctx):
    """Every initializer class at a size where all of its internal loops run at least twice (placement on a permuted subset
    with spectators, inverse, and - for the exact classes - the requested state)."""
    rng = ctx.rng
    cases = []

    def add(cname, case):
        case.setdefault("seed", rng.getrandbits(31))
        cases.append(case)
        ctx.count("boundary:loops>=2:" + cname)

    for i in range(len(sparse_requested_rows(_rng(0)))):
        cases.append({"kind": "requested", "row": i, "seed": rng.getrandbits(31)})
    # dense classes: tree / multiplexer levels n >= 3 (n = 4 here; n = 3 is in the sweep), Schmidt rank 4
    for name in ("TopDownInitialize", "LowRankInitialize", "SVDInitialize", "UCGInitialize", "UCGEInitialize", "IsometryInitialize",
                 "BaaLowRankInitialize", "BlackBoxInitialize"):
        p = {"n": 4, "opt": None, "vec": "haar"}
        w = 5 if name == "BlackBoxInitialize" else 4
        seed = rng.getrandbits(31)
        add(name, {"kind": "place", "cls": name, "p": p, "m": w + 1, "subset": random_subset(rng, w + 1, w), "entry": "initialize",
                   "style": "int", "seed": seed})
        add(name, {"kind": "inverse", "cls": name, "p": p, "seed": seed})
    for name, opt in (("UCGInitialize", {"target_state": 5, "preserve_previous": True}), ("UCGEInitialize", {"target_state": 10, "preserve_previous": False}),
                      ("LowRankInitialize", {"lr": 2}), ("LowRankInitialize", {"lr": 1, "partition": [1, 3]}),
                      ("TopDownInitialize", {"global_phase": False})):
        p = {"n": 4, "opt": opt, "vec": "haar"}
        seed = rng.getrandbits(31)
        add(name, {"kind": "place", "cls": name, "p": p, "m": 5, "subset": random_subset(rng, 5, 4), "entry": "initialize",
                   "style": "qubit", "seed": seed})
        add(name, {"kind": "place", "cls": name, "p": p, "m": 4, "subset": list(range(4)), "entry": "initialize-none", "seed": seed})
    # merge: m >= 3 strings and a merge step controlled by >= 2 qubits (pre-screened with the real code)
    found = 0
    for n, m_ in ((4, 6), (4, 7), (5, 7), (4, 5), (5, 9)):
        for _ in range(6):
            seed = rng.getrandbits(31)
            if found >= 3:
                break
            try:
                args, kw = REG["MergeInitialize"].inputs({"n": n, "m": m_}, _rng(seed))
                wide = any(inst.operation.num_qubits >= 3          # Ldmcu on >= 3 qubits: a merge with >= 2 controls
                           for inst in REG["MergeInitialize"].build(args, kw).definition.data)
            except Exception:
                wide = True            # reported by the placement runner
            if wide:
                found += 1
                add("MergeInitialize", {"kind": "place", "cls": "MergeInitialize", "p": {"n": n, "m": m_}, "m": n + 1,
                                        "subset": random_subset(rng, n + 1, n), "entry": "initialize", "style": "int", "seed": seed})
                add("MergeInitialize", {"kind": "inverse", "cls": "MergeInitialize", "p": {"n": n, "m": m_}, "seed": seed})
    # mixed: k >= 3 states, both purification modes
    for p, w in (({"n": 2, "k": 3, "classical": False, "reset": False}, 4), ({"n": 2, "k": 4, "classical": True, "reset": False, "probs": True}, 4)):
        seed = rng.getrandbits(31)
        add("MixedInitialize", {"kind": "place", "cls": "MixedInitialize", "p": p, "m": w + 1, "subset": random_subset(rng, w + 1, w),
                                "entry": "append", "style": "int", "seed": seed})
    # pivot / cvoqram / fnpoints: also the definition-level placement and inverse at those sizes
    for name, p, w in (("PivotInitialize", {"n": 5, "m": 9, "opt": {"aux": True}}, 8),
                       ("CvoqramInitialize", {"n": 4, "m": 6, "opt": {"with_aux": True}}, 8),
                       ("FnPointsInitialize", {"n": 4, "m": 4}, 9)):
        seed = rng.getrandbits(31)
        add(name, {"kind": "place", "cls": name, "p": p, "m": w, "subset": random_subset(rng, w, w), "entry": "initialize",
                   "style": "int", "seed": seed})
        if w <= 8:
            add(name, {"kind": "inverse", "cls": name, "p": p, "seed": seed})
    for name, p in (("BdspInitialize", {"n": 3, "opt": {"split": 1}, "vec": "haar"}), ("DcspInitialize", {"n": 3, "opt": None, "vec": "haar"})):
        add(name, {"kind": "place", "cls": name, "p": p, "m": 8, "subset": random_subset(rng, 8, 7), "entry": "initialize",
                   "style": "int", "seed": rng.getrandbits(31)})
    return cases


def boundary_probes(ctx):
    """Boundary cases that FAIL on the unchanged tree (findings, narrow keys) and restrictions at the edge of a domain."""
    import warnings
    # (a) UCGInitialize / UCGEInitialize: an opt_params dictionary WITHOUT 'target_state' ({} or a partial dict) - every other
    #     class reads a missing key as its default; here `opt_params.get("target_state")` = None goes into bin()
    for cname in ("UCGInitialize", "UCGEInitialize"):
        cls = REG[cname].cls()
        for tag, opt in (("{}", {}), ("preserve_previous-only", {"preserve_previous": False})):
            key = f"options:{cname}:opt_params-without-target_state:{tag}"
            ctx.count("boundary:opt_params " + ("{}" if not opt else "partial dict") + " (UCG, no target_state)")
            try:
                with warnings.catch_warnings():
                    warnings.simplefilter("ignore")
                    g = cls([0.6, 0.8], opt_params=dict(opt))
                    ref = cls([0.6, 0.8])
                    err = float(np.abs(opmat(g.definition) - opmat(ref.definition)).max())
                if err > TOL:
                    ctx.fail(key, f"{cname}([.6,.8], opt_params={opt}) differs from the default gate by {err:.3e}",
                             {"kind": "bprobe"})
                else:
                    ctx.ok(key)
            except Exception as e:
                ctx.fail(key, f"{cname}([0.6, 0.8], opt_params={opt}) raised {type(e).__name__}: {str(e)[:120]} (opt_params=None and "
                              f"opt_params={{'target_state': 0}} build; every other initializer reads a missing key as the default)",
                         {"kind": "bprobe", "call": f"{cname}([0.6, 0.8], opt_params={opt})"})
    # (b) PivotInitialize(aux=True) with m = 2 strings that need a pivot step: OUTSIDE the quantifier (property C06: "pivot
    #     requires m>=2 (m>=3 with auxiliary qubits)"): the v-chain is asked for with ONE control and an empty work register
    #     (IndexError in _mcxvchain).  Recorded as a counted note, not judged.
    from qclib.state_preparation import PivotInitialize
    seen = []
    for n, d in ((2, {"01": 0.6, "10": 0.8}), (3, {"000": 0.6, "101": 0.8})):
        ctx.count("boundary:pivot aux count m=2 (0 work qubits, pivot step): outside the domain (m>=3 with aux)")
        try:
            with warnings.catch_warnings():
                warnings.simplefilter("ignore")
                g = PivotInitialize(dict(d), opt_params={"aux": True})
                seen.append(f"n={n}: builds, declared {g.num_qubits}, definition {g.definition.num_qubits}")
        except Exception as e:
            seen.append(f"n={n}: {type(e).__name__}")
    ctx.notes.append("domain edge (not judged; C06: pivot needs m>=3 with auxiliary qubits): PivotInitialize(2 strings needing a pivot "
                     "step, aux=True).definition -> " + "; ".join(seen))
    # the no-pivot-step dictionaries at m = 2 with aux=True: width row + real widths
    for n, d in ((1, {"0": 0.6, "1": 0.8}), (2, {"00": 0.6, "01": 0.8}), (3, {"000": 0.6, "001": 0.8j})):
        key = f"width:PivotInitialize:aux=True:m=2:no-pivot-step:n={n}"
        ctx.count("boundary:pivot aux count m=2 (0 work qubits, no pivot step)")
        try:
            with warnings.catch_warnings():
                warnings.simplefilter("ignore")
                g = PivotInitialize(dict(d), opt_params={"aux": True})
                decl, circ = g.num_qubits, g.definition.num_qubits
            ctx.tie({"op": "width", "cls": "pivot", "n": n, "m": 2, "aux": True}, [f"decl {decl}", f"circ {circ}"], label=key)
            if decl != circ or decl != n:
                ctx.fail(key, f"PivotInitialize({d}, aux=True): declared {decl}, definition {circ}, expected {n}", {"kind": "bprobe"})
            else:
                ctx.ok(key)
        except Exception as e:
            ctx.fail(key, f"PivotInitialize({d}, opt_params={{'aux': True}}) raised {type(e).__name__}: {str(e)[:120]}",
                     {"kind": "bprobe"})


# ---- probes of oddities found while building this check (narrow keys, see the final report)

def probes(ctx):
    from qiskit import QuantumCircuit
    # (a) LinearMcx.mcx / McxVchainDirty.mcx_vchain_dirty: documented signature (circuit, controls, target, ...)
    for k in (1, 2, 3, 4):
        m = 2 * k + 2
        case = {"kind": "helper", "fn": "LinearMcx.mcx", "p": {}, "m": m, "controls": list(range(k, 0, -1)), "targets": [0],
                "seed": 7, "key": f"helper:LinearMcx.mcx:width-k+1-vs-k+2:k={k}"}
        run_helper(ctx, case)
    for k in (1, 2, 3, 4):
        for cs in (None, "1" * k):
            m = 2 * k + 2
            case = {"kind": "helper", "fn": "McxVchainDirty.mcx_vchain_dirty", "p": {"cs": cs}, "m": m,
                    "controls": list(range(k, 0, -1)), "targets": [0], "seed": 7,
                    "key": f"helper:McxVchainDirty.mcx_vchain_dirty:positional-arguments:k={k}:cs={cs}"}
            run_helper(ctx, case)
    # (b) MultiTargetMCSU2 with a single matrix (documented `unitaries` may be a matrix): definition is a Gate
    #     with one control too many
    for k in (1, 2, 3):
        key = f"width:MultiTargetMCSU2:single-matrix:k={k}"
        try:
            from qclib.gates.multitargetmcsu2 import MultiTargetMCSU2
            g = MultiTargetMCSU2(rot_matrix("x", 0.7), k, 1)
            d = g.definition
            if g.num_qubits != d.num_qubits:
                ctx.fail(key, f"MultiTargetMCSU2(matrix, {k}, 1): declared {g.num_qubits}, definition has {d.num_qubits} "
                              f"qubits (and is a {type(d).__name__}, not a circuit)",
                         {"kind": "probe", "call": f"MultiTargetMCSU2(RX(0.7), {k}, 1).definition"})
            else:
                ctx.ok(key)
        except Exception as e:
            ctx.fail(key, f"MultiTargetMCSU2(matrix, {k}, 1) raised {type(e).__name__}: {str(e)[:150]}",
                     {"kind": "probe", "call": f"MultiTargetMCSU2(RX(0.7), {k}, 1).definition"})
    # (c) Mcg(up_to_diagonal=True) on a non-special unitary with >= 2 controls
    key = "build:Mcg:up_to_diagonal"
    try:
        from qclib.gates.mcg import Mcg
        g = Mcg(np.array([[0, 1], [1, 0]], dtype=complex), 2, up_to_diagonal=True)
        if g.definition.num_qubits == g.num_qubits:
            ctx.ok(key)
        else:
            ctx.fail(key, "width mismatch", {"kind": "probe"})
    except Exception as e:
        ctx.fail(key, f"Mcg(X, 2, up_to_diagonal=True).definition raised {type(e).__name__}: {str(e)[:150]}",
                 {"kind": "probe", "call": "Mcg(X, 2, up_to_diagonal=True).definition"})
    # (d) CvqramInitialize: exported initializer whose circuit cannot be built with the installed qiskit
    key = "entry:CvqramInitialize:definition"
    try:
        from qclib.state_preparation import CvqramInitialize
        h = QuantumCircuit(5)
        CvqramInitialize.initialize(h, {"01": math.sqrt(0.5), "10": math.sqrt(0.5)}, qubits=[0, 1])
        g = h.data[0].operation
        if g.definition.num_qubits != g.num_qubits:
            ctx.fail(key, f"CvqramInitialize: declared {g.num_qubits}, definition has {g.definition.num_qubits} qubits",
                     {"kind": "probe", "call": "CvqramInitialize({'01': 2**-.5, '10': 2**-.5}).definition"})
        else:
            ctx.ok(key)
    except Exception as e:
        ctx.fail(key, f"CvqramInitialize.initialize(circuit, {{'01':..,'10':..}}, qubits=[0,1]); .definition raised "
                      f"{type(e).__name__}: {str(e)[:150]}",
                 {"kind": "probe", "call": "CvqramInitialize({'01': 2**-.5, '10': 2**-.5}).definition"})


def probe_pivot_aux(ctx):
    """PivotInitialize(aux=True): the ancilla register comes FIRST in the definition: gate qubit i < a is
    ancilla i, gate qubit a + j is data qubit j.  'Acts as the preparation on the given qubits in the given order'
    therefore means: the first a = ceil(log2 m) - 1 qubits of the list are clean work qubits (returned to |0>),
    the remaining n carry the state.  Checked here: with that reading the data marginal is the requested state."""
    from qiskit import QuantumCircuit
    from qclib.state_preparation import PivotInitialize
    r = _rng(ctx.rng.getrandbits(31))
    for n, m in ((3, 3), (3, 5), (4, 5)):
        d = sparse_dict(r, n, m)
        a = clog2(m) - 1
        w = n + a
        mm = w + 1
        sub = ctx.rng.sample(range(mm), w)
        host = QuantumCircuit(mm)
        PivotInitialize.initialize(host, d, qubits=sub, opt_params={"aux": True})
        psi0 = np.zeros(2 ** mm, dtype=complex)
        psi0[0] = 1
        out = evolve(psi0, host)
        exp = np.zeros(2 ** mm, dtype=complex)
        for key, amp in d.items():
            idx = 0
            val = int(key, 2)          # Pivot: int(key, 2) little-endian over the data register
            for j in range(n):
                if (val >> j) & 1:
                    idx |= 1 << sub[a + j]
            exp[idx] = amp
        err = float(np.abs(out - exp).max())
        k = f"place:PivotInitialize:aux-first:n={n}:m={m}"
        if err > TOL:
            ctx.fail(k, f"PivotInitialize(aux=True) on qubits {sub}: reading 'first {a} qubits = ancillas, then data' is off by "
                        f"{err:.3e}", {"kind": "probe", "dict": jsonable(d), "subset": sub})
        else:
            ctx.ok(k, sample={"pivot-aux-layout": "ancillas first, data last", "n": n, "m": m, "subset": sub, "err": err})


# ================================================================================================
# input-diversity pass: FORMS of otherwise ordinary inputs (element types, scale structure, sign / phase structure,
# call forms, smallest sizes).  Oracle only: the Lean model speaks about gate lists over G and the width table, it has no
# notion of dtype, host registers, qubit-list style or Python call form; the widths that occur here are rows the width tie
# already sends (n = 1..3, same options), so nothing new is registered with ctx.tie.
#
#   form x entry point                                                   -> where generated
#   ------------------------------------------------------------------------------------------------------------------
#   element types (py int / float / complex lists, tuple, list of numpy scalars, int64, float32 / complex64 exactly
#     representable, float32 / complex64 generic = reduced precision, float64, complex with zero imaginary part,
#     negative zeros) x every dense class, Mixed (ensemble of such vectors, probabilities list / tuple / ndarray),
#     Merge / Pivot / Cvoqram (dict values int / float / complex / numpy scalars, keys unsorted / descending),
#     FnPoints (int / numpy int outputs)                                 -> diversity_cases (A) via dv_dense / dv_sparse / dv_fn
#   scale structure (head + light tail at start / end / mixed, equal moduli, uniform, repeated values, single amplitude
#     of modulus 1, many zeros, norm in one sub-tree) x the same classes -> diversity_cases (A)
#   sign / phase structure (all negative, purely imaginary, global phase -1 / i, per-entry phases +-1 +-i, negative
#     integers) x the same classes                                       -> diversity_cases (A)
#   call forms x every class: X.initialize(host, data, qubits=.., opt_params=.., probabilities=..) keyword / positional /
#     qubits=None; append; compose(definition); compose(gate); definition.to_gate(); host.decompose(); definition read
#     twice; inverse().inverse(); gate then inverse / inverse then gate; deepcopy / copy BEFORE the definition exists; one
#     gate object appended twice; the same opt_params dict reused with changed contents; options None / {} / one key / all
#     keys; every keyword alone and all at once (Mixed: qubits, opt_params, probabilities; constructor: initializer, label,
#     reset, classical); qubit lists as ints / tuple / Qubit objects / mixed / QuantumRegister / reversed register /
#     register slice, hosts built from several registers in shuffled order, host = w, w+1, w+3
#                                                                        -> diversity_cases (A: rotating, B: every call form
#                                                                           per class with an option that changes the operator)
#   sizes n = 1, 2 (3) for every class that allows them                  -> both sweeps rotate n over the allowed sizes
#   unitary() / isometry.decompose(): int permutation (nested list, tuple, int64), real orthogonal float64, float32 /
#     complex64 exact (Hadamard-type, i * permutation), reduced precision, -I, i * I, diagonal of +-1 +-i, complex with zero
#     imaginary part, negative zeros; result used via compose / to_gate / to_instruction on a permuted subset of a host;
#     every keyword alone and all at once                                -> diversity_fn_cases via run_divfn
#
# Judgement of a form (brief: no false alarms): forms that are the SAME valid input must give, to 1e-7, the state the class
# prepares from the complex128 copy of the same numbers (and, for the exact classes with state-preserving options, the
# numbers themselves); reduced-precision arrays must either be rejected with ValueError or agree with the up-cast input to
# 1e-5 - a different exception type or an error above that is a failure; every call form must act as the class-level
# construction `X(data, <same keywords>)` embedded on the listed qubits in the listed order and as the identity elsewhere;
# the caller's objects are byte-compared before / after.
# Excluded bands: light tails are drawn in [3e-4, 3e-3] (rank cut 1e-7, np.allclose merges 1e-5, A.2 special-class
# fidelity 1e-9 all stay > 30x away); truncating options (lr >= 1, max_fidelity_loss > 0) only meet generic complex data.
# ================================================================================================

DV_DENSE_FORMS = ["pylist-int-basis", "pylist-negint-basis", "tuple-complex", "pylist-float-signed", "list-npscalars",
                  "int64-basis", "int64-neg-basis", "f32-exact", "c64-exact", "f32-generic", "c64-generic", "f64-signed",
                  "c128-zero-imag", "negzero-f64", "negzero-c128", "all-negative", "imag-positive", "imag-signed",
                  "phase-minus1", "phase-i", "head-tail-start", "head-tail-end", "head-tail-mixed", "equal-moduli-phases",
                  "equal-moduli-signs", "uniform", "repeated-two-values", "single-one-phase", "sparse-zeros", "subtree-norm",
                  "zero-interleaved"]
DV_MIXED_FORMS = ["pylist-int-basis", "tuple-complex", "pylist-float-signed", "list-npscalars", "int64-basis", "f32-exact",
                  "c64-exact", "c64-generic", "f64-signed", "negzero-c128", "all-negative", "imag-signed", "head-tail-mixed",
                  "equal-moduli-phases", "repeated-two-values", "single-one-phase"]
DV_SPARSE_FORMS = ["int-one", "negint-one", "pyfloat-signed", "pycomplex", "np-float64", "np-complex128", "np-int64-one",
                   "np-float32-exact", "np-complex64-exact", "np-float32-generic", "complex-zero-imag", "negzero-imag",
                   "all-negative", "imag", "head-tail", "equal-moduli-phases", "repeated", "single-one-phase-i",
                   "keys-descending", "mixed-value-types"]
DV_FN_FORMS = ["py-int", "np-int64", "np-int32", "single-point", "all-equal-outputs", "keys-descending"]
DV_REDUCED = ("f32-generic", "c64-generic", "np-float32-generic")
DV_STYLES = ["int", "qubit", "tuple", "mixed", "register", "reg-rev", "reg-slice", "regs-int", "regs-qubit"]
DV_CALLS = ["init", "init-none", "init-pos", "append", "compose", "compose-gate", "to_gate", "decompose", "def-twice",
            "inv-inv", "gate-inv", "inv-gate", "deepcopy", "copy-first", "twice", "reuse-opts", "refill-before-def"]


def _dv_refill(raw):
    """Overwrite the caller's data object IN PLACE with another valid datum (a work buffer reused for the next input) and
    return a function that restores it; None when the object cannot be overwritten in place (tuples, read-only arrays, nested
    python sequences).  ndarray: rows rolled by one (a unit vector stays a unit vector, a unitary / isometry stays one);
    flat list of numbers: rotated and negated; dict: the values rotated among the keys."""
    if isinstance(raw, np.ndarray) and raw.flags.writeable and raw.dtype.kind in "fciu" and raw.shape[0] >= 2:
        saved = raw.copy()
        raw[...] = np.roll(saved, 1, axis=0)

        def restore():
            raw[...] = saved
        return restore
    if isinstance(raw, list) and raw and all(isinstance(x, (int, float, complex, np.number)) for x in raw) and len(raw) >= 2:
        saved = list(raw)
        raw[:] = saved[1:] + saved[:1]

        def restore():
            raw[:] = saved
        return restore
    if isinstance(raw, dict) and len(raw) >= 2 and type(raw) is dict:
        saved = dict(raw)
        ks = list(saved)
        for a, b in zip(ks, ks[1:] + ks[:1]):
            raw[a] = saved[b]

        def restore():
            for a in ks:
                raw[a] = saved[a]
        return restore
    return None
DV_NEEDS_UNITARY = ("inv-inv", "gate-inv", "inv-gate")
DV_NO_OPTS = ("SVDInitialize", "DcspInitialize", "BlackBoxInitialize", "MergeInitialize")


def _dv_unit(v):
    v = np.asarray(v, dtype=complex)
    return v / np.linalg.norm(v)


def dv_dense(form, n, r):
    """-> raw input of `form` on n qubits (a valid normalised vector).  The canonical complex128 copy is np.array(raw)."""
    d = 2 ** n
    hv = _dv_unit(r.normal(size=d) + 1j * r.normal(size=d))
    rv = r.normal(size=d)
    rv = np.where(np.abs(rv) < 0.1, 0.3, rv)
    rv = rv / np.linalg.norm(rv)
    j = int(r.integers(d))
    quarter = np.array([1, -1, 1j, -1j])
    # exactly representable in float32: 4 entries of modulus 1/2 (d >= 4), one entry of modulus 1 (d = 2)
    pos4 = sorted(int(i) for i in r.choice(d, size=4, replace=False)) if d >= 4 else [j]
    mod4 = 0.5 if d >= 4 else 1.0
    if form == "pylist-int-basis":
        raw = [0] * d
        raw[j] = 1
        return raw
    if form == "pylist-negint-basis":
        raw = [0] * d
        raw[j] = -1
        return raw
    if form == "tuple-complex":
        return tuple(complex(x) for x in hv)
    if form == "pylist-float-signed":
        return [float(x) for x in rv]
    if form == "list-npscalars":
        raw = [np.complex128(x) for x in hv]
        raw[0] = np.float64(raw[0].real)                       # mixed scalar types in one list
        raw = [x / np.sqrt(sum(abs(complex(y)) ** 2 for y in raw)) for x in raw]
        return [np.float64(raw[0].real)] + [np.complex128(x) for x in raw[1:]]
    if form == "int64-basis":
        raw = np.zeros(d, dtype=np.int64)
        raw[j] = 1
        return raw
    if form == "int64-neg-basis":
        raw = np.zeros(d, dtype=np.int64)
        raw[j] = -1
        return raw
    if form == "f32-exact":
        raw = np.zeros(d, dtype=np.float32)
        raw[pos4] = np.float32(mod4) * r.choice([-1.0, 1.0], size=len(pos4)).astype(np.float32)
        raw[pos4[0]] = -np.float32(mod4)                       # at least one negative entry
        return raw
    if form == "c64-exact":
        raw = np.zeros(d, dtype=np.complex64)
        raw[pos4] = (mod4 * quarter[r.integers(4, size=len(pos4))]).astype(np.complex64)
        raw[pos4[0]] = np.complex64(-1j * mod4)
        return raw
    if form == "f32-generic":
        return rv.astype(np.float32)
    if form == "c64-generic":
        return hv.astype(np.complex64)
    if form == "f64-signed":
        raw = rv.copy()
        raw[0] = -abs(raw[0])
        return raw
    if form == "c128-zero-imag":
        raw = rv.astype(complex)
        raw[-1] = -abs(raw[-1])
        return raw
    if form in ("negzero-f64", "negzero-c128"):
        raw = rv.copy()
        if d >= 4:
            raw[[int(i) for i in r.choice(d, size=d // 2, replace=False)]] = 0.0
        if not np.any(raw):
            raw[j] = 1.0
        raw = raw / np.linalg.norm(raw)
        if form == "negzero-f64":
            raw = np.where(raw == 0, -0.0, raw)
            if d == 2:
                raw = np.array([-0.0, -1.0]) if j else np.array([-1.0, -0.0])
            return raw
        out = np.array([complex(-0.0, -0.0) if x == 0 else complex(x, -0.0) for x in raw])
        if d == 2:
            out = np.array([complex(-0.0, -0.0), complex(-1.0, -0.0)])
        return out
    if form == "all-negative":
        return -np.abs(rv)
    if form == "imag-positive":
        return 1j * np.abs(rv)
    if form == "imag-signed":
        return 1j * rv
    if form == "phase-minus1":
        return -np.abs(hv) if d == 2 else -hv
    if form == "phase-i":
        return 1j * hv
    if form.startswith("head-tail"):
        tail = np.exp(r.uniform(np.log(3e-4), np.log(3e-3), size=d)) * np.exp(1j * r.uniform(0, 2 * np.pi, size=d))
        heads = {"head-tail-start": [0], "head-tail-end": [d - 1], "head-tail-mixed": sorted({d // 2, max(d // 2 - 1, 0)})}[form]
        for h in heads:
            tail[h] = np.exp(1j * r.uniform(0, 2 * np.pi)) * r.uniform(0.6, 1.0)
        return _dv_unit(tail)
    if form == "equal-moduli-phases":
        return quarter[r.integers(4, size=d)] / np.sqrt(d)
    if form == "equal-moduli-signs":
        raw = r.choice([-1.0, 1.0], size=d) / np.sqrt(d)
        raw[j] = -abs(raw[j])
        return raw
    if form == "uniform":
        return np.full(d, 1 / np.sqrt(d))
    if form == "repeated-two-values":
        a, b = complex(r.normal(), r.normal()), complex(r.normal(), r.normal())
        raw = np.array([a if (i // max(d // 4, 1)) % 2 == 0 else b for i in range(d)])
        return raw / np.linalg.norm(raw)
    if form == "single-one-phase":
        raw = np.zeros(d, dtype=complex)
        raw[j] = quarter[int(r.integers(1, 4))]
        return raw
    if form == "sparse-zeros":
        raw = np.zeros(d, dtype=complex)
        for i in r.choice(d, size=min(2, d), replace=False):
            raw[int(i)] = complex(r.normal(), r.normal())
        return raw / np.linalg.norm(raw)
    if form == "subtree-norm":
        raw = np.zeros(d, dtype=complex)
        half = d // 2
        raw[half:] = hv[half:]
        return raw / np.linalg.norm(raw)
    if form == "zero-interleaved":
        # [a, 0, b, 0, ...]: every sibling pair is (x, 0) - multiplexer blocks that repeat / merge
        raw = np.where(np.arange(d) % 2 == 0, rv, 0.0)
        return raw / np.linalg.norm(raw)
    if form == "c128-haar":
        return hv
    if form == "strided-view":
        parent = r.normal(size=2 * d) + 1j * r.normal(size=2 * d)
        parent[::2] = hv
        return parent[::2]                                     # a view: `.base` (the parent) must stay as it is, too
    if form == "readonly":
        raw = hv.copy()
        raw.flags.writeable = False
        return raw
    raise KeyError(form)


def dv_sparse(form, n, m, r, hamming=False, min_m=1):
    """-> dict raw of `form` with (about) m binary strings on n qubits."""
    quarter = [1, -1, 1j, -1j]
    if form in ("int-one", "negint-one", "np-int64-one", "single-one-phase-i"):
        m = 1
    if form in ("np-float32-exact", "np-complex64-exact"):
        m = 4 if 2 ** n >= 4 else 1
    m = max(min(m, 2 ** n), min_m)
    keys = [format(int(k), f"0{n}b") for k in r.choice(2 ** n, size=m, replace=False)]       # insertion order: not sorted
    if form == "keys-descending":
        keys = sorted(keys, reverse=True)
    if hamming:
        keys = sorted(keys, key=lambda k: k.count("1"))         # CVO-QRAM's contract; ties keep the drawn order
    hv = _dv_unit(r.normal(size=m) + 1j * r.normal(size=m))
    rv = r.normal(size=m)
    rv = np.where(np.abs(rv) < 0.1, 0.3, rv)
    rv = rv / np.linalg.norm(rv)
    if m >= 2:
        rv[0] = -abs(rv[0])
    if form == "int-one":
        vals = [1]
    elif form == "negint-one":
        vals = [-1]
    elif form == "np-int64-one":
        vals = [np.int64(1)]
    elif form == "single-one-phase-i":
        vals = [1j]
    elif form == "pyfloat-signed":
        vals = [float(x) for x in rv]
    elif form in ("pycomplex", "keys-descending"):
        vals = [complex(x) for x in hv]
    elif form == "np-float64":
        vals = [np.float64(x) for x in rv]
    elif form == "np-complex128":
        vals = [np.complex128(x) for x in hv]
    elif form == "np-float32-exact":
        vals = [np.float32(-0.5 if i == 0 else 0.5) for i in range(m)] if m == 4 else [np.float32(-1.0)]
    elif form == "np-complex64-exact":
        vals = [np.complex64(0.5 * quarter[(i + 1) % 4]) for i in range(m)] if m == 4 else [np.complex64(-1j)]
    elif form == "np-float32-generic":
        vals = [np.float32(x) for x in rv]
    elif form == "complex-zero-imag":
        vals = [complex(x, 0.0) for x in rv]
    elif form == "negzero-imag":
        vals = [complex(x, -0.0) for x in rv]
    elif form == "all-negative":
        vals = [-abs(float(x)) for x in rv]
    elif form == "imag":
        vals = [complex(0.0, float(x)) for x in rv]
    elif form == "head-tail":
        t = np.exp(r.uniform(np.log(3e-4), np.log(3e-3), size=m)) * np.exp(1j * r.uniform(0, 2 * np.pi, size=m))
        t[int(r.integers(m))] = np.exp(1j * r.uniform(0, 2 * np.pi))
        vals = [complex(x) for x in _dv_unit(t)]
    elif form == "equal-moduli-phases":
        vals = [complex(quarter[int(r.integers(4))]) / math.sqrt(m) for _ in range(m)]
    elif form == "repeated":
        a = complex(r.normal(), r.normal())
        b = complex(r.normal(), r.normal())
        t = _dv_unit([a if i % 2 == 0 else b for i in range(m)])
        vals = [complex(x) for x in t]
    elif form == "mixed-value-types":
        # one python float, one numpy float64 (negative), the rest python complex / numpy complex128: same moduli as hv
        t = [complex(x) for x in hv]
        vals = [float(abs(t[0]))] + ([np.float64(-abs(t[1]))] if m >= 2 else []) + \
               [np.complex128(x) if i % 2 else x for i, x in enumerate(t[2:])]
    else:
        raise KeyError(form)
    return dict(zip(keys, vals))


def dv_fn(form, n, m, r):
    """FnPointsInitialize: dict binary string -> integer output."""
    if form == "single-point":
        m = 1
    m = max(1, min(m, 2 ** n))
    keys = [format(int(k), f"0{n}b") for k in r.choice(2 ** n, size=m, replace=False)]
    if form == "keys-descending":
        keys = sorted(keys, reverse=True)
    outs = [int(r.integers(3)) for _ in range(m)]
    if form == "all-equal-outputs":
        outs = [1] * m
    if form == "np-int64":
        outs = [np.int64(o) for o in outs]
    if form == "np-int32":
        outs = [np.int32(o) for o in outs]
    return dict(zip(keys, outs))


def dv_canon(raw):
    """The complex128 copy of the same numbers (what every form of the same input must be equivalent to)."""
    if isinstance(raw, dict):
        return {k: complex(v) for k, v in raw.items()}
    return np.array([complex(x) for x in raw], dtype=np.complex128)


def dv_parent(raw):
    """The array a view was taken from (snapshotted with the input: an in-place step would write through the view)."""
    return raw.base if isinstance(raw, np.ndarray) and raw.base is not None else None


def dv_is_canon(raw):
    if isinstance(raw, dict):
        return all(type(v) is complex for v in raw.values())
    return isinstance(raw, np.ndarray) and raw.dtype == np.complex128


def dv_width(name, n, opt, m=0, k=0):
    o = opt or {}
    if name == "BdspInitialize":
        s = o.get("split") or (n + 1) // 2
        return (s + 1) * 2 ** (n - s) - 1
    if name == "DcspInitialize":
        return 2 ** n - 1
    if name == "BlackBoxInitialize":
        return n + 1
    if name == "MixedInitialize":
        return n + clog2(k)
    if name == "PivotInitialize":
        return n + (max(clog2(m) - 1, 0) if o.get("aux") else 0)
    if name == "CvoqramInitialize":
        return n + 1 + (n - 1 if o.get("with_aux") in (None, True) else 0)
    if name == "FnPointsInitialize":
        return 2 * n + 1
    return n


def dv_options(name, n, m=0):
    """-> (options that keep the prepared state, options that change the state or the operator).  None / {} / one key /
    all keys at once."""
    if name == "TopDownInitialize":
        return [None, {}, {"global_phase": True}, {"lib": "qclib"}], \
               [{"global_phase": False}, {"lib": "qiskit"}, {"global_phase": False, "lib": "qiskit"}]
    if name == "LowRankInitialize":
        part = [n - 1] if n >= 2 else [0]
        keep = [None, {}, {"iso_scheme": "knill"}, {"unitary_scheme": "csd"}, {"svd": "regular"}, {"partition": part},
                {"lr": 0, "partition": part, "iso_scheme": "knill", "unitary_scheme": "csd", "svd": "regular"}]
        return keep, [{"lr": 1}, {"partition": part}, {"lr": 1, "partition": part, "iso_scheme": "knill",
                                                       "unitary_scheme": "csd", "svd": "regular"}]
    if name in ("UCGInitialize", "UCGEInitialize"):
        # all of these prepare the requested state exactly - in column |target_state> of the operator (the exact-state check
        # reads that column); preserve_previous / target_state meet the structured data of sweep A on both classes (UCGE's
        # multiplexer simplification + preserve_previous was finding `entry:UCGEInitialize:preserve_previous:*`, repaired)
        keep = [None, {}, {"preserve_previous": True}, {"target_state": 0, "preserve_previous": True}, {"target_state": 2 ** n - 1},
                {"target_state": 1, "preserve_previous": True}]
        return keep, [{"target_state": 2 ** n - 1}, {"preserve_previous": True}, {"target_state": 1, "preserve_previous": True}]
    if name == "IsometryInitialize":
        return [None, {}, {"scheme": "csd"}] + ([{"scheme": "knill"}] if n >= 2 else []), \
               [{"scheme": "csd"}] + ([{"scheme": "knill"}] if n >= 2 else [])
    if name == "BaaLowRankInitialize":
        full = {"strategy": "brute_force", "max_combination_size": 1, "use_low_rank": True, "iso_scheme": "knill",
                "unitary_scheme": "csd"}
        return [None, {}, {"strategy": "brute_force"}, {"use_low_rank": True}, {"max_combination_size": 1}, dict(full)], \
               [{"max_fidelity_loss": 0.3}, dict(full, max_fidelity_loss=0.3)]
    if name == "BdspInitialize":
        keep = [None, {}, {"split": 1}] + ([{"split": n}] if n >= 2 else [])
        return keep, ([{"split": n}] if n >= 2 else [{"split": 1}]) + ([{"split": 1}] if n >= 3 else [])
    if name == "PivotInitialize":
        return [None, {}, {"aux": False}] + ([{"aux": True}] if m >= 3 else []), [{"aux": True}] if m >= 3 else [{"aux": False}]
    if name == "CvoqramInitialize":
        return [None, {}, {"with_aux": True}, {"with_aux": False}, {"with_aux": False, "mcg_method": "barenco"}], \
               [{"with_aux": False}, {"with_aux": False, "mcg_method": "qiskit"}]
    if name == "MixedInitialize":
        return [None, {}, {"iso_scheme": "knill"}, {"svd": "regular", "unitary_scheme": "csd"}], \
               [{"lr": 1}, {"partition": [0]}, {"lr": 1, "partition": [0], "iso_scheme": "knill", "unitary_scheme": "csd",
                                                 "svd": "regular"}]
    return [None], []


def dv_inputs(case, canon=False):
    """-> (class, positional data (raw), keyword arguments of the class-level construction, keyword arguments of the static
    helper).  Deterministic in the case; every object is freshly built (owned by the caller of this function).  Option values
    are handed over in the form `case["forms"]` names (`canon`: canonical values - the reference construction)."""
    cls, raw, kw, skw = _dv_inputs(case)
    if case.get("forms") and not canon:
        kw, skw = apply_forms(kw, case["forms"]), apply_forms(skw, case["forms"])
    return cls, raw, kw, skw


def _dv_inputs(case):
    name, n, form = case["cls"], case["n"], case["form"]
    r = _rng(case["seed"])
    spec = REG[name]
    kw, skw = {}, {}
    if name == "MixedInitialize":
        k = case.get("k", 2)
        ens = [dv_dense(form, n, r) for _ in range(k)]
        if case.get("stack") and all(isinstance(e, np.ndarray) for e in ens):
            ens = np.stack(ens)                                   # one 2-D array instead of a list of vectors
        raw = ens
        pr = case.get("probs")
        if pr:
            p = r.uniform(0.2, 1.0, size=k)
            p = p / p.sum()
            p[-1] = 1.0 - float(sum(p[:-1]))
            p = {"list": lambda: [float(x) for x in p], "tuple": lambda: tuple(float(x) for x in p),
                 "nd": lambda: np.array(p), "npscalars": lambda: [np.float64(x) for x in p]}[pr]()
            kw["probabilities"] = p
            skw["probabilities"] = p
        for key in ("reset", "classical"):
            if key in case.get("ctor", {}):
                kw[key] = case["ctor"][key]
        if "initializer" in case.get("ctor", {}):
            kw["initializer"] = REG[case["ctor"]["initializer"]].cls()
    elif name == "FnPointsInitialize":
        raw = dv_fn(form, n, case.get("m", 3), r)
    elif spec.kind == "sparse":
        raw = dv_sparse(form, n, case.get("m", 3), r, hamming=(name == "CvoqramInitialize"),
                        min_m=(3 if (case.get("opt") or {}).get("aux") else 2) if name == "PivotInitialize" else 1)
    else:
        raw = dv_dense(form, n, r)
    if name not in DV_NO_OPTS:
        opt = copy.deepcopy(case.get("opt"))
        if name == "FnPointsInitialize":
            opt = {"n_output_values": int(max(int(v) for v in raw.values())) + 1 + int(case.get("nout_extra", 0))}
        kw["opt_params"] = opt
        skw["opt_params"] = opt
    if case.get("label") is not None:
        kw["label"] = case["label"]
    return spec.cls(), raw, kw, skw


def dv_host(regs):
    from qiskit import QuantumCircuit, QuantumRegister
    if isinstance(regs, int):
        return QuantumCircuit(regs), {}
    rs = [QuantumRegister(sz, nm) for nm, sz in regs]
    return QuantumCircuit(*rs), {nm: reg for (nm, _), reg in zip(regs, rs)}


def dv_qubits(host, regmap, q, style):
    if q is None:
        return None
    if style in ("int", "regs-int"):
        return list(q)
    if style == "tuple":
        return tuple(q)
    if style in ("qubit", "regs-qubit"):
        return [host.qubits[i] for i in q]
    if style == "mixed":
        return [host.qubits[i] if j % 2 == 0 else i for j, i in enumerate(q)]
    if style == "register":
        return regmap["d"]
    if style == "reg-rev":
        return regmap["d"][::-1]
    if style == "reg-slice":
        return regmap["d"][1:]
    raise KeyError(style)


def dv_layout(rng, w, extra, style, second=False):
    """-> (registers of the host, ordered global qubit list, second disjoint list or None)."""
    def split(total):
        names = ["a", "b", "c"]
        parts = []
        while total > 0 and len(parts) < 2:
            s = rng.randint(1, total - 1) if (total >= 2 and not parts) else rng.randint(1, total)     # >= 2 registers when possible
            parts.append(s)
            total -= s
        if total:
            parts.append(total)
        return [[names[i], s] for i, s in enumerate(parts)]

    if second:
        m = 2 * w + extra
        perm = rng.sample(range(m), 2 * w)
        if w > 1 and perm[:w] == sorted(perm[:w]):
            perm[:w] = perm[:w][::-1]
        return (m if style in ("int", "tuple", "qubit", "mixed") else split(m)), perm[:w], perm[w:]
    m = w + extra
    if style in ("int", "tuple", "qubit", "mixed"):
        return m, random_subset(rng, m, w), None
    if style in ("regs-int", "regs-qubit"):
        regs = split(m)
        rng.shuffle(regs)                                   # creation names in another order than the circuit's
        q = random_subset(rng, m, w)
        for _ in range(20):                                 # at least one listed qubit outside the first register: its index
            if len(regs) < 2 or any(x >= regs[0][1] for x in q):      # within its register differs from its index in the circuit
                break
            q = random_subset(rng, m, w)
        return regs, q, None
    dsize = w + 1 if style == "reg-slice" else w
    rest = m - dsize
    if rest < 0:
        rest = 0
    others = split(rest)
    pos = rng.randint(1, len(others)) if others else 0      # the data register is not the first one when there are others
    regs = others[:pos] + [["d", dsize]] + others[pos:]
    start = sum(s for _, s in regs[:pos])
    idx = list(range(start, start + dsize))
    q = idx if style == "register" else (idx[::-1] if style == "reg-rev" else idx[1:])
    return regs, q, None


def _dv_key(case):
    o = case.get("opt")
    ot = "None" if o is None else ("{}" if not o else ",".join(f"{a}={o[a]}" for a in sorted(o)))
    bits = [case["cls"], case["form"], f"n={case['n']}", f"opt={ot}", f"call={case['call']}", f"style={case.get('style')}",
            f"host={case.get('regs')}", f"q={case.get('q')}"]
    for k in ("k", "m", "probs", "ctor", "label", "q2"):
        if case.get(k) is not None:
            bits.append(f"{k}={case[k]}")
    if case.get("forms"):
        bits.append("forms=" + forms_tag(case["forms"]))
    return ":".join(str(b) for b in bits)


def _dv_opmat(defn):
    """Operator of a definition, None when it contains a reset (also inside qiskit's own `initialize` instruction)."""
    try:
        return opmat(defn)
    except Exception:           # QiskitError 'Cannot apply Operation: reset'
        return None


def _dv_to_gate(ctx, circ, who):
    """circuit.to_gate() where qiskit can (every instruction is a Gate), else to_instruction(): the definitions are built from
    sub-circuits converted with to_instruction(), which qiskit refuses to wrap into a Gate (its restriction, counted)."""
    try:
        return circ.to_gate()
    except Exception as e:
        ctx.count(f"diversity:to_gate:{who}:unsupported-raises-{type(e).__name__} (to_instruction used)")
        return circ.to_instruction()


def _dv_same(c1, c2):
    """max abs difference of two definitions: operators, or (definitions with resets) what they do to |0..0>."""
    if c1.num_qubits != c2.num_qubits:
        return float("inf")
    u1, u2 = _dv_opmat(c1), _dv_opmat(c2)
    if u1 is not None and u2 is not None:
        return float(np.abs(u1 - u2).max())
    if (u1 is None) != (u2 is None):
        return float("inf")
    return float(np.abs(_dv_state(c1)[1] - _dv_state(c2)[1]).max())


def _dv_state(defn):
    """What the definition does to |0..0>: state vector (reset-free) or density matrix."""
    u = _dv_opmat(defn)
    if u is not None:
        return "vec", u[:, 0]
    from qiskit.quantum_info import DensityMatrix
    z = np.zeros(2 ** defn.num_qubits, dtype=complex)
    z[0] = 1
    return "rho", DensityMatrix(z).evolve(defn).data


def run_div(ctx, case):
    """One (class, data form, options, call form, host layout, qubit-list style) evaluation of the diversity pass."""
    import warnings
    with warnings.catch_warnings():
        warnings.simplefilter("ignore")
        try:
            _run_div(ctx, case)
        except Exception as e:      # an exception of the harness itself is not a violation: note it
            ctx.notes.append(f"harness: diversity case {_dv_key(case)[:160]} stopped with {type(e).__name__}: {str(e)[:120]}")
            ctx.count("diversity:harness-exception")


def _run_div(ctx, case):
    from qiskit import QuantumCircuit
    name, call, form = case["cls"], case["call"], case["form"]
    key = "div:" + _dv_key(case)
    reduced = form in DV_REDUCED
    tol_form = 1e-3 if reduced else TOL      # brief: a silent wrong result is an error > 1e-3
    try:
        cls, raw, kw, skw = dv_inputs(case)
        _, raw_ref, kw_ref, _ = dv_inputs(case, canon=True)   # an independent, equal copy for the reference construction
    except Exception as e:
        ctx.notes.append(f"harness: diversity input {case} could not be generated: {type(e).__name__} {e}")
        return
    before = snap((raw, dv_parent(raw), kw))

    def rejected(e, where):
        """Reduced-precision input: the documented rejection is ValueError; anything else is a failure."""
        if reduced and isinstance(e, ValueError):
            ctx.ok("div-rejects:" + f"{name}:{form}", sample={"div": name, "form": form, "rejected": str(e)[:60]})
            ctx.count(f"diversity:{form}:rejected-ValueError")
            return True
        ctx.fail("div-raise:" + _dv_key(case), f"{name} ({form}, n={case['n']}, opt_params={case.get('opt')}) raised "
                 f"{type(e).__name__} during {where}: {str(e)[:160]}", case)
        return True

    # ---- the class-level construction from an equal copy of the same input: reference operator
    try:
        ref = cls(raw_ref, **kw_ref)
        w = ref.num_qubits
        ref_def = ref.definition
    except Exception as e:
        rejected(e, "the class-level construction")
        return
    if ref_def.num_qubits != w:
        ctx.fail("div-width:" + _dv_key(case), f"{name}: declared {w}, definition {ref_def.num_qubits}", case)
        return
    u = _dv_opmat(ref_def)
    unitary_def = u is not None

    # ---- (1) the FORM: same state as from the complex128 copy of the same numbers; exact classes: the numbers themselves
    if name == "MixedInitialize" or not dv_is_canon(raw_ref):
        try:
            if name == "MixedInitialize":
                can_in = [dv_canon(e) for e in raw_ref]
            elif name == "FnPointsInitialize":
                can_in = {k_: int(v) for k_, v in raw_ref.items()}
            else:
                can_in = dv_canon(raw_ref)
            if reduced:
                # the up-cast numbers are off the unit norm by ~1e-8 (accepted in single-precision arithmetic, rejected in
                # double): the reference is the normalised up-cast input, compared to 1e-5
                if name == "MixedInitialize":
                    can_in = [v_ / np.linalg.norm(v_) for v_ in can_in]
                elif isinstance(can_in, dict):
                    nrm = math.sqrt(sum(abs(v_) ** 2 for v_ in can_in.values()))
                    can_in = {k_: v_ / nrm for k_, v_ in can_in.items()}
                else:
                    can_in = can_in / np.linalg.norm(can_in)
            kind_c, st_c = _dv_state(cls(can_in, **copy.deepcopy(kw_ref)).definition)
            kind_r, st_r = ("vec", u[:, 0]) if unitary_def else _dv_state(ref_def)
            e_form = float(np.abs(st_c - st_r).max()) if kind_c == kind_r and st_c.shape == st_r.shape else float("inf")
        except Exception as e:
            ctx.fail("div-form-raise:" + f"{name}:{form}:n={case['n']}", f"{name}: the complex128 copy of a {form} input raised "
                     f"{type(e).__name__}: {str(e)[:120]} although the {form} input itself builds", case)
            return
        if e_form > tol_form:
            ctx.fail("div-form:" + f"{name}:{form}:n={case['n']}:opt={case.get('opt')}",
                     f"{name}: the state prepared from a {form} input differs by {e_form:.3e} from the state prepared from the "
                     f"complex128 copy of the same numbers (opt_params={case.get('opt')})", case)
            return
    spec = REG[name]
    if spec.exact and isinstance(spec, Dense) and unitary_def and not reduced:
        # sweep A only hands state-preserving options (`exact_state`); elsewhere the class's own rule decides
        req = dv_canon(raw_ref) if case.get("exact_state") else spec.requested([dv_canon(raw_ref)], {"opt_params": case.get("opt")})
        if req is not None:
            tcol = int((case.get("opt") or {}).get("target_state") or 0) if name in ("UCGInitialize", "UCGEInitialize") else 0
            e_req = float(np.abs(u[:, tcol] - req).max())
            if e_req > TOL:
                ctx.fail("div-requested:" + f"{name}:{form}:n={case['n']}:opt={case.get('opt')}",
                         f"{name}: the state prepared from a {form} input differs from the input by {e_req:.3e}", case)
                return
    if name == "MixedInitialize" and not reduced and "lr" not in (case.get("opt") or {}):
        # the data register (last n gate qubits) carries sum_i p_i |psi_i><psi_i|
        from qiskit.quantum_info import partial_trace
        kind_r, st_r = _dv_state(ref_def)
        rho = np.outer(st_r, st_r.conj()) if kind_r == "vec" else st_r
        nctrl = w - case["n"]
        red = partial_trace(rho, list(range(nctrl))).data if nctrl else rho
        vs = [dv_canon(e) for e in raw_ref]
        ps = kw_ref.get("probabilities")
        ps = [1 / len(vs)] * len(vs) if ps is None else [float(x) for x in ps]
        exp = sum(p_ * np.outer(v_, v_.conj()) for p_, v_ in zip(ps, vs))
        e_mix = float(np.abs(red - exp).max())
        if e_mix > TOL:
            ctx.fail("div-mixed-rho:" + _dv_key(case), f"MixedInitialize: reduced state of the data register differs from "
                     f"sum_i p_i |psi_i><psi_i| by {e_mix:.3e}", case)
            return

    # ---- (2) the CALL FORM on the host
    if call == "reuse-opts":
        _dv_reuse(ctx, case, key, cls, raw, kw)
        if snap((raw, dv_parent(raw))) != snap((raw_ref, dv_parent(raw_ref))):
            ctx.fail("div-alias:" + _dv_key(case), f"{name}: the caller's data was modified (call form {call})", case)
        return
    host, regmap = dv_host(case["regs"])
    m = host.num_qubits
    q, q2 = case["q"], case.get("q2")
    style = case.get("style", "int")
    seq = [q]                                                  # qubit lists the reference operator is embedded on, in order
    ident = False
    extra_defs = []
    try:
        qq = dv_qubits(host, regmap, q, style) if call != "init-none" else None
        qq2 = dv_qubits(host, regmap, q2, "int" if style.startswith("reg") and not style.startswith("regs") else style) if q2 else None
        if call == "init":
            cls.initialize(host, raw, qubits=qq, **skw)
        elif call == "init-none":
            cls.initialize(host, raw, **skw)
        elif call == "init-pos":
            pos = [qq] + ([skw["opt_params"]] if "opt_params" in skw else [])
            if "probabilities" in skw:
                pos.append(skw["probabilities"])
            cls.initialize(host, raw, *pos)
        elif call == "append":
            host.append(cls(raw, **kw), qq)
        elif call == "compose":
            host.compose(cls(raw, **kw).definition, qq, inplace=True)
        elif call == "compose-gate":
            host.compose(cls(raw, **kw), qq, inplace=True)
        elif call == "to_gate":
            d_ = cls(raw, **kw).definition
            host.append(_dv_to_gate(ctx, d_, name), qq)
        elif call == "decompose":
            host.append(cls(raw, **kw), qq)
            host = host.decompose()
        elif call == "def-twice":
            g = cls(raw, **kw)
            extra_defs = [("definition read first", g.definition), ("definition read again", g.definition)]
            host.append(g, qq)
        elif call == "inv-inv":
            g = cls(raw, **kw)
            gi = g.inverse().inverse()
            if case.get("label") is not None and g.label != case["label"]:
                ctx.fail("div-label:" + _dv_key(case), f"{name}(..., label={case['label']!r}) has label {g.label!r}", case)
                return
            if not (isinstance(gi.label, str) and gi.label == (g.label or "") + "_dg_dg"):
                ctx.fail("div-label:" + _dv_key(case), f"{name}.inverse().inverse(): label {gi.label!r}, gate label {g.label!r}", case)
                return
            host.append(gi, qq)
        elif call == "gate-inv":
            g = cls(raw, **kw)
            host.append(g, qq)
            host.append(g.inverse(), qq)
            ident = True
        elif call == "inv-gate":
            g = cls(raw, **kw)
            host.append(g.inverse(), qq)
            host.append(g, qq)
            ident = True
        elif call == "deepcopy":
            g = cls(raw, **kw)
            c = copy.deepcopy(g)                               # before any definition exists
            host.append(c, qq)
            extra_defs = [("original after deepcopy", g.definition), ("deep copy", c.definition)]
        elif call == "copy-first":
            g = cls(raw, **kw)
            c = g.copy()                                       # before any definition exists
            host.append(g, qq)
            if qq2 is not None:
                host.append(c, qq2)
                seq = [q, q2]
            extra_defs = [("copy taken before the definition was built", c.definition), ("original", g.definition)]
        elif call == "twice":
            g = cls(raw, **kw)
            host.append(g, qq)
            host.append(g, qq2)
            seq = [q, q2]
        elif call == "refill-before-def":
            # the gate is constructed, the caller's buffer is refilled with the next input, only then is the (lazy) definition
            # built: the gate must still be the gate of the data it was constructed from
            g = cls(raw, **kw)
            restore = _dv_refill(raw)
            try:
                _ = g.definition
            finally:
                if restore is not None:
                    restore()
            ctx.count("diversity:refill-before-def:" + ("refilled" if restore is not None else "object-not-refillable"))
            host.append(g, qq)
        else:
            raise KeyError(call)
        if call in ("append", "deepcopy", "copy-first", "twice", "def-twice", "refill-before-def") and case.get("label") is not None:
            lab = host.data[0].operation.label
            if lab != case["label"]:
                ctx.fail("div-label:" + _dv_key(case), f"{name}(..., label={case['label']!r}) has label {lab!r}", case)
                return
    except Exception as e:
        rejected(e, f"call form {call} with qubits {q} ({style}) on host {case['regs']}")
        return
    if call == "init-none":
        seq = [list(range(m))]
    r = _rng(case["seed"] + 23)
    try:
        if unitary_def:
            psi0 = product_state(m, spectator_states(r, m, [x for s_ in seq for x in s_]))
            psi1 = r.normal(size=2 ** m) + 1j * r.normal(size=2 ** m)
            psi1 = psi1 / np.linalg.norm(psi1)
            uh = opmat(host)
            exp0, exp1 = psi0, psi1
            if not ident:
                for s_ in seq:
                    exp0, exp1 = apply_local(exp0, u, s_, m), apply_local(exp1, u, s_, m)
            worst = max(float(np.abs(uh @ psi0 - exp0).max()), float(np.abs(uh @ psi1 - exp1).max()))
        else:
            # definition with resets: qiskit's compose of the reference definition is the (trusted) embedding; the input is a
            # Haar state of the WHOLE host (a reset-free gate in place of one with resets acts differently on it)
            from qiskit.quantum_info import DensityMatrix
            psi1 = r.normal(size=2 ** m) + 1j * r.normal(size=2 ** m)
            psi1 = psi1 / np.linalg.norm(psi1)
            loc = QuantumCircuit(m)
            for s_ in seq:
                loc.compose(ref_def, qubits=s_, inplace=True)
            worst = float(np.abs(DensityMatrix(psi1).evolve(host).data - DensityMatrix(psi1).evolve(loc).data).max())
        for what, d_ in extra_defs:
            e_ = _dv_same(d_, ref_def)
            if e_ > TOL:
                ctx.fail("div-copy:" + f"{name}:{call}:{what}", f"{name}, call form {call}: {what} differs from the class-level "
                         f"construction by {e_:.3e}", case)
                return
    except Exception as e:
        ctx.fail("div-eval:" + _dv_key(case), f"{name} placed via {call}: the host cannot be evaluated: {type(e).__name__}: "
                 f"{str(e)[:160]}", case)
        return
    if snap((raw, dv_parent(raw), kw)) != before:
        ctx.fail("div-alias:" + _dv_key(case), f"{name}: the caller's {form} data / options were modified (call form {call})", case)
        return
    if worst > (tol_form if reduced else TOL):
        ctx.fail("div-place:" + _dv_key(case), f"{name} ({form}, opt_params={case.get('opt')}) via {call} on qubits {seq} "
                 f"({style}) of host {case['regs']}: differs from the class-level construction with the same keywords embedded "
                 f"on those qubits in that order (identity elsewhere) by {worst:.3e}", case)
        return
    ctx.ok(key, nontrivial=True, sample={"div": name, "form": form, "call": call, "style": style, "q": q, "host": case["regs"],
                                         "opt": case.get("opt"), "worst": worst})
    ctx.count("diversity:form:" + form)
    ctx.count("diversity:call:" + call)
    ctx.count("diversity:qubits:" + (style if call != "init-none" else "None"))
    ctx.count("diversity:size:" + f"{name}:n={case['n']}")
    o = case.get("opt")
    ctx.count("diversity:options:" + ("None" if o is None else "{}" if not o else "one key" if len(o) == 1 else "several keys"))
    for k_, f_ in (case.get("forms") or {}).items():
        ctx.count(f"flagforms:{k_}:{f_}")
        ctx.count(f"flagforms:{k_}:{f_}:{kw_option(kw_ref, k_)!r}:via {call}")
    if case.get("label") == "":
        ctx.count("flagforms:label:'':via " + call)
    if case.get("visible"):
        # the option is meant to change the operator: confirm that a dropped option WOULD be seen
        try:
            kd = {k_: v for k_, v in kw_ref.items() if k_ not in case["visible"]}
            d0 = cls(dv_inputs(case)[1], **kd)
            k0, s0 = _dv_state(d0.definition)
            vis = d0.num_qubits != w or (k0 == "vec") != unitary_def or \
                (unitary_def and float(np.abs(opmat(d0.definition) - u).max()) > 1e-3) or \
                (not unitary_def and float(np.abs(s0 - _dv_state(ref_def)[1]).max()) > 1e-3)
        except Exception:
            vis = True
        ctx.count("diversity:keyword-visible" if vis else "diversity:keyword-invisible-at-this-size")


def _dv_reuse(ctx, case, key, cls, raw, kw):
    """The SAME opt_params dict object for consecutive constructions, its contents changed in between: every gate is the one
    of the contents at ITS construction (definition read before the dict changes), and the library never writes the dict."""
    name = case["cls"]
    o1, o2 = copy.deepcopy(case.get("opt") or {}), copy.deepcopy(case.get("opt2") or {})
    other = {k_: v for k_, v in kw.items() if k_ != "opt_params"}
    live = copy.deepcopy(o1)
    try:
        g1 = cls(raw, opt_params=live, **other)
        d1 = g1.definition
        s1 = snap(live)
        live.clear()
        live.update(copy.deepcopy(o2))
        g2 = cls(raw, opt_params=live, **other)
        d2 = g2.definition
        s2 = snap(live)
        live.clear()
        live.update(copy.deepcopy(o1))
        g3 = cls(raw, opt_params=live, **other)
        d3 = g3.definition
        s3 = snap(live)
        r1 = cls(dv_inputs(case)[1], opt_params=copy.deepcopy(o1), **other).definition
        r2 = cls(dv_inputs(case)[1], opt_params=copy.deepcopy(o2), **other).definition
        # ... and through the static helper: the dict now holds o1; two calls with o2 / o1 written into the same object
        from qiskit import QuantumCircuit
        skw = {k_: v for k_, v in other.items() if k_ == "probabilities"}
        live.clear()
        live.update(copy.deepcopy(o2))
        h2 = QuantumCircuit(r2.num_qubits)
        cls.initialize(h2, raw, qubits=list(range(r2.num_qubits))[::-1], opt_params=live, **skw)
        dh2 = h2.data[0].operation.definition
        s4 = snap(live)
        live.clear()
        live.update(copy.deepcopy(o1))
        h1 = QuantumCircuit(r1.num_qubits)
        cls.initialize(h1, raw, opt_params=live, **skw)
        dh1 = h1.data[0].operation.definition
        s5 = snap(live)
    except Exception as e:
        ctx.fail("div-raise:" + _dv_key(case), f"{name}: reusing one opt_params dict ({o1} -> {o2} -> {o1}) raised "
                 f"{type(e).__name__}: {str(e)[:160]}", case)
        return
    if (s1, s2, s3, s4, s5) != (snap(o1), snap(o2), snap(o1), snap(o2), snap(o1)):
        ctx.fail("div-alias:" + _dv_key(case), f"{name}: the caller's opt_params dict was modified by the constructor / definition", case)
        return
    static_ok = "reset" not in other and "classical" not in other and "initializer" not in other and "label" not in other
    errs = [_dv_same(d1, r1), _dv_same(d2, r2), _dv_same(d3, r1), _dv_same(g1.definition, r1)] + \
           ([_dv_same(dh2, r2), _dv_same(dh1, r1)] if static_ok else [])
    if max(errs) > TOL:
        ctx.fail("div-reuse:" + f"{name}:opt={o1}->{o2}", f"{name}: one opt_params dict reused for three constructions ({o1} -> {o2} -> "
                 f"{o1}): gates differ from fresh constructions with equal contents by {[f'{e:.2e}' for e in errs]}", case)
        return
    ctx.ok(key, sample={"div": name, "call": "reuse-opts", "opt": o1, "opt2": o2})
    ctx.count("diversity:call:reuse-opts")
    ctx.count("diversity:keyword-visible" if _dv_same(r1, r2) > 1e-3 else "diversity:keyword-invisible-at-this-size")


# ---- generation of the diversity cases

DV_SIZES = {"TopDownInitialize": (1, 2, 3), "LowRankInitialize": (1, 2, 3), "SVDInitialize": (2, 3), "UCGInitialize": (1, 2, 3),
            "UCGEInitialize": (1, 2, 3), "IsometryInitialize": (1, 2, 3), "BaaLowRankInitialize": (1, 2, 3),
            "BdspInitialize": (1, 2, 3), "DcspInitialize": (1, 2), "BlackBoxInitialize": (1, 2, 3), "MixedInitialize": (1, 2),
            "MergeInitialize": (1, 2, 3), "PivotInitialize": (1, 2, 3), "CvoqramInitialize": (1, 2, 3),
            "FnPointsInitialize": (2, 3)}
DV_MAX_HOST = 7
DV_SOFT_HOST = 5


def _dv_forms(name):
    kind = REG[name].kind
    if name == "MixedInitialize":
        return DV_MIXED_FORMS
    if name == "FnPointsInitialize":
        return DV_FN_FORMS
    if kind == "sparse":
        return [f for f in DV_SPARSE_FORMS if not (name == "PivotInitialize" and f in ("int-one", "negint-one", "np-int64-one",
                                                                                        "single-one-phase-i"))
                and not (name == "CvoqramInitialize" and f == "keys-descending")]
    return DV_DENSE_FORMS + ["c128-haar", "strided-view", "readonly"]


def _dv_generic_form(name):
    if name == "FnPointsInitialize":
        return "py-int"
    return "pycomplex" if REG[name].kind == "sparse" else "c128-haar"


def _dv_case(rng, name, n, form, opt, call, style, extra, **more):
    """Assemble one case: widths, host layout, qubit lists; adapts call form / style / host to what the class allows."""
    case = {"kind": "div", "cls": name, "n": n, "form": form, "opt": opt, "call": call, "seed": rng.getrandbits(31)}
    case.update(more)
    m_ = 0
    if name == "PivotInitialize" and form in ("np-float32-exact", "np-complex64-exact") and n == 1:
        n = case["n"] = 2
    if name == "MixedInitialize":
        case.setdefault("k", 2)
        if call in DV_NEEDS_UNITARY or (call in ("twice", "copy-first", "deepcopy", "def-twice", "append", "compose", "to_gate", "refill-before-def")
                                        and rng.random() < 0.5):
            case.setdefault("ctor", {})
            case["ctor"].setdefault("reset", False)       # static initialize cannot pass it: constructor call forms only
        if call in ("init", "init-none", "init-pos"):
            case.pop("ctor", None)
        if (case.get("ctor") or {}).get("classical") is False:
            case["k"] = max(case["k"], 2)
    elif REG[name].kind == "sparse":
        m_ = case.setdefault("m", min(2 ** n, 3 if n >= 2 else 2))
        if form in ("np-float32-exact", "np-complex64-exact"):
            m_ = case["m"] = 4 if n >= 2 else 1
        if form in ("int-one", "negint-one", "np-int64-one", "single-one-phase-i", "single-point"):
            m_ = case["m"] = 1
        if name == "PivotInitialize":
            m_ = case["m"] = max(m_, 2)
            if (opt or {}).get("aux") and (m_ < 3 or 2 ** n < 3):
                case["opt"] = opt = {"aux": False}
    if call in DV_NEEDS_UNITARY and (opt or {}).get("lib") == "qiskit":
        case["call"] = call = "append"
    w = dv_width(name, n, case["opt"], m=m_, k=case.get("k", 0))
    if call in ("init", "init-pos", "init-none", "reuse-opts") or case.get("label") is None and rng.random() < 0.5:
        case.pop("label", None)
    elif "label" not in case:
        case["label"] = "dv15"
    if call == "reuse-opts":
        return case
    second = call in ("twice", "copy-first")
    if second and 2 * w > 6:
        second = False
        if call == "twice":
            case["call"] = call = "append"
    if call == "init-none":
        extra, style = 0, "int"
    # dense evaluation of a host costs ~10x more from 6 qubits on: idle qubits up to a 5-qubit host (host = w, w+1, w+3 for
    # w <= 2; w, w+1, w+2 for w = 3), one idle qubit at most above
    base = 2 * w if second else w
    extra = max(0, min(extra, DV_MAX_HOST - base, max(DV_SOFT_HOST - base, 1 if extra else 0)))
    if second and style in ("register", "reg-rev", "reg-slice"):
        style = "regs-qubit"
    if style == "reg-slice" and extra == 0:
        style = "reg-rev" if w > 1 else "register"
    regs, q, q2 = dv_layout(rng, w, extra, style, second=second)
    if call == "init-none":
        regs, q = (w if rng.random() < 0.5 else [["b", w - w // 2]] + ([["a", w // 2]] if w // 2 else [])), list(range(w))
    case.update(style=style, regs=regs, q=q)
    if q2 is not None:
        case["q2"] = q2
    return case


def diversity_cases(ctx):
    rng = ctx.rng
    cases = []
    calls_a = [c for c in DV_CALLS if c != "reuse-opts"]
    for name, sizes in DV_SIZES.items():
        forms = _dv_forms(name)
        offs = [rng.randrange(64) for _ in range(6)]
        has_opts = name not in DV_NO_OPTS
        # (A) every data form, rotating sizes / state-preserving options / call forms / qubit-list styles / host sizes
        for i, form in enumerate(forms):
            n = sizes[:2][(i + offs[0]) % 2]          # the two smallest sizes (n = 3, 4 carry generic data in the sweeps above)
            m_ = 3 if n >= 2 else 2
            keep, _ = dv_options(name, n, m_)
            opt = copy.deepcopy(keep[(i + offs[1]) % len(keep)]) if has_opts else None
            call = calls_a[(i + offs[2]) % len(calls_a)]
            style = DV_STYLES[(i + offs[3]) % len(DV_STYLES)]
            extra = (0, 1, 3)[(i + offs[4]) % 3]
            more = {}
            if name == "MixedInitialize":
                more = {"k": 2 + (i + offs[5]) % 2, "probs": (None, "list", "tuple", "nd", "npscalars")[(i + offs[5]) % 5],
                        "stack": bool(i % 2)}
            if form in DV_REDUCED and call in ("gate-inv", "inv-gate"):
                call = "append"        # identity for any gate: says nothing about the form
            if isinstance(REG[name], Dense) and REG[name].exact:
                more["exact_state"] = True
            cases.append(_dv_case(rng, name, n, form, opt, call, style, extra, **more))
        if name in ("UCGInitialize", "UCGEInitialize"):
            # structured data (repeated / merged sibling blocks, zeros) x preserve_previous / target_state x call forms, n = 2, 3
            j = 0
            for form in ("uniform", "zero-interleaved", "repeated-two-values", "equal-moduli-signs", "sparse-zeros", "subtree-norm",
                         "pylist-int-basis"):
                for n in (2, 3):
                    for opt in ({"preserve_previous": True}, {"target_state": 1, "preserve_previous": True},
                                {"target_state": 2 ** n - 1}):
                        j += 1
                        if (j + j // 3 + offs[5]) % 3:
                            continue        # one option per (form, n) and run, shifting from pair to pair: 14 of the 42 per run
                        cases.append(_dv_case(rng, name, n, form, dict(opt), calls_a[(j + offs[2]) % len(calls_a)],
                                              DV_STYLES[(j + offs[3]) % len(DV_STYLES)], (1, 0, 2)[j % 3], exact_state=True))
        # (B) every call form on generic complex data with options that CHANGE the operator (a dropped keyword is visible)
        gform = _dv_generic_form(name)
        for j, call in enumerate(DV_CALLS):
            n = sizes[-2:][1 if (j + offs[0]) % 4 == 0 else 0] if len(sizes) >= 2 else sizes[-1]      # mostly n = 2, every 4th n = 3
            if name in ("BdspInitialize", "FnPointsInitialize") and call in ("twice", "copy-first"):
                n = sizes[0]
            m_ = 3 if n >= 2 else 2
            keep, change = dv_options(name, n, m_)
            opt = copy.deepcopy(change[(j + offs[1]) % len(change)]) if change else None
            more = {"visible": ["opt_params"]} if (has_opts and name != "FnPointsInitialize") else {}
            if name == "FnPointsInitialize":
                more = {"nout_extra": 1 + j % 2}
            if call == "reuse-opts":
                if not change or name == "FnPointsInitialize":
                    continue
                # contents in between: the defaults ({}: always a visible difference) or another operator-changing option
                others = [o for o in change if o != opt]
                more["opt2"] = copy.deepcopy(others[offs[2] % len(others)]) if (others and offs[2] % 2) else {}
            if name == "MixedInitialize":
                more.update(k=2 + j % 2, probs=("list", None, "nd")[j % 3])
                if call in ("init", "init-none", "init-pos"):
                    more["probs"] = ("list", "tuple", "nd")[j % 3]
                    more["visible"] = ["opt_params", "probabilities"]
            cases.append(_dv_case(rng, name, n, gform, opt, call, DV_STYLES[(j + offs[3]) % len(DV_STYLES)],
                                  (1, 3, 0)[(j + offs[4]) % 3], **more))
        # the static helper with EVERY state- / operator-changing option, one at a time and all at once, on a permuted subset
        n = sizes[-1] if name not in ("BdspInitialize", "FnPointsInitialize", "DcspInitialize") else sizes[min(1, len(sizes) - 1)]
        _, change = dv_options(name, n, 3)
        for j, opt in enumerate(change if name != "FnPointsInitialize" else []):
            cases.append(_dv_case(rng, name, n, gform, copy.deepcopy(opt), ("init", "init-pos")[j % 2], DV_STYLES[(j + offs[5]) % len(DV_STYLES)],
                                  (3, 1)[j % 2], visible=["opt_params"], **({"k": 2} if name == "MixedInitialize" else {})))
        # every keyword of the static helper alone (qubits only; opt_params only is `init-none` above; both is `init` above)
        n = sizes[min(1, len(sizes) - 1)]
        cases.append(_dv_case(rng, name, n, gform, None, "init", "int", 3))
        cases.append(_dv_case(rng, name, sizes[0], gform, {} if has_opts else None, "init", "regs-qubit", 1))
        cases.append(_dv_case(rng, name, n, gform, None, "init-pos", "reg-rev", 2))        # Qubit objects of a register that is not the first
        # every qubit-list style reaches the static helper of EVERY class in every run (the rotation above covers most)
        mine = [c for c in cases if c["cls"] == name and c["call"] in ("init", "init-pos")]
        for style in DV_STYLES:
            if not any(c.get("style") == style and len(c["q"]) >= 2 and (style in ("register", "reg-slice") or c["q"] != sorted(c["q"]))
                       for c in mine):
                _, change = dv_options(name, n, 3)
                opt = copy.deepcopy(change[0]) if (change and name != "FnPointsInitialize") else None
                cases.append(_dv_case(rng, name, n, gform, opt, "init", style, 2, **({"visible": ["opt_params"]} if opt else {})))
    # MixedInitialize: the three keywords of the static helper one at a time / pairwise / all at once, and every keyword of
    # the constructor one at a time and all at once
    _, mchange = dv_options("MixedInitialize", 2)
    for call, opt, probs, extra in (("init", None, None, 1), ("init-none", mchange[0], None, 0), ("init-none", None, "list", 0),
                                    ("init", mchange[1], None, 3), ("init", None, "nd", 1), ("init-none", mchange[2], "tuple", 0),
                                    ("init", mchange[2], "npscalars", 1), ("init-pos", mchange[0], "list", 3)):
        vis = (["opt_params"] if opt else []) + (["probabilities"] if probs else [])
        cases.append(_dv_case(rng, "MixedInitialize", 2, "c128-haar", copy.deepcopy(opt), call, rng.choice(["int", "qubit", "reg-rev"]),
                              extra, k=2, probs=probs, **({"visible": vis} if vis else {})))
    for ctor, opt, probs, label in (({"initializer": "UCGInitialize"}, None, None, None), ({"reset": False}, None, None, None),
                                    ({"classical": False}, None, None, None), ({}, None, None, "dv15"), ({}, None, "list", None),
                                    ({}, {"lr": 1}, None, None),
                                    ({"initializer": "IsometryInitialize", "reset": False, "classical": False}, {"scheme": "csd"},
                                     "tuple", "dv15"),
                                    ({"initializer": "TopDownInitialize", "reset": False}, {"global_phase": False}, "nd", "dv15")):
        for call in ("append", "compose"):
            cases.append(_dv_case(rng, "MixedInitialize", 2, "c128-haar", copy.deepcopy(opt), call, rng.choice(["int", "qubit", "regs-int"]),
                                  rng.choice([0, 1]), k=2 + (1 if "classical" not in ctor else 0), probs=probs, ctor=dict(ctor),
                                  **({"label": label} if label else {"label": None})))
    return cases


# ---- option-value forms: truthy / falsy values that are not the singletons, valid falsy values, numpy integers

FLAG_ROWS = [
    # (class, boolean option, sizes n on both sides of what the flag selects, canonical options next to the flag (rotating), m)
    ("TopDownInitialize", "global_phase", (1, 2, 3), [{}, {"lib": "qclib"}], None),
    ("UCGInitialize", "preserve_previous", (1, 2, 3), [{}, {"target_state": 1}, {"target_state": 0}], None),
    ("UCGEInitialize", "preserve_previous", (1, 2, 3), [{"target_state": 0}, {}, {"target_state": 1}], None),
    ("CvoqramInitialize", "with_aux", (1, 2, 3), [{}, {"mcg_method": "linear"}], (2, 3, 4)),     # n = 1: empty work register
    ("PivotInitialize", "aux", (2, 3, 3), [{}], (3, 5, 4)),                                        # 1 and 2 work qubits
    ("BaaLowRankInitialize", "use_low_rank", (2, 3, 3), [{"max_fidelity_loss": 0.3}, {"max_fidelity_loss": 0.3, "strategy": "brute_force"},
                                                         {"max_fidelity_loss": 0.0}], None),
]
NUM_ROWS = [
    # (class, option, [(canonical value as a function of n, forms)], sizes, options next to it)
    ("LowRankInitialize", "lr", [(lambda n: 0, ("int", "np.int64")), (lambda n: 1, ("int", "np.int64"))], (2, 3), [{}, {"partition": [0]}]),
    ("UCGInitialize", "target_state", [(lambda n: 0, ("int", "np.int64")), (lambda n: 2 ** n - 1, ("int", "np.int64")),
                                       (lambda n: 2 ** (n - 1), ("int", "np.int64"))], (2, 3), [{}, {"preserve_previous": True}]),
    ("UCGEInitialize", "target_state", [(lambda n: 0, ("int", "np.int64")), (lambda n: 2 ** n - 1, ("int", "np.int64")),
                                        (lambda n: 2 ** (n - 1), ("int", "np.int64"))], (2, 3), [{"preserve_previous": True}, {}]),
    ("BaaLowRankInitialize", "max_fidelity_loss", [(lambda n: 0, ("int", "float", "np.float64")), (lambda n: 0.3, ("float", "np.float64"))],
     (2, 3), [{}, {"use_low_rank": True}]),
    ("BaaLowRankInitialize", "max_combination_size", [(lambda n: 0, ("int", "np.int64")), (lambda n: 1, ("int", "np.int64"))], (2, 3),
     [{"strategy": "brute_force", "max_fidelity_loss": 0.3}]),
    ("BdspInitialize", "split", [(lambda n: 1, ("np.int64",)), (lambda n: n, ("np.int64",))], (2,), [{}]),
]


def flag_cases(ctx):
    """Every boolean option of the initializers as True and False, each as bool, numpy.bool_ and int 1 / 0, through the
    constructor (append), the static helper with keywords (init) and with positional arguments (init-pos) - the constructor-only
    flags of MixedInitialize through append / compose; every option with a valid falsy value (lr 0, target_state 0, loss 0 / 0.0,
    max_combination_size 0, label '') in each numeric form next to a non-zero one, integer options as numpy integers at both
    ends of their range and in the middle.  Judged by the diversity oracle against the construction with the CANONICAL value
    (same operator embedded on the same ordered qubits; exact classes: the requested state); width-changing flags are also
    width rows of the tie (canonical value in the row)."""
    rng = ctx.rng
    cases = []
    calls = ("append", "init", "init-pos")
    styles = ("int", "qubit", "regs-int", "reg-rev", "tuple", "mixed")
    off = rng.randrange(64)
    for ri, (name, flag, sizes, nexts, ms) in enumerate(FLAG_ROWS):
        gform = _dv_generic_form(name)
        for vi, val in enumerate((True, False)):
            for fi, form in enumerate(FLAG_FORMS):
                for ci, call in enumerate(calls):
                    j = (off + ri + vi + fi + ci) % len(sizes)
                    opt = dict(copy.deepcopy(nexts[(off + vi + 2 * fi + ci) % len(nexts)]), **{flag: val})
                    more = {"forms": {flag: form}, "label": None}
                    if ms:
                        more["m"] = ms[j]
                    cases.append(_dv_case(rng, name, sizes[j], gform, opt, call, styles[(off + fi + 2 * ci + vi) % len(styles)],
                                          (1, 0, 2)[(off + ci + vi) % 3], **more))
    # MixedInitialize: reset / classical are keywords of the constructor only
    for fi2, flag in enumerate(("reset", "classical")):
        for vi, val in enumerate((True, False)):
            for fi, form in enumerate(FLAG_FORMS):
                for ci, call in enumerate(("append", "compose-gate")):
                    other = bool((off + vi + fi + ci) % 2)
                    ctor = {"reset": other, "classical": other}
                    ctor[flag] = val
                    n = 2 if (ctor["classical"] is False or (off + fi + ci) % 2) else 1
                    cases.append(_dv_case(rng, "MixedInitialize", n, "c128-haar", None, call, styles[(off + fi + ci) % len(styles)],
                                          (1, 0)[(fi + ci) % 2], k=2 + (off + vi + ci) % 2, probs=(None, "list")[(fi + vi) % 2],
                                          ctor=ctor, forms={flag: form}, label=None))
    # options with a valid falsy value / integer options as numpy integers
    for ri, (name, key_, values, sizes, nexts) in enumerate(NUM_ROWS):
        gform = _dv_generic_form(name)
        j = off + ri
        for valf, forms in values:
            for form in forms:
                for n in sizes:
                    j += 1
                    opt = dict(copy.deepcopy(nexts[j % len(nexts)]), **{key_: valf(n)})
                    cases.append(_dv_case(rng, name, n, gform, opt, calls[j % 3], styles[j % len(styles)], (1, 0, 2)[j % 3],
                                          forms={key_: form}, label=None,
                                          **({"exact_state": True} if name[:3] == "UCG" else {})))
    # label '' (given, but falsy): the gate's label, and the inverse's "_dg"
    for i, name in enumerate(DV_SIZES):
        n = DV_SIZES[name][0]
        for call in ("append", "inv-inv"):
            cases.append(_dv_case(rng, name, n, _dv_generic_form(name), None, call, styles[(off + i) % len(styles)], 1, label=""))
    # width rows of the tie for the two flags that change the width (canonical value in the row), and the gate classes' flags
    # through the constructor (their static helpers are K-C15-1 / K-C15-2)
    for form in ("np.bool_", "int"):
        for val in (True, False):
            for n, m_ in ((3, 3), (4, 9)):
                cases.append({"kind": "width", "cls": "PivotInitialize", "p": {"n": n, "m": m_, "opt": {"aux": val}, "forms": {"aux": form}}})
            for n, m_ in ((1, 2), (3, 3)):
                cases.append({"kind": "width", "cls": "CvoqramInitialize",
                              "p": {"n": n, "m": m_, "opt": {"with_aux": val}, "forms": {"with_aux": form}}})
            gate_rows = [("McxVchainDirty", {"k": 3, "t": 1, "rp": val, "ao": False}, "relative_phase", 5),
                         ("McxVchainDirty", {"k": 4, "t": 1, "rp": val, "ao": not val}, "relative_phase", 7),
                         ("McxVchainDirty", {"k": 3, "t": 2, "rp": False, "ao": val}, "action_only", 6),
                         ("McxVchainDirty", {"k": 4, "t": 1, "rp": not val, "ao": val}, "action_only", 7),
                         ("LinearMcx", {"k": 3, "ao": val}, "action_only", 5), ("LinearMcx", {"k": 5, "ao": val, "cs": "01101"}, "action_only", 7),
                         ("Mcg", {"k": 2, "utd": val}, "up_to_diagonal", 3), ("Mcg", {"k": 3, "utd": val, "u": "su2"}, "up_to_diagonal", 4)]
            for name, p, flag, w in gate_rows:
                p = dict(p, forms={flag: form})
                cases.append({"kind": "width", "cls": name, "p": p})
                m = w + 1
                cases.append({"kind": "place", "cls": name, "p": p, "m": m, "subset": random_subset(rng, m, w), "entry": "append",
                              "style": rng.choice(["int", "qubit"])})
    for c in cases:
        c.setdefault("seed", rng.getrandbits(31))
    # MCU.mcu: error 0.0 (float form of the exact value 0) next to 0 and 0.3 of the sweep
    s_ = random_subset(rng, 7, 6)
    cases.append({"kind": "helper", "fn": "MCU.mcu", "p": {"u": "z", "error": 0.0}, "m": 7, "controls": s_[:5], "targets": s_[5:],
                  "seed": rng.getrandbits(31)})
    ctx.count("flagforms:error:float 0.0:via MCU.mcu")
    return cases


def diversity_probes(ctx):
    """Forms the library does not claim to support / restrictions of a keyword, observed on the unchanged tree (counted, noted,
    not judged: the property is about placement, width, inverse, purity - not about which initializer MixedInitialize accepts)."""
    import warnings
    from qclib.state_preparation import MixedInitialize
    v = [np.array([0.6, 0.8j, 0, 0]), np.array([0, 0, 1.0, 0])]
    seen = []
    for iname, classical in (("TopDownInitialize", False), ("SVDInitialize", True), ("DcspInitialize", True), ("BdspInitialize", True)):
        try:
            with warnings.catch_warnings():
                warnings.simplefilter("ignore")
                MixedInitialize(copy.deepcopy(v), initializer=REG[iname].cls(), classical=classical, reset=False).definition
            seen.append(f"{iname}/classical={classical}: builds")
            ctx.count(f"diversity:mixed-initializer:{iname}:builds")
        except Exception as e:
            seen.append(f"{iname}/classical={classical}: {type(e).__name__}")
            ctx.count(f"diversity:mixed-initializer:{iname}:unsupported-form-raises-{type(e).__name__}")
    ctx.notes.append("MixedInitialize(initializer=...) restrictions (not judged by C15): " + "; ".join(seen))
    from qclib.isometry import decompose
    for tag, arg in (("nested-list", [[1, 0], [0, 1]]), ("tuple", ((0, 1), (1, 0)))):
        try:
            decompose(arg)
            ctx.count(f"diversity:isometry.decompose:{tag}:accepted")
        except Exception as e:
            ctx.count(f"diversity:isometry.decompose:{tag}:unsupported-form-raises-{type(e).__name__}")


def diversity_findings(ctx):
    """Forms that FAILED on the unchanged tree when the diversity pass was written (fixed inputs, narrow keys).  All three have been
    repaired in /repo since (5861bbd, f5f5bbb, 3935593): the probes stay as regression probes (ok now, fail if the behaviour
    returns), and the combinations are back in the rotating sweeps under the normal oracle."""
    import warnings
    from qiskit import QuantumCircuit
    from qclib.state_preparation import MixedInitialize
    from qclib.unitary import unitary
    # (1) MixedInitialize documents `params: list of list of complex`; with the default classical purification the definition
    #     multiplies each state by a numpy scalar (`np.sqrt(prob) * state_vector`): TypeError for Python lists / tuples
    for tag, ens in (("lists", [[0.6, 0.8], [1, 0]]), ("tuples", [(0.6, 0.8j), (0.0, 1.0)])):
        key = f"entry:MixedInitialize:ensemble-of-python-{tag}:classical-purification"
        ctx.count("diversity:finding-probe:mixed ensemble of python " + tag)
        try:
            with warnings.catch_warnings():
                warnings.simplefilter("ignore")
                host = QuantumCircuit(3)
                MixedInitialize.initialize(host, copy.deepcopy(ens), qubits=[2, 0])
                g = host.data[0].operation
                ref = MixedInitialize([np.array(v, dtype=complex) for v in ens])
                err = _dv_same(g.definition, ref.definition)
            if err > TOL:
                ctx.fail(key, f"MixedInitialize(ensemble of Python {tag}) differs from the ndarray ensemble by {err:.3e}", {"kind": "dprobe"})
            else:
                ctx.ok(key)
        except Exception as e:
            ctx.fail(key, f"MixedInitialize.initialize(circuit, {ens}, qubits=[2, 0]); .definition raised {type(e).__name__}: "
                          f"{str(e)[:120]} (documented input: list of list of complex; a list of ndarrays builds; so does "
                          f"classical=False)", {"kind": "dprobe", "call": f"MixedInitialize({ens}).definition"})
    # (3) UCGEInitialize(preserve_previous=True) on a state whose multiplexer is simplified (repeated sibling blocks): the gate
    #     is unitary but does not prepare the state (UCGInitialize with the same options does)
    from qclib.state_preparation import UCGEInitialize
    for tag, vec, opt in (("uniform-n=2", [0.5, 0.5, 0.5, 0.5], {"preserve_previous": True}),
                          ("repeated-pairs-n=2", [0.6, 0, 0.8, 0], {"target_state": 1, "preserve_previous": True})):
        key = f"entry:UCGEInitialize:preserve_previous:{tag}"
        ctx.count("diversity:finding-probe:UCGE preserve_previous on repeated values")
        try:
            with warnings.catch_warnings():
                warnings.simplefilter("ignore")
                host = QuantumCircuit(3)
                UCGEInitialize.initialize(host, list(vec), qubits=[2, 0], opt_params=dict(opt))
                col = opmat(host)[:, opt.get("target_state", 0) and 4]        # |target> on qubits (2, 0): bit 0 of target -> qubit 2
                exp = apply_local(np.eye(8)[:, 0], np.outer(np.array(vec, dtype=complex), [1, 0, 0, 0]), [2, 0], 3)
                err = float(np.abs(col - exp).max())
            if err > TOL:
                ctx.fail(key, f"UCGEInitialize.initialize(circuit, {vec}, qubits=[2, 0], opt_params={opt}): column |target_state> differs "
                              f"from the requested state by {err:.3e} (UCGInitialize with the same arguments: 1e-16)",
                         {"kind": "dprobe", "call": f"UCGEInitialize({vec}, opt_params={opt}).definition"})
            else:
                ctx.ok(key)
        except Exception as e:
            ctx.fail(key, f"UCGEInitialize({vec}, opt_params={opt}) raised {type(e).__name__}: {str(e)[:120]}", {"kind": "dprobe"})
    # (2) unitary(): an EXACTLY unitary 8x8 matrix with entries 0, +-1/2 (exactly representable) in float32 / complex64:
    #     np.asarray keeps the single-precision dtype, the cosine-sine decomposition runs in single precision and its blocks are
    #     then rejected as non-unitary (4x4 and the float64 / complex128 copies are decomposed to 1e-15)
    h2 = np.kron(np.array([[1.0, 1.0], [1.0, -1.0]]), np.array([[1.0, 1.0], [1.0, -1.0]])) * 0.5
    u8 = np.kron(h2, np.array([[0.0, 1.0], [-1.0, 0.0]]))
    rows = [(dt, mat, scheme) for dt, mat in (("float32", u8.astype(np.float32)), ("complex64", (1j * u8).astype(np.complex64)))
            for scheme in ("qsd", "csd")]
    rows.append(("float32", h2.astype(np.float32), "qr"))          # 4x4, no zero entry: the QR scheme keeps the dtype as well
    for dt, mat, scheme in rows:
        key = f"entry:unitary:single-precision-exact-{len(mat)}x{len(mat)}:{dt}:{scheme}"
        ctx.count("diversity:finding-probe:unitary single precision 8x8")
        try:
            with warnings.catch_warnings():
                warnings.simplefilter("ignore")
                err = float(np.abs(opmat(unitary(mat.copy(), scheme)) - mat.astype(complex)).max())
            if err > 1e-5:
                ctx.fail(key, f"unitary({dt} {len(mat)}x{len(mat)} with entries 0, +-1/2, '{scheme}') is off by {err:.3e}", {"kind": "dprobe"})
            else:
                ctx.ok(key)
        except Exception as e:
            ctx.fail(key, f"unitary(exactly unitary {dt} {len(mat)}x{len(mat)} matrix with entries 0, +-1/2, '{scheme}') raised {type(e).__name__}: "
                          f"{str(e)[:100]} (the float64 / complex128 copy of the same matrix is decomposed to 1e-15)",
                     {"kind": "dprobe", "call": (f"unitary(np.kron(HxH/2, [[0,1],[-1,0]]).astype({dt}), '{scheme}')" if len(mat) == 8
                                                 else f"unitary((HxH/2).astype({dt}), '{scheme}')")})


# ---- unitary() / isometry.decompose(): matrix forms, keywords, use of the returned circuit on a host

DV_MATRIX_FORMS = ["int-perm-nested-list", "int-perm-tuple", "int64-perm", "int64-signed-perm", "f64-orthogonal", "c128-zero-imag",
                   "nested-list-complex", "f32-exact", "c64-exact", "f32-generic", "c64-generic", "minus-identity", "i-identity",
                   "diag-quarter-phases", "negzero-signed-perm", "phase-i-haar", "view-of-larger", "readonly", "fortran-real"]
DV_MATRIX_REDUCED = ("f32-generic", "c64-generic")


def dv_matrix(form, n, cols, r):
    """-> (raw, parent or None): a unitary (cols = rows) or an isometry with `cols` columns in the given form."""
    d = 2 ** n
    had = np.array([[1.0]])
    for _ in range(2 * (n // 2)):
        had = np.kron(had, np.array([[1.0, 1.0], [1.0, -1.0]])) * (1 / math.sqrt(2))
    had = np.round(had * 2 ** (n // 2)) / 2 ** (n // 2)           # entries +-2^-(n//2): exact in float32
    if n % 2:
        had = np.kron(had, np.array([[0.0, 1.0], [-1.0, 0.0]]))
    perm = np.eye(d, dtype=np.int64)[r.permutation(d)]
    signs = r.choice([-1, 1], size=d)
    signs[0] = -1
    hq = haar_unitary(r, d)
    q, rr = np.linalg.qr(r.normal(size=(d, d)))
    orth = q * np.sign(np.diag(rr))
    quarter = np.array([1, -1, 1j, -1j])
    parent = None
    if form == "int-perm-nested-list":
        raw = [[int(x) for x in row[:cols]] for row in perm]
    elif form == "int-perm-tuple":
        raw = tuple(tuple(int(x) for x in row[:cols]) for row in perm)
    elif form == "int64-perm":
        raw = perm[:, :cols].copy()
    elif form == "int64-signed-perm":
        raw = (perm * signs)[:, :cols].copy()
    elif form == "f64-orthogonal":
        raw = np.ascontiguousarray(orth[:, :cols])
    elif form == "c128-zero-imag":
        raw = np.ascontiguousarray(orth[:, :cols]).astype(complex)
    elif form == "nested-list-complex":
        raw = [[complex(x) for x in row[:cols]] for row in hq]
    elif form == "f32-exact":
        raw = np.ascontiguousarray(had[:, :cols]).astype(np.float32)
    elif form == "c64-exact":
        raw = np.ascontiguousarray((had * quarter[r.integers(4, size=d)][None, :])[:, :cols]).astype(np.complex64)
    elif form == "f32-generic":
        raw = np.ascontiguousarray(orth[:, :cols]).astype(np.float32)
    elif form == "c64-generic":
        raw = np.ascontiguousarray(hq[:, :cols]).astype(np.complex64)
    elif form == "minus-identity":
        raw = -np.eye(d)[:, :cols]
    elif form == "i-identity":
        raw = 1j * np.eye(d)[:, :cols]
    elif form == "diag-quarter-phases":
        raw = np.diag(quarter[r.integers(4, size=d)])[:, :cols].copy()
    elif form == "negzero-signed-perm":
        raw = np.where(perm == 0, -0.0, (perm * signs).astype(float))[:, :cols].copy()
    elif form == "phase-i-haar":
        raw = np.ascontiguousarray(1j * hq[:, :cols])
    elif form == "view-of-larger":
        parent = np.zeros((d + 1, d + 2), dtype=complex)
        parent[...] = r.normal(size=parent.shape)
        parent[1:, 1:d + 1] = hq
        raw = parent[1:, 1:cols + 1]                                  # a non-contiguous view: the parent must stay as it is
    elif form == "readonly":
        raw = np.ascontiguousarray(hq[:, :cols])
        raw.flags.writeable = False
    elif form == "fortran-real":
        raw = np.asfortranarray(orth[:, :cols])
    else:
        raise KeyError(form)
    return raw, parent


def run_divfn(ctx, case):
    import warnings
    with warnings.catch_warnings():
        warnings.simplefilter("ignore")
        try:
            _run_divfn(ctx, case)
        except Exception as e:
            ctx.notes.append(f"harness: diversity case {case.get('fn')}:{case.get('form')} stopped with {type(e).__name__}: {str(e)[:120]}")
            ctx.count("diversity:harness-exception")


def _run_divfn(ctx, case):
    """unitary(matrix, ...) / isometry.decompose(matrix, ...) on a matrix of a given FORM: same operator as from the complex128
    copy (and the matrix itself where that copy gives it), caller's object (and the parent of a view) untouched, and the
    returned circuit used via compose / to_gate / to_instruction / inverse on a permuted subset of a host."""
    from qiskit import QuantumCircuit
    fn, form, n = case["fn"], case["form"], case["n"]
    r = _rng(case["seed"])
    cols = 2 ** case.get("mcols", n) if fn == "isometry.decompose" else 2 ** n
    raw, parent = dv_matrix(form, n, cols, r)
    if case.get("vector"):
        raw = np.ascontiguousarray(np.asarray(raw)[:, 0]) if not isinstance(raw, (list, tuple)) else [row[0] for row in raw]
    canon = np.array(raw, dtype=np.complex128)
    if form in DV_MATRIX_REDUCED:
        # the up-cast numbers are unitary only to ~1e-7 (rejected in double precision): reference = the closest isometry
        if canon.ndim == 2:
            su, _, svh = np.linalg.svd(canon, full_matrices=False)
            canon = su @ svh
        else:
            canon = canon / np.linalg.norm(canon)
    kw = dict(case.get("kw") or {})
    key = f"divfn:{fn}:{form}:n={n}:cols={cols}:kw={sorted(kw.items())}:use={case['use']}:pos={bool(case.get('positional'))}"
    reduced = form in DV_MATRIX_REDUCED
    if fn == "unitary":
        from qclib.unitary import unitary as f
        order = ("decomposition", "iso", "apply_a2")
    else:
        from qclib.isometry import decompose as f
        order = ("scheme",)

    def call(x):
        if case.get("positional"):
            return f(x, *[kw[k_] for k_ in order if k_ in kw])
        return f(x, **kw)
    tgt = canon if canon.ndim == 2 else canon.reshape(-1, 1)
    if fn == "unitary" and kw.get("iso"):
        tgt = tgt[:, :tgt.shape[1] >> int(kw["iso"])]          # unitary(..., iso=k): only the first 2^(n-k) columns are meant
    try:
        circ_c = call(canon.copy())
        e_can = float(np.abs(opmat(circ_c)[:, :tgt.shape[1]] - tgt).max())
    except Exception:
        e_can = float("inf")
    if e_can > TOL:
        ctx.count(f"diversity:{fn}:complex128-copy-off-or-raises (owned by C02/C03)")
        ctx.notes.append(f"diversity: {fn}({form}, n={n}, {kw}): the complex128 copy is off by {e_can:.1e} / raises - C02/C03's domain, skipped")
        return
    before = snap((raw, parent, kw))
    try:
        circ = call(raw)
    except Exception as e:
        if reduced and isinstance(e, ValueError):
            ctx.ok(f"divfn-rejects:{fn}:{form}")
            ctx.count(f"diversity:{fn}:{form}:rejected-ValueError")
            return
        if isinstance(raw, (list, tuple)) and fn == "isometry.decompose":
            ctx.count(f"diversity:{fn}:{form}:unsupported-form-raises-{type(e).__name__}")     # annotated np.ndarray
            return
        ctx.fail(f"divfn-raise:{fn}:{form}:n={n}:kw={sorted(kw.items())}", f"{fn}({form} {canon.shape}, {kw}) raised "
                 f"{type(e).__name__}: {str(e)[:160]} although the complex128 copy of the same matrix is decomposed", case)
        return
    if snap((raw, parent, kw)) != before:
        ctx.fail(f"divfn-alias:{fn}:{form}:n={n}", f"{fn}: the caller's {form} matrix (or the array it is a view of) was modified", case)
        return
    uc = opmat(circ)
    e_raw = float(np.abs(uc[:, :tgt.shape[1]] - tgt).max())
    if e_raw > (1e-3 if reduced else TOL):
        ctx.fail(f"divfn-form:{fn}:{form}:n={n}:kw={sorted(kw.items())}", f"{fn}({form} {canon.shape}, {kw}): the circuit differs "
                 f"from the matrix by {e_raw:.3e}; from the complex128 copy of the same matrix only by {e_can:.1e}", case)
        return
    # the returned circuit on a permuted subset of a host
    m, q, use = case["m"], case["q"], case["use"]
    host = QuantumCircuit(m)
    ident = False
    try:
        if use == "compose":
            host.compose(circ, [host.qubits[i] for i in q], inplace=True)
        elif use == "to_gate":
            host.append(_dv_to_gate(ctx, circ, fn), q)
        elif use == "to_instruction":
            host.append(circ.to_instruction(), tuple(q))
        elif use == "gate-inverse":
            g = _dv_to_gate(ctx, circ, fn)
            host.append(g, q)
            host.append(g.inverse(), q)
            ident = True
        elif use == "twice":
            g = _dv_to_gate(ctx, circ, fn)
            host.append(g, q)
            host.append(g, q)
        psi = r.normal(size=2 ** m) + 1j * r.normal(size=2 ** m)
        psi /= np.linalg.norm(psi)
        exp = psi if ident else apply_local(psi, uc, q, m)
        if use == "twice":
            exp = apply_local(exp, uc, q, m)
        err = float(np.abs(opmat(host) @ psi - exp).max())
    except Exception as e:
        ctx.fail(f"divfn-use:{fn}:{use}", f"{fn}(...) used via {use} on qubits {q} of {m} raised {type(e).__name__}: {str(e)[:160]}", case)
        return
    if err > TOL:
        ctx.fail(f"divfn-place:{fn}:{form}:{use}", f"{fn}(...) used via {use} on qubits {q} of {m}: differs from its own operator on "
                 f"those wires by {err:.3e}", case)
        return
    ctx.ok(key, sample={"divfn": fn, "form": form, "n": n, "kw": kw, "use": use, "q": q})
    ctx.count("diversity:matrix:" + form)
    ctx.count(f"diversity:{fn}:use:{use}")
    ctx.count(f"diversity:{fn}:keywords:" + ("none" if not kw else "one" if len(kw) == 1 else "all") + (":positional" if case.get("positional") else ""))


def diversity_fn_cases(ctx):
    rng = ctx.rng
    cases = []
    uses = ["compose", "to_gate", "to_instruction", "gate-inverse", "twice"]
    o1, o2 = rng.randrange(16), rng.randrange(16)

    def place(n):
        m = n + rng.choice([1, 2])
        return m, random_subset(rng, m, n)
    zero_forms = ("int-perm-nested-list", "int-perm-tuple", "int64-perm", "int64-signed-perm", "minus-identity", "i-identity",
                  "diag-quarter-phases", "negzero-signed-perm", "f32-exact", "c64-exact")
    for i, form in enumerate(DV_MATRIX_FORMS):
        n = (1, 2, 3)[(i + o1) % 3]
        scheme = ("qsd", "csd", "qr")[(i + o2) % 3]
        if scheme == "qr" and (form in zero_forms or n == 1):
            scheme = "qsd"          # matrices with zero entries / 2x2: outside what the QR scheme takes (C02)
        m, q = place(n)
        cases.append({"kind": "divfn", "fn": "unitary", "form": form, "n": n, "kw": {} if scheme == "qsd" else {"decomposition": scheme},
                      "use": uses[(i + o1) % len(uses)], "m": m, "q": q, "seed": rng.getrandbits(31)})
        if form in ("int-perm-nested-list", "int-perm-tuple", "nested-list-complex"):
            continue                # decompose is annotated np.ndarray (probed in diversity_probes)
        n = (1, 2, 3)[(i + o2) % 3]
        mc = (0, n, n // 2 if n > 1 else 0)[(i + o1) % 3]
        scheme = ("ccd", "csd", "knill")[(i + o1 + o2) % 3]
        if scheme == "knill" and n == 1:
            scheme = "ccd"
        m, q = place(n)
        cases.append({"kind": "divfn", "fn": "isometry.decompose", "form": form, "n": n, "mcols": mc, "vector": mc == 0 and i % 2 == 0,
                      "kw": {} if scheme == "ccd" else {"scheme": scheme}, "use": uses[(i + o2) % len(uses)], "m": m, "q": q,
                      "seed": rng.getrandbits(31)})
    # exactly representable single precision at the sizes where the decompositions themselves run (8x8: cosine-sine; 4x4 without
    # zero entries: QR) - was finding `entry:unitary:single-precision-exact-*`, repaired; judged at 1e-7 like every exact form
    for form in ("f32-exact", "c64-exact"):
        for n, kw in ((3, {}), (3, {"decomposition": "csd"}), (2, {"decomposition": "qr"})):
            m, q = place(n)
            cases.append({"kind": "divfn", "fn": "unitary", "form": form, "n": n, "kw": kw, "use": rng.choice(uses), "m": m, "q": q,
                          "seed": rng.getrandbits(31)})
        for scheme, mc in (("csd", 2), ("ccd", 3)):
            m, q = place(3)
            cases.append({"kind": "divfn", "fn": "isometry.decompose", "form": form, "n": 3, "mcols": mc, "kw": {"scheme": scheme},
                          "use": rng.choice(uses), "m": m, "q": q, "seed": rng.getrandbits(31)})
    # every keyword alone, all at once, positionally
    for n in (2, 3):
        for kw, pos in (({"decomposition": "csd"}, False), ({"iso": 1}, False), ({"apply_a2": False}, False),
                        ({"decomposition": "csd", "iso": 1, "apply_a2": False}, False),
                        ({"decomposition": "qsd", "iso": n - 1, "apply_a2": False}, True), ({"decomposition": "qr"}, True)):
            if n == 3 and len(kw) == 1:
                continue            # single keywords at 4x4 only (8x8 costs ~4x more); all at once at both sizes
            m, q = place(n)
            cases.append({"kind": "divfn", "fn": "unitary", "form": "phase-i-haar" if n == 2 else "f64-orthogonal", "n": n, "kw": kw,
                          "positional": pos, "use": rng.choice(uses), "m": m, "q": q, "seed": rng.getrandbits(31)})
        for scheme, pos in (("csd", True), ("knill", False), ("ccd", True)):
            m, q = place(n)
            cases.append({"kind": "divfn", "fn": "isometry.decompose", "form": "c128-zero-imag", "n": n, "mcols": n - 1, "kw": {"scheme": scheme},
                          "positional": pos, "use": rng.choice(uses), "m": m, "q": q, "seed": rng.getrandbits(31)})
    return cases


RUNNERS["div"] = run_div
RUNNERS["divfn"] = run_divfn


# ------------------------------------------------------------------------------------------------
# entry points used by the framework
# ------------------------------------------------------------------------------------------------

def run(ctx):
    ctx.notes.append("determinism exempt: LowRankInitialize(svd='randomized') / svd='auto' at n>=14, rank 1 (random sketch "
                     "matrix by design); not exercised")
    ctx.notes.append("domain restrictions observed on the real code (construction fails outside): SVDInitialize n>=2; "
                     "FnPointsInitialize n>=2; PivotInitialize m>=2 (m>=3 with aux=True whenever a pivot step is needed); "
                     "Ldmcsu/Qdmcu/LdMcSpecialUnitary k>=1; MCU needs k >= base controls (5 for X/Z at error 0.3)")
    gen_width_tie(ctx)
    for case in width_cases(ctx):
        run_case(ctx, case)
    n_alpha = 40 if ctx.quick else 200
    for i in range(n_alpha):
        run_case(ctx, {"kind": "alphabet", "seed": ctx.rng.getrandbits(31), "nq": ctx.rng.choice([2, 3, 4, 5, 6]),
                       "len": ctx.rng.choice([3, 8, 15])})
    for case in oracle_cases(ctx):
        run_case(ctx, case)
    for case in branch_cases(ctx):
        run_case(ctx, case)
    for case in boundary_cases(ctx):
        run_case(ctx, case)
    for case in loop_cases(ctx):
        run_case(ctx, case)
    boundary_probes(ctx)
    probe_pivot_aux(ctx)
    probes(ctx)
    for case in diversity_cases(ctx) + diversity_fn_cases(ctx):
        run_case(ctx, case)
    for case in flag_cases(ctx):
        run_case(ctx, case)
    diversity_probes(ctx)
    diversity_findings(ctx)


def search(ctx, hints):
    """A proof / tie went red: look for a failing input of the property on the real code.  Width rows that
    disagree are re-evaluated first (real declared vs real circuit), then the whole oracle at thorough sizes."""
    for h in hints or []:
        op = h.get("op", {})
        if op.get("op") == "width":
            ctx.notes.append(f"width row disagrees: {op} {h.get('diff')}")
    for case in width_cases(ctx):
        run_case(ctx, case)
    for case in oracle_cases(ctx):
        run_case(ctx, case)
    for case in loop_cases(ctx):
        run_case(ctx, case)
    for case in diversity_cases(ctx) + diversity_fn_cases(ctx) + flag_cases(ctx):
        run_case(ctx, case)
    probes(ctx)


def replay(ctx, payload):
    case = payload["replay"]
    if case.get("kind") == "probe":
        probes(ctx)
        return
    if case.get("kind") == "bprobe":
        boundary_probes(ctx)
        return
    if case.get("kind") == "dprobe":
        diversity_findings(ctx)
        return
    run_case(ctx, case)


# ------------------------------------------------------------------------------------------------
# source tie of the declared-width expressions (DESIGN §4.1): translated from the constructors on every run
# ------------------------------------------------------------------------------------------------

GEN_FILE_REL = "lean/QclibModel/Gen/Widths.lean"
GEN_SOURCES = ["qclib/state_preparation/cvoqram.py", "qclib/state_preparation/fnpoints.py", "qclib/state_preparation/pivot.py",
               "qclib/gates/mcx.py", "qclib/gates/multitargetmcsu2.py"]


def generate(ctx):
    """Re-translate, from the current source, the expression each of six constructors hands to `super().__init__` as the
    width (with every statement of `__init__` that feeds it) into Gen/Widths.lean, and re-check C15_width_src.  A translator
    refusal raises (broken obligation `translator`)."""
    import os
    import framework
    import py2lean
    import srctie
    py2lean.ensure_prelude(framework.LEAN)
    ns = "Qclib.Gen.Widths"
    sup = ("super().__init__", 1, "num_qubits")
    cvo, fnp, piv, mcx, mts = GEN_SOURCES

    def tb(rel, *a, **k):
        return py2lean.translate_block(os.path.join(framework.REPO, rel), *a, relpath=rel, result_call=sup, **k)
    none_view = {"opt_params is None": ("opt_none", "Bool")}
    blocks = [
        tb(cvo, "CvoqramInitialize.__init__", "cvoqram_width", ns, params=[("self.num_qubits", "Int")],
           views=dict(none_view, **{"opt_params.get('with_aux')": ("opt_with_aux", "OptBool")})),
        tb(fnp, "FnPointsInitialize.__init__", "fnpoints_width", ns, params=[("self.num_qubits", "Int")]),
        tb(piv, "PivotInitialize.__init__", "pivot_width", ns, params=[("self.num_qubits", "Int")],
           views=dict({"len(params)": "len_params"}, **none_view, **{"opt_params.get('aux')": ("opt_aux", "OptBool")})),
        tb(mcx, "McxVchainDirty.__init__", "mcx_vchain_dirty_width", ns,
           params=[("num_controls", "Int"), ("num_target_qubit", "Int")]),
        tb(mcx, "LinearMcx.__init__", "linear_mcx_width", ns, params=[("num_controls", "Int")]),
        tb(mts, "MultiTargetMCSU2.__init__", "multi_target_mcsu2_width", ns,
           params=[("num_controls", "Int"), ("num_target", "Int")]),
    ]
    text = py2lean.write_module(os.path.join(framework.VERIF, GEN_FILE_REL), blocks,
                                [s + " :: width argument of super().__init__ in __init__" for s in GEN_SOURCES])
    srctie.verify(ctx, "QclibModel.Props.C15", ["Qclib.C15_width_src"])
    return {"file": GEN_FILE_REL, "bytes": len(text),
            "translated": ["CvoqramInitialize", "FnPointsInitialize", "PivotInitialize", "McxVchainDirty", "LinearMcx",
                           "MultiTargetMCSU2"]}


def gen_width_tie(ctx):
    """Second tie of the translation: the generated width expressions (run by the driver) against `num_qubits` of the REAL
    constructors, exhaustively over a small box of (n, m, option form) / (k, t)."""
    from qclib.state_preparation import CvoqramInitialize, FnPointsInitialize, PivotInitialize
    from qclib.gates.mcx import McxVchainDirty, LinearMcx
    from qclib.gates.multitargetmcsu2 import MultiTargetMCSU2

    def same(op, impl, model):
        return None if impl == model else f"impl={impl!r} generated={model!r}"

    def emit(op, build):
        try:
            lines = [f"decl {int(build().num_qubits)}"]
        except Exception as e:
            lines = [f"raised {type(e).__name__}"]
        base = {"op": "gen_width", "n": 0, "m": 0, "k": 0, "t": 0, "opt_none": True, "has_opt": False, "opt": False}
        base.update(op)
        ctx.tie(base, lines, label="translated width " + " ".join(f"{a}={b}" for a, b in op.items()), compare=same)
        ctx.count("gen-width:" + op["cls"])

    def opt_forms(key):
        return [(None, True, False, False), ({}, False, False, False), ({key: None}, False, False, False),
                ({key: True}, False, True, True), ({key: False}, False, True, False)]

    for n in range(1, 6):
        for m in sorted({1, 2, 3, 5, 2 ** n}):
            if m > 2 ** n:
                continue
            keys = [format(i, f"0{n}b") for i in range(m)]
            amp = {k: 1.0 / math.sqrt(m) for k in keys}
            for key, cls, C in (("with_aux", "cvoqram", CvoqramInitialize), ("aux", "pivot", PivotInitialize)):
                for opt, onone, has, val in opt_forms(key):
                    emit({"cls": cls, "n": n, "m": m, "opt_none": onone, "has_opt": has, "opt": val},
                         lambda C=C, opt=opt: C(dict(amp), opt_params=copy.deepcopy(opt)))
            emit({"cls": "fnPoints", "n": n, "m": m}, lambda: FnPointsInitialize({k: i for i, k in enumerate(keys)}))
    eye = np.eye(2)
    for k in range(1, 9):
        emit({"cls": "linearMcx", "k": k}, lambda: LinearMcx(k))
        for t in range(1, 4):
            emit({"cls": "mcxVchainDirty", "k": k, "t": t}, lambda: McxVchainDirty(k, num_target_qubit=t))
            emit({"cls": "multiTargetMCSU2", "k": k, "t": t}, lambda: MultiTargetMCSU2([eye] * t, k, t))
